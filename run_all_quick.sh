#!/bin/bash
# usage: run_all_quick.sh [quick|thorough]  -- every registered check in turn; summary lines only
cd /verif
tier=${1:-quick}
for i in $(seq -w 1 20); do
  c=C$i
  echo "=== $c $(date +%T)"
  ./check $c $tier 2>&1 | grep -E "^(VIOLATION|KNOWN-FINDING|C[0-9]+ (quick|thorough)|MACHINERY)" | cut -c1-300
  echo "exit=${PIPESTATUS[0]}"
done
echo ALLDONE
