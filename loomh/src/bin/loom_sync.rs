//! C18 under loom: the real sync42::WorkCoalescingQueue, WaitList (more waiters than slots) and
//! LeastRecentlyUsedCache with 2-3 threads.

use std::sync::Arc;
use std::sync::Mutex as StdMutex;

use loomh::{Limits, begin_execution, explore, finding, finish_child, outcome, record, run_parent};
use sync42::lru::{LeastRecentlyUsedCache, Value as LruValue};
use sync42::wait_list::WaitList;
use sync42::work_coalescing_queue::{WorkCoalescingCore, WorkCoalescingQueue};
use vcore::{Args, Value, json};

///////////////////////////////////////////// queue core ///////////////////////////////////////////

#[derive(Clone, Copy, PartialEq)]
enum Mode {
    All,
    Limit2,
    Refuse,
}

struct Core {
    mode: Mode,
    log: Vec<u64>,
    batches: Vec<usize>,
}

impl WorkCoalescingCore<u64, u64> for Core {
    type InputAccumulator = Vec<u64>;
    type OutputIterator<'a> = std::vec::IntoIter<u64>;

    fn can_batch(&self, acc: &Vec<u64>, _other: &u64) -> bool {
        match self.mode {
            Mode::All => true,
            Mode::Limit2 => acc.len() < 2,
            Mode::Refuse => false,
        }
    }

    fn batch(&mut self, mut acc: Vec<u64>, other: u64) -> Vec<u64> {
        acc.push(other);
        acc
    }

    fn work(&mut self, taken: usize, acc: Vec<u64>) -> Self::OutputIterator<'_> {
        if taken != acc.len() {
            finding("queue-taken-count-differs", format!("taken={taken} batch={acc:?}"));
        }
        self.log.extend(acc.iter().copied());
        self.batches.push(acc.len());
        acc.into_iter().map(|x| x * 10).collect::<Vec<_>>().into_iter()
    }
}

fn queue_model(cfg: Value) -> impl Fn() + Sync + Send + Clone + 'static {
    move || {
        begin_execution();
        let threads = cfg["threads"].as_u64().unwrap() as usize;
        let calls = cfg["calls"].as_u64().unwrap() as usize;
        let mode = match cfg["core"].as_str().unwrap() {
            "all" => Mode::All,
            "limit2" => Mode::Limit2,
            _ => Mode::Refuse,
        };
        sync42::verif::set_wait_list_slots(cfg["slots"].as_u64().unwrap() as usize);
        let q = Arc::new(WorkCoalescingQueue::new(Core { mode, log: vec![], batches: vec![] }));
        // (input, started-clock, finished-clock)
        let times: Arc<StdMutex<Vec<(u64, usize, usize)>>> = Arc::new(StdMutex::new(vec![]));
        let mut hs = vec![];
        for t in 0..threads {
            let q = Arc::clone(&q);
            let times = Arc::clone(&times);
            hs.push(loom::thread::spawn(move || {
                for c in 0..calls {
                    let input = (t * 10 + c + 1) as u64;
                    let s = loomh::history_len();
                    record(t + 1, format!("do_work({input}) call"));
                    let out = q.do_work(input);
                    record(t + 1, format!("do_work({input}) -> {out}"));
                    let f = loomh::history_len();
                    times.lock().unwrap().push((input, s, f));
                    if out != input * 10 {
                        finding(
                            "queue-wrong-output",
                            format!("do_work({input}) returned {out}, the output of another request"),
                        );
                    }
                }
            }));
        }
        for h in hs {
            h.join().unwrap();
        }
        let core = q.get_core();
        let log = core.log.clone();
        let batches = core.batches.clone();
        drop(core);
        let mut want: Vec<u64> = (0..threads)
            .flat_map(|t| (0..calls).map(move |c| (t * 10 + c + 1) as u64))
            .collect();
        let mut sorted = log.clone();
        sorted.sort();
        want.sort();
        if sorted != want {
            finding(
                "queue-input-not-exactly-once",
                format!("the core saw {log:?}, submitted {want:?}"),
            );
        }
        // program order per thread
        for t in 0..threads {
            let mine: Vec<u64> = log.iter().copied().filter(|x| (*x as usize) / 10 == t).collect();
            if mine.windows(2).any(|w| w[0] > w[1]) {
                finding("queue-program-order-violated", format!("core order {log:?}"));
            }
        }
        // real-time order: a call that returned before another began is processed first
        let times = times.lock().unwrap().clone();
        for (a, _, fa) in times.iter() {
            for (b, sb, _) in times.iter() {
                if fa < sb {
                    let pa = log.iter().position(|x| x == a);
                    let pb = log.iter().position(|x| x == b);
                    if let (Some(pa), Some(pb)) = (pa, pb) {
                        if pa > pb {
                            finding(
                                "queue-real-time-order-violated",
                                format!("{a} returned before {b} was submitted but the core saw {log:?}"),
                            );
                        }
                    }
                }
            }
        }
        if mode == Mode::Refuse && batches.iter().any(|b| *b != 1) {
            finding("queue-batched-despite-refusal", format!("batches {batches:?}"));
        }
        if mode == Mode::Limit2 && batches.iter().any(|b| *b > 2) {
            finding("queue-batch-over-limit", format!("batches {batches:?}"));
        }
        outcome(&(log, batches));
    }
}

fn waitlist_model(cfg: Value) -> impl Fn() + Sync + Send + Clone + 'static {
    move || {
        begin_execution();
        let threads = cfg["threads"].as_u64().unwrap() as usize;
        sync42::verif::set_wait_list_slots(cfg["slots"].as_u64().unwrap() as usize);
        let wl: Arc<WaitList<u64>> = Arc::new(WaitList::new());
        let m = Arc::new(loom::sync::Mutex::new(Vec::<(u64, usize)>::new()));
        let mut hs = vec![];
        // threads listed under "early" leave as soon as they are linked, head or not (what a
        // follower of the coalescing queue does once it has its output)
        let early: Vec<usize> = cfg["early"].as_array().map(|a| a.iter().map(|x| x.as_u64().unwrap() as usize).collect()).unwrap_or_default();
        let n_early = early.len();
        for t in 0..threads {
            let wl = Arc::clone(&wl);
            let m = Arc::clone(&m);
            let leaves_early = early.contains(&t);
            hs.push(loom::thread::spawn(move || {
                record(t + 1, "link call");
                let mut wg = wl.link(t as u64);
                let idx = wg.index();
                record(t + 1, format!("link -> index {idx}"));
                if leaves_early {
                    let g = m.lock().unwrap();
                    drop(wg);
                    wl.notify_head();
                    drop(g);
                    record(t + 1, "left early");
                    return;
                }
                let mut g = m.lock().unwrap();
                while !wg.is_head() {
                    g = wg.naked_wait(g);
                }
                // exactly one head: nobody else may be in this section
                g.push((idx, t));
                let v = wg.load();
                if v != t as u64 {
                    finding("waitlist-wrong-value", format!("thread {t} loaded {v}"));
                }
                drop(wg);
                wl.notify_head();
                drop(g);
                record(t + 1, "left");
            }));
        }
        for h in hs {
            h.join().unwrap();
        }
        let order = m.lock().unwrap().clone();
        if order.len() != threads - n_early {
            finding("waitlist-lost-waiter", format!("{order:?}"));
        }
        if order.windows(2).any(|w| w[0].0 >= w[1].0) {
            finding(
                "waitlist-head-order-violated",
                format!("waiters became head in the order {order:?} (index, thread)"),
            );
        }
        outcome(&order);
    }
}

#[derive(Clone, Debug)]
struct V(u64);
impl LruValue for V {
    fn approximate_size(&self) -> usize {
        1
    }
}

/// Two threads, two operations each, on a cache that never needs to evict: the observed
/// lookups must be explained by some interleaving of the four operations on a plain map.
fn lru_model(cfg: Value) -> impl Fn() + Sync + Send + Clone + 'static {
    move || {
        begin_execution();
        let cap = cfg["capacity"].as_u64().unwrap() as usize;
        let c: Arc<LeastRecentlyUsedCache<u64, V>> = Arc::new(LeastRecentlyUsedCache::new(cap));
        let progs: Vec<Vec<(String, u64)>> = cfg["programs"]
            .as_array()
            .unwrap()
            .iter()
            .map(|p| {
                p.as_array()
                    .unwrap()
                    .iter()
                    .map(|o| (o[0].as_str().unwrap().to_string(), o[1].as_u64().unwrap()))
                    .collect()
            })
            .collect();
        let results: Arc<StdMutex<Vec<Vec<Option<u64>>>>> =
            Arc::new(StdMutex::new(vec![vec![]; progs.len()]));
        let mut hs = vec![];
        for (t, prog) in progs.iter().cloned().enumerate() {
            let c = Arc::clone(&c);
            let results = Arc::clone(&results);
            hs.push(loom::thread::spawn(move || {
                for (op, k) in prog {
                    let r = match op.as_str() {
                        "insert" => {
                            c.insert(k, V(k * 100 + t as u64));
                            None
                        }
                        "remove" => {
                            c.remove(&k);
                            None
                        }
                        "lookup" => c.lookup(&k).map(|v| v.0),
                        _ => panic!("bad op"),
                    };
                    record(t + 1, format!("{op}({k}) -> {r:?}"));
                    results.lock().unwrap()[t].push(r);
                }
            }));
        }
        for h in hs {
            h.join().unwrap();
        }
        let results = results.lock().unwrap().clone();
        // brute force: all interleavings of the two programs on a map
        let mut ok = false;
        let n0 = progs[0].len();
        let n1 = progs[1].len();
        let total = n0 + n1;
        for mask in 0u32..(1 << total) {
            if mask.count_ones() as usize != n1 {
                continue;
            }
            let mut map = std::collections::BTreeMap::new();
            let (mut i0, mut i1) = (0, 0);
            let mut good = true;
            for s in 0..total {
                let t = ((mask >> s) & 1) as usize;
                let i = if t == 0 { &mut i0 } else { &mut i1 };
                let (op, k) = &progs[t][*i];
                let want = &results[t][*i];
                *i += 1;
                match op.as_str() {
                    "insert" => {
                        map.insert(*k, *k * 100 + t as u64);
                    }
                    "remove" => {
                        map.remove(k);
                    }
                    _ => {
                        if map.get(k).copied() != *want {
                            good = false;
                            break;
                        }
                    }
                }
            }
            if good {
                ok = true;
                break;
            }
        }
        if !ok {
            finding(
                "lru-not-linearizable",
                format!("programs {progs:?} observed {results:?}: no interleaving on a sequential map explains it"),
            );
        }
        if c.approximate_size() > 8 {
            finding("lru-size-accounting", format!("size {}", c.approximate_size()));
        }
        outcome(&results);
    }
}

fn configs(thorough: bool) -> Vec<Value> {
    let mut v = vec![];
    let budget = if thorough { 300 } else { 8 };
    let lim = || json!({"bounds": [1, 2, 3, null], "max_branches": 500000, "budget_s": budget});
    for threads in [2usize, 3] {
        for calls in [1usize, 2] {
            if threads == 3 && calls == 2 && !thorough {
                continue;
            }
            for core in ["all", "limit2", "refuse"] {
                for slots in [2usize, 4] {
                    if slots == 4 && threads == 2 && calls == 1 {
                        continue;
                    }
                    v.push(json!({
                        "harness": "queue", "name": format!("queue-t{threads}-c{calls}-{core}-s{slots}"),
                        "threads": threads, "calls": calls, "core": core, "slots": slots, "limits": lim(),
                    }));
                }
            }
        }
    }
    for (threads, slots) in [(2usize, 2usize), (3, 2), (3, 4), (2, 1), (3, 1)] {
        v.push(json!({
            "harness": "waitlist", "name": format!("waitlist-t{threads}-s{slots}"),
            "threads": threads, "slots": slots, "limits": lim(),
        }));
    }
    // more waiters than slots by two, and a waiter that leaves before it is head: the head's
    // unlink then frees several slots at once and every blocked linker must still get in
    for (threads, slots, early) in [(4usize, 2usize, json!([1])), (4, 2, json!([1, 2])), (3, 1, json!([1])), (4, 1, json!([2]))] {
        v.push(json!({
            "harness": "waitlist", "name": format!("waitlist-t{threads}-s{slots}-early{}", early.to_string().replace(['[', ']', ','], "")),
            "threads": threads, "slots": slots, "early": early, "limits": lim(),
        }));
    }
    let progs = [
        json!([[["insert", 1], ["lookup", 2]], [["insert", 2], ["lookup", 1]]]),
        json!([[["insert", 1], ["lookup", 1]], [["insert", 1], ["lookup", 1]]]),
        json!([[["insert", 1], ["remove", 1]], [["lookup", 1], ["lookup", 1]]]),
        json!([[["insert", 1], ["insert", 2]], [["lookup", 2], ["lookup", 1]]]),
    ];
    for (i, p) in progs.iter().enumerate() {
        v.push(json!({"harness": "lru", "name": format!("lru-{i}"), "capacity": 64, "programs": p, "limits": lim()}));
    }
    v
}

fn run_child(cfg: &Value) -> Value {
    let limits = Limits::from_json(&cfg["limits"]);
    match cfg["harness"].as_str().unwrap() {
        "queue" => explore(cfg, &limits, queue_model(cfg.clone())),
        "waitlist" => explore(cfg, &limits, waitlist_model(cfg.clone())),
        "lru" => explore(cfg, &limits, lru_model(cfg.clone())),
        h => panic!("unknown harness {h}"),
    }
}

fn main() {
    let args = Args::parse();
    vcore::quiet_panics();
    if let Some(c) = args.get("child") {
        let cfg: Value = serde_json::from_str(c).expect("child cfg");
        let v = run_child(&cfg);
        finish_child(&args, &v);
        return;
    }
    if let Some(rf) = args.replay_case() {
        let v = run_child(&rf["case"]["cfg"]);
        loomh::replay_exit(&v, rf["signature"].as_str().unwrap_or(""));
    }
    let mut rep = run_parent(
        "loom_sync",
        "C18",
        "c18",
        configs(args.tier_thorough()),
        &args,
        "loom DPOR over every interleaving of 2-3 threads calling into one real WorkCoalescingQueue (cores that accept every batch, limit batches to 2, or refuse batching; 2 or 4 wait-list slots), 2-3 threads passing through one real WaitList with fewer slots than waiters, and 2 threads x 2 operations on the real LRU cache; one evaluation = one complete execution; distinct = (configuration, core log / head order / lookup results)",
    );
    rep.bound = json!({"preemption_bounds": "1, 2, 3, then unbounded per configuration as far as its budget allows (notes.configurations[].completed_bound)"});
    rep.assumptions = vec!["biometrics counters and std Arc counts are not modelled".into()];
    rep.finish(&args, "loom_sync");
}
