//! C12 (concurrent half) under loom: 2-3 threads append through the real
//! sst::log::ConcurrentLogBuilder<File> (write- and fsync-coalescing queues over wait lists).
//! `write` and `fdatasync` are interposed in this binary to observe, per execution, how many bytes
//! were in the file at each write and which prefix each completed fdatasync made durable.
//!
//! Oracle: every append that returns Ok returned after an fdatasync that began when the batch's
//! bytes were already in the file had completed; the final file holds each batch exactly once,
//! whole, with per-thread order preserved; with an injected fdatasync failure no append whose
//! bytes were not yet durable returns Ok.

use std::sync::Arc;
use std::sync::Mutex as StdMutex;
use std::sync::atomic::{AtomicI64, AtomicU64, Ordering};

use loomh::{Limits, begin_execution, explore, finding, finish_child, outcome, record, run_parent};
use sst::Builder;
use sst::log::{ConcurrentLogBuilder, LogIterator, LogOptions, WriteBatch};
use vcore::{Args, Value, json};

static WATCH_FD: AtomicI64 = AtomicI64::new(-1);
static FILE_SIZE: AtomicU64 = AtomicU64::new(0);
static DURABLE: AtomicU64 = AtomicU64::new(0);
static SYNCS: AtomicU64 = AtomicU64::new(0);
/// fail the n-th fdatasync (1-based); 0 = never
static FAIL_SYNC_AT: AtomicU64 = AtomicU64::new(0);
/// (batch id, file size after the write call that carried the batch's bytes)
static WRITE_ENDS: StdMutex<Vec<(u64, u64)>> = StdMutex::new(Vec::new());

mod interposers {
    use super::*;
    use libc::{c_int, c_void, size_t, ssize_t};

    #[unsafe(no_mangle)]
    pub unsafe extern "C" fn write(fd: c_int, buf: *const c_void, count: size_t) -> ssize_t {
        let r = unsafe { libc::syscall(libc::SYS_write, fd, buf, count) } as ssize_t;
        if r > 0 && fd as i64 == WATCH_FD.load(Ordering::Relaxed) {
            let size = FILE_SIZE.fetch_add(r as u64, Ordering::Relaxed) + r as u64;
            // which batches does this call carry?  keys are "k" + two digits
            let b = unsafe { std::slice::from_raw_parts(buf as *const u8, r as usize) };
            let mut ends = WRITE_ENDS.lock().unwrap();
            for w in b.windows(3) {
                if w[0] == b'k' && w[1].is_ascii_digit() && w[2].is_ascii_digit() {
                    let id = ((w[1] - b'0') as u64) * 10 + (w[2] - b'0') as u64;
                    ends.push((id, size));
                }
            }
        }
        r
    }

    #[unsafe(no_mangle)]
    pub unsafe extern "C" fn fdatasync(fd: c_int) -> c_int {
        if fd as i64 == WATCH_FD.load(Ordering::Relaxed) {
            let n = SYNCS.fetch_add(1, Ordering::Relaxed) + 1;
            if FAIL_SYNC_AT.load(Ordering::Relaxed) == n {
                unsafe {
                    *libc::__errno_location() = libc::EIO;
                }
                return -1;
            }
            let size = FILE_SIZE.load(Ordering::Relaxed);
            let r = unsafe { libc::syscall(libc::SYS_fdatasync, fd) } as c_int;
            if r == 0 {
                DURABLE.fetch_max(size, Ordering::Relaxed);
            }
            return r;
        }
        unsafe { libc::syscall(libc::SYS_fdatasync, fd) as c_int }
    }
}

fn log_model(cfg: Value, dir: std::path::PathBuf) -> impl Fn() + Sync + Send + Clone + 'static {
    move || {
        use std::os::fd::AsRawFd;
        let n = begin_execution();
        let threads = cfg["threads"].as_u64().unwrap() as usize;
        let calls = cfg["calls"].as_u64().unwrap() as usize;
        sync42::verif::set_wait_list_slots(cfg["slots"].as_u64().unwrap() as usize);
        let path = dir.join(format!("log{}", n % 4));
        let _ = std::fs::remove_file(&path);
        let file = std::fs::OpenOptions::new()
            .create_new(true)
            .read(true)
            .write(true)
            .open(&path)
            .expect("create log");
        WATCH_FD.store(file.as_raw_fd() as i64, Ordering::Relaxed);
        FILE_SIZE.store(0, Ordering::Relaxed);
        DURABLE.store(0, Ordering::Relaxed);
        SYNCS.store(0, Ordering::Relaxed);
        WRITE_ENDS.lock().unwrap().clear();
        FAIL_SYNC_AT.store(cfg["fail_sync_at"].as_u64().unwrap_or(0), Ordering::Relaxed);
        let log = Arc::new(ConcurrentLogBuilder::from_write(LogOptions::default(), file).expect("builder"));
        // (batch id, ok, durable bytes observed when the call returned)
        let rets: Arc<StdMutex<Vec<(u64, bool, u64)>>> = Arc::new(StdMutex::new(vec![]));
        let mut hs = vec![];
        for t in 0..threads {
            let log = Arc::clone(&log);
            let rets = Arc::clone(&rets);
            hs.push(loom::thread::spawn(move || {
                for c in 0..calls {
                    let id = ((t + 1) * 10 + c + 1) as u64;
                    let mut wb = WriteBatch::default();
                    wb.put(format!("k{id}").as_bytes(), id, format!("v{id}").as_bytes()).unwrap();
                    wb.del(format!("d{id}").as_bytes(), id).unwrap();
                    record(t + 1, format!("append({id}) call"));
                    let r = log.append(wb);
                    let durable = DURABLE.load(Ordering::Relaxed);
                    record(t + 1, format!("append({id}) -> {} (durable={durable})", if r.is_ok() { "Ok" } else { "Err" }));
                    rets.lock().unwrap().push((id, r.is_ok(), durable));
                }
            }));
        }
        for h in hs {
            h.join().unwrap();
        }
        WATCH_FD.store(-1, Ordering::Relaxed);
        let log = match Arc::try_unwrap(log) {
            Ok(l) => l,
            Err(_) => {
                finding("log-still-shared", "Arc::try_unwrap failed");
                return;
            }
        };
        let _ = log.seal();
        // read the file back
        let mut order: Vec<u64> = vec![];
        let mut ends: std::collections::BTreeMap<u64, u64> = Default::default();
        match LogIterator::new(LogOptions::default(), &path) {
            Err(e) => finding("log-unreadable", format!("{e}")),
            Ok(mut it) => {
                let mut pending: Option<u64> = None;
                loop {
                    match it.next() {
                        Err(e) => {
                            finding("log-read-error", format!("{e}"));
                            break;
                        }
                        Ok(None) => break,
                        Ok(Some(kv)) => {
                            let id = kv.timestamp;
                            let is_put = kv.value.is_some();
                            if is_put {
                                if pending.is_some() {
                                    finding("log-batch-not-whole", format!("put of batch {id} follows an unfinished batch"));
                                }
                                pending = Some(id);
                            } else {
                                if pending != Some(id) {
                                    finding("log-batch-not-whole", format!("tombstone of batch {id} without its put"));
                                }
                                pending = None;
                                order.push(id);
                            }
                        }
                    }
                }
                if pending.is_some() {
                    finding("log-batch-not-whole", "file ends inside a batch");
                }
            }
        }
        // where each batch's bytes ended up: the file size after the write call that carried them
        for (id, size) in WRITE_ENDS.lock().unwrap().iter() {
            ends.entry(*id).or_insert(*size);
        }
        let rets = rets.lock().unwrap().clone();
        let failing = cfg["fail_sync_at"].as_u64().unwrap_or(0) > 0;
        for (id, ok, durable) in rets.iter() {
            let n = order.iter().filter(|x| *x == id).count();
            if *ok {
                if n != 1 {
                    finding(
                        if n == 0 { "log-acknowledged-batch-missing" } else { "log-batch-duplicated" },
                        format!("batch {id} acknowledged; appears {n} times; file order {order:?}"),
                    );
                } else if let Some(end) = ends.get(id) {
                    if durable < end {
                        finding(
                            "log-append-returned-before-durable",
                            format!("append({id}) returned Ok when only {durable} bytes had been made durable by a completed fdatasync, but the write call carrying the batch ended at byte {end}"),
                        );
                    }
                }
            } else if !failing {
                finding("log-append-error", format!("append({id}) failed without an injected fault"));
            }
        }
        for t in 0..threads {
            let mine: Vec<u64> = order.iter().copied().filter(|x| (*x as usize) / 10 == t + 1).collect();
            if mine.windows(2).any(|w| w[0] > w[1]) {
                finding("log-program-order-violated", format!("file order {order:?}"));
            }
        }
        let oks: Vec<(u64, bool)> = rets.iter().map(|r| (r.0, r.1)).collect();
        outcome(&(order, oks, SYNCS.load(Ordering::Relaxed)));
    }
}

fn configs(thorough: bool) -> Vec<Value> {
    let budget = if thorough { 300 } else { 8 };
    let lim = || json!({"bounds": [1, 2, 3, null], "max_branches": 1000000, "budget_s": budget});
    let mut v = vec![];
    for (threads, calls) in [(2usize, 1usize), (2, 2), (3, 1)] {
        for slots in [2usize, 4] {
            v.push(json!({"name": format!("log-t{threads}-c{calls}-s{slots}"), "threads": threads, "calls": calls, "slots": slots, "limits": lim()}));
        }
    }
    for at in [1u64, 2] {
        v.push(json!({"name": format!("log-t2-c1-s2-failsync{at}"), "threads": 2, "calls": 1, "slots": 2, "fail_sync_at": at, "limits": lim()}));
        v.push(json!({"name": format!("log-t3-c1-s4-failsync{at}"), "threads": 3, "calls": 1, "slots": 4, "fail_sync_at": at, "limits": lim()}));
    }
    v
}

fn run_child(cfg: &Value) -> Value {
    let limits = Limits::from_json(&cfg["limits"]);
    let scratch = vcore::Scratch::new("loomlog");
    let v = explore(cfg, &limits, log_model(cfg.clone(), scratch.path.clone()));
    drop(scratch);
    v
}

fn main() {
    let args = Args::parse();
    vcore::quiet_panics();
    if let Some(c) = args.get("child") {
        let cfg: Value = serde_json::from_str(c).expect("child cfg");
        let v = run_child(&cfg);
        finish_child(&args, &v);
        return;
    }
    if let Some(rf) = args.replay_case() {
        let v = run_child(&rf["case"]["cfg"]);
        loomh::replay_exit(&v, rf["signature"].as_str().unwrap_or(""));
    }
    // --prop C02: the fault half alone, reported under C02 ("an I/O error reported by the operating
    // system is surfaced to the caller rather than acknowledged as success")
    let c02 = args.get("prop") == Some("C02");
    let mut cfgs = configs(args.tier_thorough());
    if c02 {
        cfgs.retain(|c| c["fail_sync_at"].as_u64().unwrap_or(0) > 0);
    }
    let mut rep = run_parent(
        if c02 { "loom_log-C02" } else { "loom_log" },
        if c02 { "C02" } else { "C12" },
        if c02 { "c02" } else { "c12" },
        cfgs,
        &args,
        "loom DPOR over every interleaving of 2-3 threads x 1-2 appends through the real ConcurrentLogBuilder<File> (2 or 4 wait-list slots), with write and fdatasync interposed to observe file size and durable prefix; plus the same with the first or second fdatasync failing; one evaluation = one complete execution; distinct = (file order, per-call results, number of fdatasyncs)",
    );
    rep.bound = json!({"preemption_bounds": "1, 2, 3, then unbounded per configuration as far as its budget allows"});
    rep.finish(&args, "loom_log");
}
