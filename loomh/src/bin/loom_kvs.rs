//! C06 / C07 / C20 under loom: the whole real lsmtk::KeyValueStore (wait list, skiplist
//! memtable, log coalescing queues, tree, file manager) with 2-4 threads: client writers and
//! readers, one iteration of the flush loop, compaction loop iterations.
//!
//! File I/O inside an execution is real (tmpfs).  Each execution starts from a copy of a
//! template directory that the same binary built in a one-thread model.

use std::collections::BTreeMap;
use std::ops::Bound;
use std::path::{Path, PathBuf};
use std::sync::Arc;
use std::sync::Mutex as StdMutex;

use arrrg::CommandLine;
use loomh::{Limits, begin_execution, explore, finding, finish_child, outcome, record, run_parent};
use lsmtk::verif::{StepMode, set_step_mode};
use lsmtk::{KeyValueStore, LsmTree, LsmtkOptions, WriteBatch};
use sst::{Builder, Cursor};
use vcore::{Args, Value, json};

fn options(dir: &Path, extra: &Value) -> LsmtkOptions {
    let mut argv: Vec<String> = vec![
        "--path".into(),
        dir.to_string_lossy().to_string(),
        "--memtable-size-bytes".into(),
        "0".into(),
        "--sst-cache-bytes".into(),
        "0".into(),
    ];
    if let Some(o) = extra.as_object() {
        for (k, v) in o {
            argv.push(format!("--{k}"));
            argv.push(v.as_str().map(|s| s.to_string()).unwrap_or_else(|| v.to_string()));
        }
    }
    let refs: Vec<&str> = argv.iter().map(|s| s.as_str()).collect();
    LsmtkOptions::from_arguments_relaxed("loom", &refs).0
}

//////////////////////////////////////////// history ///////////////////////////////////////////////

#[derive(Clone, Debug)]
enum Call {
    Put(String, String),
    Del(String),
    Batch(Vec<(String, Option<String>)>),
    Get(String, Option<String>),
    Scan(Vec<(String, String)>),
}

#[derive(Clone, Debug)]
struct Event {
    call: Call,
    start: usize,
    end: usize,
    thread: usize,
}

type Hist = Arc<StdMutex<Vec<Event>>>;

fn apply_spec(map: &mut BTreeMap<String, String>, c: &Call) -> bool {
    match c {
        Call::Put(k, v) => {
            map.insert(k.clone(), v.clone());
            true
        }
        Call::Del(k) => {
            map.remove(k);
            true
        }
        Call::Batch(es) => {
            for (k, v) in es {
                match v {
                    Some(v) => {
                        map.insert(k.clone(), v.clone());
                    }
                    None => {
                        map.remove(k);
                    }
                }
            }
            true
        }
        Call::Get(k, v) => map.get(k) == v.as_ref(),
        Call::Scan(kvs) => {
            let have: Vec<(String, String)> = map.iter().map(|(k, v)| (k.clone(), v.clone())).collect();
            &have == kvs
        }
    }
}

/// Brute force: is there a total order of the calls, consistent with real time, under which the
/// sequential map specification returns what was observed?
fn linearizable(initial: &BTreeMap<String, String>, evs: &[Event]) -> bool {
    fn rec(
        evs: &[Event],
        used: &mut Vec<bool>,
        map: &mut BTreeMap<String, String>,
        placed: usize,
    ) -> bool {
        if placed == evs.len() {
            return true;
        }
        for i in 0..evs.len() {
            if used[i] {
                continue;
            }
            // real time: nothing unplaced may have ended before this one started
            if (0..evs.len()).any(|j| !used[j] && j != i && evs[j].end < evs[i].start) {
                continue;
            }
            let saved = map.clone();
            if apply_spec(map, &evs[i].call) {
                used[i] = true;
                if rec(evs, used, map, placed + 1) {
                    return true;
                }
                used[i] = false;
            }
            *map = saved;
        }
        false
    }
    let mut used = vec![false; evs.len()];
    let mut map = initial.clone();
    rec(evs, &mut used, &mut map, 0)
}

fn do_call(kvs: &KeyValueStore, t: usize, hist: &Hist, spec: &Value) {
    let op = spec[0].as_str().unwrap();
    let start = loomh::history_len();
    let call = match op {
        "put" => {
            let (k, v) = (spec[1].as_str().unwrap(), spec[2].as_str().unwrap());
            record(t, format!("put({k},{v}) call"));
            if let Err(e) = kvs.put(k.as_bytes(), v.as_bytes()) {
                finding("op-error:put", format!("{e}"));
            }
            record(t, format!("put({k},{v}) ret"));
            Call::Put(k.into(), v.into())
        }
        "del" => {
            let k = spec[1].as_str().unwrap();
            record(t, format!("del({k}) call"));
            if let Err(e) = kvs.del(k.as_bytes()) {
                finding("op-error:del", format!("{e}"));
            }
            record(t, format!("del({k}) ret"));
            Call::Del(k.into())
        }
        "batch" => {
            let mut wb = WriteBatch::with_capacity(2);
            let mut es = vec![];
            for e in spec[1].as_array().unwrap() {
                let k = e[0].as_str().unwrap();
                match e[1].as_str() {
                    Some(v) => {
                        wb.put(k.as_bytes(), v.as_bytes());
                        es.push((k.to_string(), Some(v.to_string())));
                    }
                    None => {
                        wb.del(k.as_bytes());
                        es.push((k.to_string(), None));
                    }
                }
            }
            record(t, format!("batch({es:?}) call"));
            if let Err(e) = kvs.write(wb) {
                finding("op-error:write", format!("{e}"));
            }
            record(t, "batch ret");
            Call::Batch(es)
        }
        "get" => {
            let k = spec[1].as_str().unwrap();
            record(t, format!("get({k}) call"));
            let mut tomb = false;
            let v = match kvs.load(k.as_bytes(), &mut tomb) {
                Ok(v) => v.map(|x| String::from_utf8_lossy(&x).to_string()),
                Err(e) => {
                    finding("op-error:load", format!("{e}"));
                    None
                }
            };
            record(t, format!("get({k}) -> {v:?}"));
            Call::Get(k.into(), v)
        }
        "scan" => {
            record(t, "scan call");
            let mut out = vec![];
            let ub: Bound<&[u8]> = Bound::Unbounded;
            match kvs.range_scan(&ub, &ub) {
                Err(e) => finding("op-error:range_scan", format!("{e}")),
                Ok(mut c) => {
                    let _ = c.seek_to_first();
                    loop {
                        if let Err(e) = c.next() {
                            finding("op-error:cursor-next", format!("{e}"));
                            break;
                        }
                        match c.key_value() {
                            None => break,
                            Some(kv) => out.push((
                                String::from_utf8_lossy(kv.key).to_string(),
                                String::from_utf8_lossy(kv.value.unwrap_or(b"<TOMBSTONE>")).to_string(),
                            )),
                        }
                        if out.len() > 16 {
                            finding("scan-does-not-terminate", "more than 16 entries");
                            break;
                        }
                    }
                }
            }
            record(t, format!("scan -> {out:?}"));
            Call::Scan(out)
        }
        // a batch the store refuses after it has joined the wait list (a key longer than
        // MAX_KEY_LEN): the call returns an error, and nobody queued behind it may be left asleep
        "badbatch" => {
            let k = vec![b'k'; sst::MAX_KEY_LEN + 1];
            let mut wb = WriteBatch::with_capacity(1);
            wb.put(&k, b"v");
            record(t, "batch(oversize key) call");
            if kvs.write(wb).is_ok() {
                finding("oversize-key-accepted", "a key longer than MAX_KEY_LEN was accepted".to_string());
            }
            record(t, "batch(oversize key) -> Err");
            return;
        }
        "flush" => {
            record(t, "flush-iteration call");
            set_step_mode(StepMode::StepNoWait);
            if let Err(e) = kvs.memtable_thread() {
                finding("op-error:flush", format!("{e}"));
            }
            set_step_mode(StepMode::Off);
            record(t, "flush-iteration ret");
            return;
        }
        "compact" => {
            record(t, "compaction-iteration call");
            set_step_mode(StepMode::StepNoWait);
            if let Err(e) = kvs.compaction_thread() {
                finding("op-error:compaction", format!("{e}"));
            }
            set_step_mode(StepMode::Off);
            record(t, "compaction-iteration ret");
            return;
        }
        _ => panic!("bad op {op}"),
    };
    let end = loomh::history_len();
    hist.lock().unwrap().push(Event { call, start, end, thread: t });
}

/// Sequentially apply template ops (on the calling thread).
fn build_state(kvs: &KeyValueStore, ops: &Value, initial: &mut BTreeMap<String, String>) {
    let hist: Hist = Arc::new(StdMutex::new(vec![]));
    for op in ops.as_array().map(|a| a.as_slice()).unwrap_or(&[]) {
        do_call(kvs, 0, &hist, op);
    }
    for e in hist.lock().unwrap().iter() {
        apply_spec(initial, &e.call);
    }
}

fn rw_model(cfg: Value, template: PathBuf, work: PathBuf) -> impl Fn() + Sync + Send + Clone + 'static {
    move || {
        let n = begin_execution();
        let dir = work.join(format!("x{}", n % 4));
        let _ = std::fs::remove_dir_all(&dir);
        vcore::copy_dir(&template, &dir).expect("copy template");
        skipfree::verif::set_fixed_height(cfg["height"].as_u64().unwrap_or(1) as usize);
        sync42::verif::set_wait_list_slots(cfg["slots"].as_u64().unwrap_or(4) as usize);
        let kvs = match KeyValueStore::open(options(&dir, &cfg["options"])) {
            Ok(k) => Arc::new(k),
            Err(e) => {
                finding("open-error", format!("{e}"));
                return;
            }
        };
        let mut initial = BTreeMap::new();
        for (k, v) in cfg["initial"].as_object().cloned().unwrap_or_default() {
            initial.insert(k, v.as_str().unwrap().to_string());
        }
        // pre-steps on the main thread inside this execution (e.g. writes that stay in the memtable)
        build_state(&kvs, &cfg["pre"], &mut initial);
        let hist: Hist = Arc::new(StdMutex::new(vec![]));
        let mut hs = vec![];
        for (t, prog) in cfg["threads"].as_array().unwrap().iter().cloned().enumerate() {
            let kvs = Arc::clone(&kvs);
            let hist = Arc::clone(&hist);
            hs.push(loom::thread::spawn(move || {
                for op in prog.as_array().unwrap() {
                    do_call(&kvs, t + 1, &hist, op);
                }
            }));
        }
        for h in hs {
            h.join().unwrap();
        }
        let evs = hist.lock().unwrap().clone();
        // batch atomicity of snapshots: a scan shows all or none of a batch's keys (when the keys
        // are written by nothing else in this harness)
        if let Some(bk) = cfg["batch_keys"].as_array() {
            let bk: Vec<String> = bk.iter().map(|x| x.as_str().unwrap().to_string()).collect();
            let bv = cfg["batch_value"].as_str().unwrap_or("");
            for e in evs.iter() {
                if let Call::Scan(kvs_seen) = &e.call {
                    let seen = bk
                        .iter()
                        .filter(|k| kvs_seen.iter().any(|(kk, vv)| kk == *k && vv == bv))
                        .count();
                    if seen != 0 && seen != bk.len() {
                        finding(
                            "batch-partially-visible-to-scan",
                            format!("a scan returned {kvs_seen:?}: {seen} of the {} keys of one batch", bk.len()),
                        );
                    }
                }
            }
        }
        if !linearizable(&initial, &evs) {
            let kinds: Vec<&str> = evs
                .iter()
                .map(|e| match e.call {
                    Call::Put(..) => "put",
                    Call::Del(..) => "del",
                    Call::Batch(..) => "batch",
                    Call::Get(..) => "get",
                    Call::Scan(..) => "scan",
                })
                .collect();
            let mut k: Vec<&str> = kinds.clone();
            k.sort();
            k.dedup();
            finding(
                format!("not-linearizable:{}", k.join("+")),
                format!("no total order of the calls consistent with real time explains the results: {evs:?}"),
            );
        }
        // after everything: final reads equal the unique final state when writers do not conflict
        let obs: Vec<String> = evs
            .iter()
            .filter_map(|e| match &e.call {
                Call::Get(k, v) => Some(format!("{}:{k}={v:?}", e.thread)),
                Call::Scan(s) => Some(format!("{}:{s:?}", e.thread)),
                _ => None,
            })
            .collect();
        outcome(&obs);
        drop(kvs);
    }
}

/// C07: the main thread opens a scan, then other threads write, run a flush iteration and a
/// compaction iteration while the main thread walks the cursor forward and backward.  The cursor
/// must show exactly the state at open time, every call must succeed, and no released skiplist
/// node may be dereferenced (allocation registry on).
fn cursor_model(cfg: Value, template: PathBuf, work: PathBuf) -> impl Fn() + Sync + Send + Clone + 'static {
    move || {
        let n = begin_execution();
        let dir = work.join(format!("x{}", n % 4));
        let _ = std::fs::remove_dir_all(&dir);
        vcore::copy_dir(&template, &dir).expect("copy template");
        skipfree::verif::set_fixed_height(1);
        skipfree::verif::set_registry(true);
        sync42::verif::set_wait_list_slots(4);
        let kvs = match KeyValueStore::open(options(&dir, &cfg["options"])) {
            Ok(k) => Arc::new(k),
            Err(e) => {
                finding("open-error", format!("{e}"));
                return;
            }
        };
        let mut initial = BTreeMap::new();
        for (k, v) in cfg["initial"].as_object().cloned().unwrap_or_default() {
            initial.insert(k, v.as_str().unwrap().to_string());
        }
        build_state(&kvs, &cfg["pre"], &mut initial);
        let snapshot: Vec<(String, String)> = initial.iter().map(|(k, v)| (k.clone(), v.clone())).collect();
        let ub: Bound<&[u8]> = Bound::Unbounded;
        let mut cursor = match kvs.range_scan(&ub, &ub) {
            Ok(c) => c,
            Err(e) => {
                finding("op-error:range_scan", format!("{e}"));
                return;
            }
        };
        record(0, format!("scan opened over {snapshot:?}"));
        let hist: Hist = Arc::new(StdMutex::new(vec![]));
        let mut hs = vec![];
        for (t, prog) in cfg["threads"].as_array().unwrap().iter().cloned().enumerate() {
            let kvs = Arc::clone(&kvs);
            let hist = Arc::clone(&hist);
            hs.push(loom::thread::spawn(move || {
                for op in prog.as_array().unwrap() {
                    do_call(&kvs, t + 1, &hist, op);
                }
            }));
        }
        // walk forward to the end, then backward to the start
        let mut seen_fwd = vec![];
        let walk = vcore::catch(std::panic::AssertUnwindSafe(|| -> Result<(Vec<(String, String)>, Vec<(String, String)>), String> {
            let mut fwd = vec![];
            cursor.seek_to_first().map_err(|e| e.to_string())?;
            loop {
                cursor.next().map_err(|e| e.to_string())?;
                match cursor.key_value() {
                    None => break,
                    Some(kv) => fwd.push((
                        String::from_utf8_lossy(kv.key).to_string(),
                        String::from_utf8_lossy(kv.value.unwrap_or(b"<TOMBSTONE>")).to_string(),
                    )),
                }
                record(0, format!("next -> {:?}", fwd.last()));
                if fwd.len() > 16 {
                    return Err("forward walk does not terminate".into());
                }
            }
            let mut bwd = vec![];
            loop {
                cursor.prev().map_err(|e| e.to_string())?;
                match cursor.key_value() {
                    None => break,
                    Some(kv) => bwd.push((
                        String::from_utf8_lossy(kv.key).to_string(),
                        String::from_utf8_lossy(kv.value.unwrap_or(b"<TOMBSTONE>")).to_string(),
                    )),
                }
                record(0, format!("prev -> {:?}", bwd.last()));
                if bwd.len() > 16 {
                    return Err("backward walk does not terminate".into());
                }
            }
            Ok((fwd, bwd))
        }));
        match walk {
            Err(p) => {
                let uaf = p.contains("released node");
                finding(
                    if uaf { "cursor-use-after-free".to_string() } else { format!("cursor-panic:{}", loomh::norm(&p)) },
                    format!("walking the kept cursor panicked: {p}"),
                );
            }
            Ok(Err(e)) => finding(format!("cursor-error:{}", loomh::norm(&e)), format!("a cursor call failed: {e}")),
            Ok(Ok((fwd, mut bwd))) => {
                bwd.reverse();
                if fwd != snapshot {
                    finding(
                        "cursor-forward-walk-differs-from-snapshot",
                        format!("forward walk {fwd:?}, state at open {snapshot:?}"),
                    );
                }
                if bwd != snapshot {
                    finding(
                        "cursor-backward-walk-differs-from-snapshot",
                        format!("backward walk {bwd:?}, state at open {snapshot:?}"),
                    );
                }
                seen_fwd = fwd;
            }
        }
        drop(cursor);
        for h in hs {
            h.join().unwrap();
        }
        let shape: Vec<usize> = kvs.verif_tree().verif_levels().iter().map(|l| l.len()).collect();
        // how the cursor calls interleaved with the other threads' steps (shows that the
        // schedules really differ although the cursor's output must not)
        let h = loomh::history();
        let interleaving: Vec<bool> = h.iter().map(|l| l.starts_with("T0:")).collect();
        outcome(&(seen_fwd, shape, interleaving));
        drop(kvs);
        skipfree::verif::set_registry(false);
    }
}

/// C07, second harness: the scan is opened by a reader thread WHILE a writer is in flight and the
/// flush loop rolls the memtable over; the reader walks the cursor, lets the others run, and walks
/// it again.  Both walks must be equal (a stable snapshot) and must equal the state before or
/// after the in-flight write as a whole.
fn reread_model(cfg: Value, template: PathBuf, work: PathBuf) -> impl Fn() + Sync + Send + Clone + 'static {
    move || {
        let n = begin_execution();
        let dir = work.join(format!("x{}", n % 4));
        let _ = std::fs::remove_dir_all(&dir);
        vcore::copy_dir(&template, &dir).expect("copy template");
        skipfree::verif::set_fixed_height(1);
        sync42::verif::set_wait_list_slots(4);
        let kvs = match KeyValueStore::open(options(&dir, &cfg["options"])) {
            Ok(k) => Arc::new(k),
            Err(e) => {
                finding("open-error", format!("{e}"));
                return;
            }
        };
        let mut initial = BTreeMap::new();
        for (k, v) in cfg["initial"].as_object().cloned().unwrap_or_default() {
            initial.insert(k, v.as_str().unwrap().to_string());
        }
        build_state(&kvs, &cfg["pre"], &mut initial);
        let hist: Hist = Arc::new(StdMutex::new(vec![]));
        let mut hs = vec![];
        for (t, prog) in cfg["threads"].as_array().unwrap().iter().cloned().enumerate() {
            let kvs = Arc::clone(&kvs);
            let hist = Arc::clone(&hist);
            hs.push(loom::thread::spawn(move || {
                for op in prog.as_array().unwrap() {
                    do_call(&kvs, t + 1, &hist, op);
                }
            }));
        }
        let walks: Arc<StdMutex<Vec<Vec<(String, String)>>>> = Arc::new(StdMutex::new(vec![]));
        let reader = {
            let kvs = Arc::clone(&kvs);
            let walks = Arc::clone(&walks);
            loom::thread::spawn(move || {
                let ub: Bound<&[u8]> = Bound::Unbounded;
                let mut cursor = match kvs.range_scan(&ub, &ub) {
                    Ok(c) => c,
                    Err(e) => {
                        finding("op-error:range_scan", format!("{e}"));
                        return;
                    }
                };
                record(9, "scan opened");
                for pass in 0..2 {
                    let mut out = vec![];
                    if let Err(e) = cursor.seek_to_first() {
                        finding("cursor-error", format!("{e}"));
                        return;
                    }
                    loop {
                        if let Err(e) = cursor.next() {
                            finding("cursor-error", format!("{e}"));
                            return;
                        }
                        match cursor.key_value() {
                            None => break,
                            Some(kv) => out.push((
                                String::from_utf8_lossy(kv.key).to_string(),
                                String::from_utf8_lossy(kv.value.unwrap_or(b"<TOMBSTONE>")).to_string(),
                            )),
                        }
                        if out.len() > 16 {
                            finding("scan-does-not-terminate", "more than 16 entries");
                            return;
                        }
                    }
                    record(9, format!("walk {pass} -> {out:?}"));
                    walks.lock().unwrap().push(out);
                    if pass == 0 {
                        loom::thread::yield_now();
                    }
                }
            })
        };
        reader.join().unwrap();
        for h in hs {
            h.join().unwrap();
        }
        let walks = walks.lock().unwrap().clone();
        if walks.len() == 2 {
            if walks[0] != walks[1] {
                finding(
                    "cursor-reread-differs",
                    format!("the same cursor returned {:?} and then, re-read from the start, {:?}", walks[0], walks[1]),
                );
            }
            // each walk is the state before or after the whole in-flight write
            let before: Vec<(String, String)> = initial.iter().map(|(k, v)| (k.clone(), v.clone())).collect();
            let mut after_map = initial.clone();
            for e in hist.lock().unwrap().iter() {
                apply_spec(&mut after_map, &e.call);
            }
            let after: Vec<(String, String)> = after_map.iter().map(|(k, v)| (k.clone(), v.clone())).collect();
            for w in walks.iter() {
                if *w != before && *w != after {
                    finding(
                        "cursor-snapshot-is-neither-before-nor-after-the-write",
                        format!("walk {w:?}; before {before:?}; after {after:?}"),
                    );
                }
            }
        }
        outcome(&walks);
        drop(kvs);
    }
}

/// C20: a writer whose flush must wait for compaction; the flush thread and compaction
/// threads run their real loops and are released by a stop request once the writer and the flush
/// are through.  loom reports a deadlock when every thread is parked.
fn stall_model(cfg: Value, template: PathBuf, work: PathBuf) -> impl Fn() + Sync + Send + Clone + 'static {
    move || {
        let n = begin_execution();
        let dir = work.join(format!("x{}", n % 4));
        let _ = std::fs::remove_dir_all(&dir);
        vcore::copy_dir(&template, &dir).expect("copy template");
        skipfree::verif::set_fixed_height(1);
        sync42::verif::set_wait_list_slots(4);
        lsmtk::verif::request_stop(false);
        let kvs = match KeyValueStore::open(options(&dir, &cfg["options"])) {
            Ok(k) => Arc::new(k),
            Err(e) => {
                finding("open-error", format!("{e}"));
                return;
            }
        };
        let compactors = cfg["compactors"].as_u64().unwrap_or(1) as usize;
        let mut chs = vec![];
        for c in 0..compactors {
            let kvs = Arc::clone(&kvs);
            chs.push(loom::thread::spawn(move || {
                record(10 + c, "compaction thread start");
                set_step_mode(StepMode::Off);
                if let Err(e) = kvs.compaction_thread() {
                    finding("op-error:compaction", format!("{e}"));
                }
                record(10 + c, "compaction thread exit");
            }));
        }
        let flusher = {
            let kvs = Arc::clone(&kvs);
            let flushes = cfg["flushes"].as_u64().unwrap_or(1);
            loom::thread::spawn(move || {
                for _ in 0..flushes {
                    record(20, "flush iteration start");
                    set_step_mode(StepMode::StepWait);
                    if let Err(e) = kvs.memtable_thread() {
                        finding("op-error:flush", format!("{e}"));
                    }
                    record(20, "flush iteration done");
                }
                set_step_mode(StepMode::Off);
            })
        };
        let writer = {
            let kvs = Arc::clone(&kvs);
            let puts = cfg["puts"].as_u64().unwrap_or(1);
            loom::thread::spawn(move || {
                for i in 0..puts {
                    record(1, format!("put #{i} call"));
                    if let Err(e) = kvs.put(b"a", format!("w{i}").as_bytes()) {
                        finding("op-error:put", format!("{e}"));
                    }
                    record(1, format!("put #{i} ret"));
                }
            })
        };
        writer.join().unwrap();
        flusher.join().unwrap();
        // every write and every flush came back: release the compaction threads
        lsmtk::verif::request_stop(true);
        kvs.verif_wake_all();
        for h in chs {
            h.join().unwrap();
        }
        let levels = kvs.verif_tree().verif_levels();
        let shape: Vec<usize> = levels.iter().map(|l| l.len()).collect();
        outcome(&shape);
        drop(kvs);
    }
}

/// C20 on a bare tree: the compaction threads start on an EMPTY tree (so they may already be
/// asleep for lack of work) and one thread ingests external files until level 0 reaches the stall
/// threshold and beyond.  Every ingest must return: the event that creates work has to wake the
/// sleepers.  loom reports the execution in which everybody is parked.
fn treestall_model(cfg: Value, ext: PathBuf, work: PathBuf) -> impl Fn() + Sync + Send + Clone + 'static {
    move || {
        let n = begin_execution();
        let dir = work.join(format!("x{}", n % 4));
        let _ = std::fs::remove_dir_all(&dir);
        sync42::verif::set_wait_list_slots(4);
        lsmtk::verif::request_stop(false);
        let tree = match LsmTree::open(options(&dir, &cfg["options"])) {
            Ok(t) => Arc::new(t),
            Err(e) => {
                finding("open-error", format!("{e}"));
                return;
            }
        };
        let compactors = cfg["compactors"].as_u64().unwrap_or(1) as usize;
        let mut chs = vec![];
        for c in 0..compactors {
            let tree = Arc::clone(&tree);
            chs.push(loom::thread::spawn(move || {
                record(10 + c, "compaction thread start");
                set_step_mode(StepMode::Off);
                if let Err(e) = tree.compaction_thread() {
                    finding("op-error:compaction", format!("{e}"));
                }
                record(10 + c, "compaction thread exit");
            }));
        }
        let ingester = {
            let tree = Arc::clone(&tree);
            let files = cfg["files"].as_u64().unwrap_or(3);
            let ext = ext.clone();
            loom::thread::spawn(move || {
                for i in 0..files {
                    record(1, format!("ingest #{i} call"));
                    if let Err(e) = tree.ingest(ext.join(format!("{i}.sst"))) {
                        finding("op-error:ingest", format!("{e}"));
                    }
                    record(1, format!("ingest #{i} ret"));
                }
            })
        };
        ingester.join().unwrap();
        lsmtk::verif::request_stop(true);
        tree.verif_wake_all();
        for h in chs {
            h.join().unwrap();
        }
        let shape: Vec<usize> = tree.verif_levels().iter().map(|l| l.len()).collect();
        outcome(&shape);
        drop(tree);
    }
}

/// C08 under concurrency: a MERGING compaction (two level-0 files whose timestamps interleave, so
/// neither may sink alone) runs while another thread ingests further files.  Afterwards every
/// file the manifest lists must still be in sst/: the tree is closed and reopened (which fails
/// when a listed file is gone) and every key is read back.
fn treemerge_model(cfg: Value, template: PathBuf, ext: PathBuf, work: PathBuf) -> impl Fn() + Sync + Send + Clone + 'static {
    move || {
        let n = begin_execution();
        let dir = work.join(format!("x{}", n % 4));
        let _ = std::fs::remove_dir_all(&dir);
        vcore::copy_dir(&template, &dir).expect("copy template");
        sync42::verif::set_wait_list_slots(4);
        lsmtk::verif::request_stop(false);
        let tree = match LsmTree::open(options(&dir, &cfg["options"])) {
            Ok(t) => Arc::new(t),
            Err(e) => {
                finding("open-error", format!("{e}"));
                return;
            }
        };
        let steps = cfg["compaction_steps"].as_u64().unwrap_or(1);
        let compactor = {
            let tree = Arc::clone(&tree);
            loom::thread::spawn(move || {
                for i in 0..steps {
                    record(10, format!("compaction step #{i} start"));
                    set_step_mode(StepMode::StepNoWait);
                    if let Err(e) = tree.compaction_thread() {
                        finding("op-error:compaction", format!("{e}"));
                    }
                    record(10, format!("compaction step #{i} done"));
                }
                set_step_mode(StepMode::Off);
            })
        };
        let first = cfg["preloaded"].as_u64().unwrap_or(2);
        let files = cfg["files"].as_u64().unwrap_or(3);
        let ingester = {
            let tree = Arc::clone(&tree);
            let ext = ext.clone();
            loom::thread::spawn(move || {
                for i in first..files {
                    record(1, format!("ingest #{i} call"));
                    if let Err(e) = tree.ingest(ext.join(format!("{i}.sst"))) {
                        finding("op-error:ingest", format!("{e}"));
                    }
                    record(1, format!("ingest #{i} ret"));
                }
            })
        };
        ingester.join().unwrap();
        compactor.join().unwrap();
        let shape: Vec<usize> = tree.verif_levels().iter().map(|l| l.len()).collect();
        // what the manifest lists must be there: live tree first ...
        for m in tree.verif_levels().iter().flatten() {
            let p = lsmtk::SST_FILE(&dir, setsum::Setsum::from_digest(m.setsum));
            if !p.exists() {
                finding("listed-sst-missing", format!("{} is in the live tree but not in sst/", p.display()));
            }
        }
        let live: Vec<Option<Vec<u8>>> = [b"a".as_slice(), b"b", b"c"].iter().map(|k| tree.get(k).unwrap_or(None)).collect();
        drop(tree);
        // ... then through the manifest: reopen and read back
        match LsmTree::open(options(&dir, &cfg["options"])) {
            Err(e) => finding("reopen-failed", format!("after the compaction and the ingests returned, reopening fails: {e}")),
            Ok(t) => {
                let want: Vec<Option<Vec<u8>>> = vec![
                    Some(format!("v{}", files - 1).into_bytes()),
                    if files > first { Some(format!("w{}", files - 1).into_bytes()) } else { None },
                    Some(format!("c{}", first - 1).into_bytes()),
                ];
                for (i, k) in [b"a".as_slice(), b"b", b"c"].iter().enumerate() {
                    match t.get(k) {
                        Err(e) => finding("read-error-after-reopen", format!("get({}) failed: {e}", vcore::esc(k))),
                        Ok(v) => {
                            if v != want[i] {
                                finding("acknowledged-ingest-lost", format!("get({}) after reopen = {:?}, expected {:?}", vcore::esc(k), v.map(|x| vcore::esc(&x)), want[i].as_ref().map(|x| vcore::esc(x))));
                            }
                            if live[i] != want[i] {
                                finding("acknowledged-ingest-invisible", format!("get({}) before closing = {:?}, expected {:?}", vcore::esc(k), live[i].as_ref().map(|x| vcore::esc(x)), want[i].as_ref().map(|x| vcore::esc(x))));
                            }
                        }
                    }
                }
            }
        }
        outcome(&shape);
    }
}

/// External files for the tree harness: overlapping single-key files with growing timestamps.
fn build_external_files(dir: &Path, files: u64) {
    std::fs::create_dir_all(dir).expect("ext dir");
    for i in 0..files {
        let p = dir.join(format!("{i}.sst"));
        let mut b = sst::SstBuilder::new(sst::SstOptions::default(), &p).expect("ext builder");
        b.put(b"a", 100 + i, format!("v{i}").as_bytes()).expect("ext put");
        if i < 2 {
            // the first two files straddle each other in time ([1+i, 100+i]): neither can sink
            // past the other, only a merge moves them
            b.put(b"c", 1 + i, format!("c{i}").as_bytes()).expect("ext put");
        } else {
            b.put(b"b", 100 + i, format!("w{i}").as_bytes()).expect("ext put");
        }
        b.seal().expect("ext seal");
    }
}

fn configs(prop: &str, thorough: bool) -> Vec<Value> {
    let budget = if thorough { 600 } else { 12 };
    let lim = || json!({"bounds": [1, 2, 3, null], "max_branches": 2000000, "budget_s": budget});
    let mut v = vec![];
    match prop {
        "C06" => {
            for h in [1u64, 2] {
                // H-a: batch writer || scanner
                v.push(json!({"harness": "rw", "name": format!("a-batch-vs-scan-h{h}"), "height": h, "template": [],
                    "threads": [[["batch", [["a", "1"], ["b", "1"]]]], [["scan"]]],
                    "batch_keys": ["a", "b"], "batch_value": "1", "limits": lim()}));
                // H-c: batch writer || two point reads (b then a)
                v.push(json!({"harness": "rw", "name": format!("c-batch-vs-gets-h{h}"), "height": h, "template": [],
                    "threads": [[["batch", [["a", "1"], ["b", "1"]]]], [["get", "b"], ["get", "a"]]], "limits": lim()}));
            }
            // H-b: two writers of one key || reader reading twice
            v.push(json!({"harness": "rw", "name": "b-two-puts-vs-gets", "height": 1, "template": [],
                "threads": [[["put", "a", "1"]], [["put", "a", "2"]], [["get", "a"], ["get", "a"]]], "limits": lim()}));
            // a single put || a two-key batch || a scan: the order in which two writers enter the
            // wait list must be the order of their sequence numbers, or the faster one publishes
            // the slower one's half-inserted batch
            v.push(json!({"harness": "rw", "name": "h-put-vs-batch-vs-scan", "height": 1, "template": [],
                "threads": [[["put", "x", "1"]], [["batch", [["a", "1"], ["b", "1"]]]], [["scan"]]],
                "batch_keys": ["a", "b"], "batch_value": "1", "limits": lim()}));
            // put then delete by another thread || reader
            v.push(json!({"harness": "rw", "name": "b2-put-del-vs-get-scan", "height": 1, "template": [["put", "a", "0"]], "initial": {"a": "0"},
                "threads": [[["del", "a"]], [["put", "a", "2"]], [["get", "a"], ["scan"]]], "limits": lim()}));
            // H-d: writer || flush iteration || reader (memtable rollover instant)
            v.push(json!({"harness": "rw", "name": "d-put-vs-flush-vs-get-scan", "height": 1, "template": [],
                "pre": [["put", "b", "0"]], "initial": {},
                "threads": [[["put", "a", "1"]], [["flush"]], [["get", "a"], ["scan"]]], "limits": lim()}));
            // H-g: a write that requests the rollover || the flush iteration that performs it ||
            // a two-key batch that lands in the new memtable || a scan (the rollover instant)
            v.push(json!({"harness": "rw", "name": "g-rollover-vs-batch-vs-scan", "height": 1, "template": [],
                "pre": [["put", "x", "0"]],
                "threads": [[["put", "y", "1"]], [["flush"]], [["batch", [["a", "1"], ["b", "1"]]]], [["scan"]]],
                "batch_keys": ["a", "b"], "batch_value": "1", "limits": lim()}));
            // H-e: reader || compaction iteration on a two-file template (version installation)
            v.push(json!({"harness": "rw", "name": "e-get-scan-vs-compaction", "height": 1,
                "template": [["put", "a", "1"], ["flush"], ["put", "a", "2"], ["put", "b", "2"], ["flush"]],
                "initial": {"a": "2", "b": "2"}, "options": {"l0-mandatory-compaction-threshold-files": "1"},
                "threads": [[["compact"]], [["get", "a"], ["scan"]]], "limits": lim()}));
            // H-f: two writers || flush iteration (wait-list ordering across rollover)
            v.push(json!({"harness": "rw", "name": "f-two-writers-vs-flush", "height": 1, "template": [],
                "pre": [["put", "b", "0"]],
                "threads": [[["put", "a", "1"], ["get", "a"]], [["put", "a", "2"], ["get", "a"]], [["flush"]]], "limits": lim()}));
        }
        "C07" => {
            // snapshot spans an SST and the memtable; a writer, a flush and a compaction run
            // while the cursor walks
            v.push(json!({"harness": "cursor", "name": "cursor-vs-writer",
                "template": [["put", "a", "1"], ["put", "b", "1"], ["flush"]],
                "pre": [["put", "ab", "2"]], "initial": {"a": "1", "b": "1"},
                "options": {"l0-mandatory-compaction-threshold-files": "1"},
                "threads": [[["put", "a", "9"], ["del", "b"]]], "limits": lim()}));
            v.push(json!({"harness": "cursor", "name": "cursor-vs-writer-and-flush",
                "template": [["put", "a", "1"], ["put", "b", "1"], ["flush"]],
                "pre": [["put", "ab", "2"]], "initial": {"a": "1", "b": "1"},
                "options": {"l0-mandatory-compaction-threshold-files": "1"},
                "threads": [[["put", "a", "9"]], [["flush"]]], "limits": lim()}));
            v.push(json!({"harness": "cursor", "name": "cursor-vs-flush-and-compaction",
                "template": [["put", "a", "1"], ["put", "b", "1"], ["flush"], ["put", "a", "3"], ["flush"]],
                "pre": [["put", "ab", "2"]], "initial": {"a": "3", "b": "1"},
                "options": {"l0-mandatory-compaction-threshold-files": "1"},
                "threads": [[["flush"]], [["compact"], ["compact"]]], "limits": lim()}));
            // the scan is opened while a two-key batch is in flight and the memtable rolls over
            v.push(json!({"harness": "reread", "name": "reread-batch-in-flight-vs-rollover",
                "template": [], "pre": [["put", "x", "0"]], "initial": {},
                "threads": [[["batch", [["a", "1"], ["b", "1"]]]], [["flush"]]], "limits": lim()}));
            v.push(json!({"harness": "cursor", "name": "cursor-vs-compaction",
                "template": [["put", "a", "1"], ["put", "b", "1"], ["flush"], ["del", "a"], ["flush"]],
                "initial": {"b": "1"},
                "options": {"l0-mandatory-compaction-threshold-files": "1"},
                "threads": [[["compact"], ["compact"]]], "limits": lim()}));
        }
        "C08" => {
            // a merging compaction of two level-0 files || one or two ingests
            for (name, files, steps) in [("merge-vs-ingest", 3u64, 1u64), ("merge-vs-two-ingests", 4, 1), ("two-steps-vs-ingest", 3, 2)] {
                v.push(json!({"harness": "treemerge", "name": name, "template": [],
                    "options": {"l0-mandatory-compaction-threshold-files": "2", "l0-write-stall-threshold-files": "12"},
                    "preloaded": 2, "files": files, "compaction_steps": steps, "limits": lim()}));
            }
        }
        "C20" => {
            // L0 at the stall threshold: the flush of the writer's memtable has to wait for a
            // compaction; compaction threads loop for real
            for compactors in [1u64, 2] {
                v.push(json!({"harness": "stall", "name": format!("stall2-k{compactors}"),
                    "template": [["put", "a", "1"], ["flush"], ["put", "a", "2"], ["flush"]],
                    "options": {"l0-write-stall-threshold-files": "2", "l0-mandatory-compaction-threshold-files": "2"},
                    "compactors": compactors, "puts": 1, "flushes": 1, "limits": lim()}));
            }
            v.push(json!({"harness": "stall", "name": "stall2-two-puts",
                "template": [["put", "a", "1"], ["flush"], ["put", "b", "2"], ["flush"]],
                "options": {"l0-write-stall-threshold-files": "2", "l0-mandatory-compaction-threshold-files": "1"},
                "compactors": 1, "puts": 2, "flushes": 1, "limits": lim()}));
            // compaction threads idle on an empty tree, then ingests up to and past the stall
            // threshold (equal to, and below, the mandatory threshold)
            for (name, stall, mand, k) in [("tree-idle-stall2-mand2-k1", "2", "2", 1u64), ("tree-idle-stall2-mand4-k1", "2", "4", 1), ("tree-idle-stall2-mand2-k2", "2", "2", 2)] {
                v.push(json!({"harness": "treestall", "name": name, "template": [],
                    "options": {"l0-write-stall-threshold-files": stall, "l0-mandatory-compaction-threshold-files": mand},
                    "compactors": k, "files": 3, "limits": lim()}));
            }
            // a refused write against writers queued behind it (the wait-list hand-over on the
            // error path, down to the condition variable)
            v.push(json!({"harness": "rw", "name": "refused-write-vs-put", "height": 1, "template": [],
                "threads": [[["badbatch"]], [["put", "a", "1"], ["get", "a"]]], "limits": lim()}));
            v.push(json!({"harness": "rw", "name": "refused-write-vs-two-puts", "height": 1, "template": [],
                "threads": [[["badbatch"]], [["put", "a", "1"]], [["put", "b", "1"]]], "limits": lim()}));
            v.push(json!({"harness": "stall", "name": "nostall-empty",
                "template": [], "options": {"l0-write-stall-threshold-files": "2", "l0-mandatory-compaction-threshold-files": "1"},
                "compactors": 1, "puts": 1, "flushes": 1, "limits": lim()}));
        }
        _ => panic!("unknown property"),
    }
    v
}

fn run_child(cfg: &Value) -> Value {
    let limits = Limits::from_json(&cfg["limits"]);
    let scratch = vcore::Scratch::new("loomkvs");
    let template = scratch.sub("template");
    // build the template in a one-thread model (loom types only exist inside a model)
    {
        let cfg = cfg.clone();
        let template = template.clone();
        let done = Arc::new(StdMutex::new(false));
        let d2 = Arc::clone(&done);
        loom::model(move || {
            let mut d = d2.lock().unwrap();
            if *d {
                return;
            }
            *d = true;
            skipfree::verif::set_fixed_height(1);
            if cfg["harness"] == "treemerge" {
                let n = cfg["files"].as_u64().unwrap_or(3);
                let ext = template.with_extension("ext");
                build_external_files(&ext, n);
                let t = LsmTree::open(options(&template, &cfg["options"])).expect("template tree");
                for i in 0..cfg["preloaded"].as_u64().unwrap_or(2) {
                    t.ingest(ext.join(format!("{i}.sst"))).expect("template ingest");
                }
                drop(t);
                return;
            }
            if cfg["harness"] == "treestall" {
                // (loom types only exist inside a model: the external files are built here too)
                build_external_files(&template.with_extension("ext"), cfg["files"].as_u64().unwrap_or(3));
                return;
            }
            let kvs = KeyValueStore::open(options(&template, &cfg["options"])).expect("template open");
            let mut init = BTreeMap::new();
            build_state(&kvs, &cfg["template"], &mut init);
            drop(kvs);
        });
    }
    // forget what building the template recorded
    loomh::EXECS.store(0, std::sync::atomic::Ordering::Relaxed);
    let work = scratch.sub("work");
    std::fs::create_dir_all(&work).unwrap();
    let v = match cfg["harness"].as_str().unwrap() {
        "rw" => explore(cfg, &limits, rw_model(cfg.clone(), template, work)),
        "stall" => explore(cfg, &limits, stall_model(cfg.clone(), template, work)),
        "treemerge" => {
            let ext = template.with_extension("ext");
            explore(cfg, &limits, treemerge_model(cfg.clone(), template, ext, work))
        }
        "treestall" => {
            let ext = template.with_extension("ext");
            explore(cfg, &limits, treestall_model(cfg.clone(), ext, work))
        }
        "cursor" => explore(cfg, &limits, cursor_model(cfg.clone(), template, work)),
        "reread" => explore(cfg, &limits, reread_model(cfg.clone(), template, work)),
        h => panic!("unknown harness {h}"),
    };
    drop(scratch);
    v
}

fn main() {
    let args = Args::parse();
    vcore::quiet_panics();
    if let Some(c) = args.get("child") {
        let cfg: Value = serde_json::from_str(c).expect("child cfg");
        let v = run_child(&cfg);
        finish_child(&args, &v);
        return;
    }
    if let Some(rf) = args.replay_case() {
        let v = run_child(&rf["case"]["cfg"]);
        loomh::replay_exit(&v, rf["signature"].as_str().unwrap_or(""));
    }
    let prop = args.get("prop").expect("--prop C06|C07|C20").to_string();
    let mut rep = run_parent(
        &format!("loom_kvs-{prop}"),
        &prop,
        &prop.to_lowercase(),
        configs(&prop, args.tier_thorough()),
        &args,
        "loom DPOR over every interleaving of client threads (put / del / two-key batch / point reads / full scan), one iteration of the flush loop and compaction loop iterations on the whole real KeyValueStore opened on tmpfs; the recorded invocation/response history of every execution is checked by brute force for linearizability against a sequential map (a scan is one atomic read of all keys) and for batch atomicity of scans; for C20 the real loops run until a stop request and loom's deadlock detector is the oracle; one evaluation = one complete execution",
    );
    rep.bound = json!({"preemption_bounds": "1, 2, 3, then unbounded per configuration as far as its budget allows (notes.configurations[].completed_bound)", "keys": ["a", "b"], "memtable_size_bytes": 0});
    rep.assumptions = vec![
        "file system calls inside an execution are real and not scheduling points".into(),
        "std Arc counts, biometrics counters and the relaxed memtable size counter are not modelled".into(),
    ];
    rep.finish(&args, "loom_kvs");
}
