//! C17 under loom: the real skipfree::SkipList (MAX_HEIGHT = 3) and listfree::List with
//! concurrent inserters and a reader; every interleaving of the pointer loads/stores/CASes.

use std::sync::Arc;
use std::sync::atomic::{AtomicBool, Ordering};

use loomh::{Limits, begin_execution, explore, finding, finish_child, outcome, record, run_parent};
use vcore::{Args, Value, json};


fn u64s(v: &Value) -> Vec<u64> {
    v.as_array()
        .map(|a| a.iter().map(|x| x.as_u64().unwrap()).collect())
        .unwrap_or_default()
}

fn skiplist_model<const H: usize>(cfg: Value) -> impl Fn() + Sync + Send + Clone + 'static {
    move || {
        begin_execution();
        let initial = u64s(&cfg["initial"]);
        let inserters: Vec<Vec<u64>> = cfg["inserters"]
            .as_array()
            .unwrap()
            .iter()
            .map(u64s)
            .collect();
        let heights: Vec<Vec<usize>> = cfg["heights"]
            .as_array()
            .unwrap()
            .iter()
            .map(|h| u64s(h).into_iter().map(|x| x as usize).collect())
            .collect();
        let reader = cfg["reader"]["kind"].as_str().unwrap().to_string();
        let rarg = cfg["reader"]["arg"].as_u64().unwrap_or(0);
        let sl = Arc::new(skipfree::SkipList::<u64, u64, H>::default());
        let init_heights: Vec<usize> = (0..initial.len()).map(|i| 1 + (i % H)).collect();
        skipfree::verif::script_heights(&init_heights);
        for k in initial.iter() {
            sl.insert(*k, *k * 10);
        }
        let all_inserted: Vec<u64> = inserters.iter().flatten().copied().collect();
        let done: Arc<Vec<AtomicBool>> =
            Arc::new(all_inserted.iter().map(|_| AtomicBool::new(false)).collect());
        let started: Arc<Vec<AtomicBool>> =
            Arc::new(all_inserted.iter().map(|_| AtomicBool::new(false)).collect());
        let mut handles = vec![];
        let mut base = 0;
        for (t, keys) in inserters.iter().enumerate() {
            let sl = Arc::clone(&sl);
            let keys = keys.clone();
            let hs = heights.get(t).cloned().unwrap_or_default();
            let done = Arc::clone(&done);
            let started = Arc::clone(&started);
            let b = base;
            base += keys.len();
            handles.push(loom::thread::spawn(move || {
                skipfree::verif::script_heights(&hs);
                for (i, k) in keys.iter().enumerate() {
                    started[b + i].store(true, Ordering::SeqCst);
                    record(t + 1, format!("insert({k}) call"));
                    sl.insert(*k, *k * 10);
                    done[b + i].store(true, Ordering::SeqCst);
                    record(t + 1, format!("insert({k}) ret"));
                }
            }));
        }
        // the reader runs on the main thread
        let rt = 0usize;
        let definite = |done: &Vec<AtomicBool>| -> Vec<u64> {
            let mut d = initial.clone();
            for (i, k) in all_inserted.iter().enumerate() {
                if done[i].load(Ordering::SeqCst) {
                    d.push(*k);
                }
            }
            d.sort();
            d
        };
        let mut possible: Vec<u64> = initial.clone();
        possible.extend(all_inserted.iter().copied());
        possible.sort();
        let before = definite(&done);
        let mut obs: Vec<i64> = vec![];
        match reader.as_str() {
            "iterate" => {
                record(rt, "iterate call");
                let mut it = sl.iter();
                it.seek_to_first();
                let mut seen = vec![];
                while it.is_valid() {
                    let k = *it.key();
                    if *it.value() != k * 10 {
                        finding("wrong-value", format!("key {k} has value {}", it.value()));
                    }
                    seen.push(k);
                    it.next();
                    if seen.len() > 16 {
                        finding("iteration-does-not-terminate", "more than 16 steps");
                        break;
                    }
                }
                record(rt, format!("iterate -> {seen:?}"));
                check_walk(&seen, &before, &possible, true);
                obs = seen.iter().map(|x| *x as i64).collect();
            }
            "reverse" => {
                record(rt, "reverse-iterate call");
                let mut it = sl.iter();
                it.seek_to_last();
                it.prev();
                let mut seen = vec![];
                while it.is_valid() {
                    seen.push(*it.key());
                    it.prev();
                    if seen.len() > 16 {
                        finding("iteration-does-not-terminate", "more than 16 steps");
                        break;
                    }
                }
                record(rt, format!("reverse -> {seen:?}"));
                check_walk(&seen, &before, &possible, false);
                obs = seen.iter().map(|x| *x as i64).collect();
            }
            "seek" => {
                record(rt, format!("seek({rarg}) call"));
                let mut it = sl.iter();
                it.seek(&rarg);
                let got = if it.is_valid() { Some(*it.key()) } else { None };
                record(rt, format!("seek({rarg}) -> {got:?}"));
                let must = before.iter().copied().find(|k| *k >= rarg);
                match (got, must) {
                    (None, Some(m)) => finding(
                        "seek-missed-completed-insert",
                        format!("seek({rarg}) found nothing although {m} was inserted before"),
                    ),
                    (Some(g), _) if g < rarg => finding(
                        "seek-landed-before-target",
                        format!("seek({rarg}) landed on {g}"),
                    ),
                    (Some(g), _) if !possible.contains(&g) => {
                        finding("seek-invented-key", format!("seek({rarg}) landed on {g}"))
                    }
                    (Some(g), Some(m)) if g > m => finding(
                        "seek-skipped-completed-insert",
                        format!("seek({rarg}) landed on {g} although {m} was inserted before"),
                    ),
                    _ => {}
                }
                // then step back: nearest existing key below
                if let Some(g) = got {
                    it.prev();
                    let p = if it.is_valid() { Some(*it.key()) } else { None };
                    record(rt, format!("prev -> {p:?}"));
                    let must_prev = before.iter().copied().filter(|k| *k < g).max();
                    match (p, must_prev) {
                        (None, Some(m)) => finding(
                            "prev-missed-completed-insert",
                            format!("prev from {g} found nothing although {m} was inserted before"),
                        ),
                        (Some(x), _) if x >= g => {
                            finding("prev-not-smaller", format!("prev from {g} gave {x}"))
                        }
                        (Some(x), Some(m)) if x < m => finding(
                            "prev-skipped-completed-insert",
                            format!("prev from {g} gave {x} although {m} was inserted before"),
                        ),
                        _ => {}
                    }
                    obs.push(p.map(|x| x as i64).unwrap_or(-1));
                }
                obs.push(got.map(|x| x as i64).unwrap_or(-1));
            }
            "contains" => {
                for k in possible.iter().chain([0u64, 99].iter()) {
                    let was_done = before.contains(k);
                    let c = sl.contains(k);
                    record(rt, format!("contains({k}) -> {c}"));
                    if was_done && !c {
                        finding(
                            "contains-missed-completed-insert",
                            format!("contains({k}) is false although the insert had returned"),
                        );
                    }
                    if c && !possible.contains(k) {
                        finding("contains-invented-key", format!("contains({k}) is true"));
                    }
                    obs.push(c as i64);
                }
            }
            _ => panic!("unknown reader"),
        }
        for h in handles {
            h.join().unwrap();
        }
        // after everything returned: all present, in order, exactly once
        let mut it = sl.iter();
        it.seek_to_first();
        let mut fin = vec![];
        while it.is_valid() {
            fin.push(*it.key());
            it.next();
            if fin.len() > 16 {
                break;
            }
        }
        if fin != possible {
            finding(
                "final-contents-differ",
                format!("after all inserts returned the list holds {fin:?}, expected {possible:?}"),
            );
        }
        for k in possible.iter() {
            if !sl.contains(k) {
                finding("final-contains-false", format!("contains({k}) false after join"));
            }
        }
        outcome(&(obs, fin));
        if std::env::var("LOOMH_DEBUG").is_ok() {
            eprintln!("{:?}", loomh::history());
        }
        let _ = started;
    }
}

fn check_walk(seen: &[u64], before: &[u64], possible: &[u64], ascending: bool) {
    for w in seen.windows(2) {
        let ok = if ascending { w[0] < w[1] } else { w[0] > w[1] };
        if !ok {
            finding(
                if w[0] == w[1] { "iteration-duplicate" } else { "iteration-out-of-order" },
                format!("walk yielded {seen:?}"),
            );
            break;
        }
    }
    for k in before {
        if !seen.contains(k) {
            finding(
                "iteration-missed-completed-insert",
                format!("walk {seen:?} misses {k} whose insert had returned before the walk began"),
            );
        }
    }
    for k in seen {
        if !possible.contains(k) {
            finding("iteration-invented-key", format!("walk yielded {k}"));
        }
    }
}

fn list_model(cfg: Value) -> impl Fn() + Sync + Send + Clone + 'static {
    move || {
        begin_execution();
        let prependers: Vec<Vec<u64>> = cfg["inserters"]
            .as_array()
            .unwrap()
            .iter()
            .map(u64s)
            .collect();
        let initial = u64s(&cfg["initial"]);
        let list = Arc::new(listfree::List::<u64>::default());
        for k in initial.iter() {
            list.prepend(*k);
        }
        let all: Vec<u64> = prependers.iter().flatten().copied().collect();
        let done: Arc<Vec<AtomicBool>> = Arc::new(all.iter().map(|_| AtomicBool::new(false)).collect());
        let mut handles = vec![];
        let mut base = 0;
        for (t, keys) in prependers.iter().enumerate() {
            let list = Arc::clone(&list);
            let keys = keys.clone();
            let done = Arc::clone(&done);
            let b = base;
            base += keys.len();
            handles.push(loom::thread::spawn(move || {
                for (i, k) in keys.iter().enumerate() {
                    record(t + 1, format!("prepend({k}) call"));
                    list.prepend(*k);
                    done[b + i].store(true, Ordering::SeqCst);
                    record(t + 1, format!("prepend({k}) ret"));
                }
            }));
        }
        let before: Vec<u64> = all
            .iter()
            .enumerate()
            .filter(|(i, _)| done[*i].load(Ordering::SeqCst))
            .map(|(_, k)| *k)
            .collect();
        let seen: Vec<u64> = list.iter().copied().take(32).collect();
        record(0, format!("iterate -> {seen:?}"));
        check_list(&seen, &before, &initial, &prependers);
        for h in handles {
            h.join().unwrap();
        }
        let fin: Vec<u64> = list.iter().copied().take(32).collect();
        check_list(&fin, &all, &initial, &prependers);
        if fin.len() != all.len() + initial.len() {
            finding("list-final-count", format!("final iteration {fin:?}"));
        }
        outcome(&(seen, fin));
    }
}

fn check_list(seen: &[u64], must: &[u64], initial: &[u64], per_thread: &[Vec<u64>]) {
    for k in must.iter().chain(initial.iter()) {
        let n = seen.iter().filter(|x| *x == k).count();
        if n != 1 {
            finding(
                if n == 0 { "list-missed-completed-prepend" } else { "list-duplicate" },
                format!("iteration {seen:?} holds {k} {n} times"),
            );
        }
    }
    for k in seen {
        let known = initial.contains(k) || per_thread.iter().flatten().any(|x| x == k);
        if !known {
            finding("list-invented", format!("iteration {seen:?}"));
        }
        if seen.iter().filter(|x| *x == k).count() > 1 {
            finding("list-duplicate", format!("iteration {seen:?}"));
        }
    }
    // newest first: each thread's own elements appear in reverse program order, and the
    // pre-existing elements come last in reverse prepend order
    for keys in per_thread {
        let pos: Vec<usize> = keys
            .iter()
            .filter_map(|k| seen.iter().position(|x| x == k))
            .collect();
        if pos.windows(2).any(|w| w[0] < w[1]) {
            finding("list-not-newest-first", format!("iteration {seen:?}, thread program {keys:?}"));
        }
    }
    let ipos: Vec<usize> = initial
        .iter()
        .filter_map(|k| seen.iter().position(|x| x == k))
        .collect();
    if ipos.windows(2).any(|w| w[0] < w[1]) {
        finding("list-not-newest-first", format!("iteration {seen:?}, initial {initial:?}"));
    }
    if let Some(first_init) = ipos.iter().min() {
        // nothing prepended concurrently may appear after an initial element
        if seen[*first_init..].iter().any(|k| !initial.contains(k)) {
            finding("list-not-newest-first", format!("iteration {seen:?}"));
        }
    }
}

fn configs(thorough: bool) -> Vec<Value> {
    let mut v = vec![];
    // iterative context bounding: complete p = 1, 2, 3 and then the unbounded search, as far as
    // the per-configuration budget allows
    let lim = |secs: u64| json!({"bounds": [1, 2, 3, null], "max_branches": 200000, "budget_s": secs});
    let budget = if thorough { 240 } else { 6 };
    let readers = [
        json!({"kind": "iterate"}),
        json!({"kind": "reverse"}),
        json!({"kind": "seek", "arg": 2}),
        json!({"kind": "seek", "arg": 3}),
        json!({"kind": "contains"}),
    ];
    // two inserters on adjacent keys between 1 and 4 (same predecessor at every level),
    // every pair of heights, every reader
    for (order, ins) in [("asc", [[2u64], [3u64]]), ("desc", [[3u64], [2u64]])] {
        for h1 in 1..=2usize {
            for h2 in 1..=2usize {
                for r in readers.iter() {
                    if order == "desc" && !(h1 != h2 || thorough) {
                        continue;
                    }
                    v.push(json!({
                        "harness": "skiplist",
                        "max_height": 2,
                        "name": format!("2x1-{order}-h{h1}{h2}-{}{}", r["kind"].as_str().unwrap(), r["arg"].as_u64().map(|a| a.to_string()).unwrap_or_default()),
                        "initial": [1, 4],
                        "inserters": ins,
                        "heights": [[h1], [h2]],
                        "reader": r,
                        "limits": lim(budget),
                    }));
                }
            }
        }
    }
    // height 3
    for (h1, h2) in [(3usize, 3usize), (1, 3), (3, 2)] {
        for r in [json!({"kind": "iterate"}), json!({"kind": "seek", "arg": 3})] {
            v.push(json!({
                "harness": "skiplist",
                "max_height": 3,
                "name": format!("2x1-asc-h{h1}{h2}-{}", r["kind"].as_str().unwrap()),
                "initial": [1, 4],
                "inserters": [[2], [3]],
                "heights": [[h1], [h2]],
                "reader": r,
                "limits": lim(budget),
            }));
        }
    }
    // empty list, two inserters
    for h in 1..=2usize {
        v.push(json!({
            "harness": "skiplist",
            "max_height": 2,
            "name": format!("2x1-empty-h{h}-iterate"),
            "initial": [],
            "inserters": [[2], [3]],
            "heights": [[h], [3 - h]],
            "reader": {"kind": "iterate"},
            "limits": lim(budget),
        }));
    }
    // two inserters, two inserts each, interleaved keys
    for (name, hs) in [
        ("h1111", [[1usize, 1], [1usize, 1]]),
        ("h2222", [[2, 2], [2, 2]]),
        ("h1221", [[1, 2], [2, 1]]),
    ] {
        v.push(json!({
            "harness": "skiplist",
            "max_height": 2,
            "name": format!("2x2-{name}-iterate"),
            "initial": [1, 9],
            "inserters": [[2, 5], [3, 4]],
            "heights": hs,
            "reader": {"kind": "iterate"},
            "limits": lim(budget),
        }));
    }
    // three inserters
    for h in 1..=2usize {
        v.push(json!({
            "harness": "skiplist",
            "max_height": 2,
            "name": format!("3x1-h{h}-iterate"),
            "initial": [1, 9],
            "inserters": [[2], [3], [4]],
            "heights": [[h], [h], [3 - h]],
            "reader": {"kind": "iterate"},
            "limits": lim(budget),
        }));
    }
    // prepend-only list
    v.push(json!({"harness": "list", "name": "list-2x1", "initial": [1], "inserters": [[2], [3]], "limits": lim(budget)}));
    v.push(json!({"harness": "list", "name": "list-2x2", "initial": [], "inserters": [[2, 3], [4, 5]], "limits": lim(budget)}));
    v.push(json!({"harness": "list", "name": "list-3x1", "initial": [1], "inserters": [[2], [3], [4]], "limits": lim(budget)}));
    v
}

fn run_child(cfg: &Value) -> Value {
    let limits = Limits::from_json(&cfg["limits"]);
    match cfg["harness"].as_str().unwrap() {
        "skiplist" => match cfg["max_height"].as_u64().unwrap_or(3) {
            2 => explore(cfg, &limits, skiplist_model::<2>(cfg.clone())),
            _ => explore(cfg, &limits, skiplist_model::<3>(cfg.clone())),
        },
        "list" => explore(cfg, &limits, list_model(cfg.clone())),
        h => panic!("unknown harness {h}"),
    }
}

fn main() {
    let args = Args::parse();
    vcore::quiet_panics();
    if let Some(c) = args.get("child") {
        let cfg: Value = serde_json::from_str(c).expect("child cfg");
        let v = run_child(&cfg);
        finish_child(&args, &v);
        return;
    }
    if let Some(rf) = args.replay_case() {
        let v = run_child(&rf["case"]["cfg"]);
        loomh::replay_exit(&v, rf["signature"].as_str().unwrap_or(""));
    }
    let cfgs = configs(args.tier_thorough());
    let mut rep = run_parent(
        "loom_skiplist",
        "C17",
        "c17",
        cfgs,
        &args,
        "loom DPOR over every interleaving (and C11 memory-model outcome) of inserter threads and one reader on the real skipfree::SkipList<u64,u64,3> / listfree::List; one evaluation = one complete execution; heights are scripted per configuration; distinct = (configuration, reader observation, final contents); unbounded unless the configuration states a preemption bound",
    );
    rep.bound = json!({"max_height": "2 or 3 (const generic of the real type)", "preemption_bounds": "1, 2, 3, then unbounded, per configuration as far as its budget allows (notes.configurations[].completed_bound)", "keys": "adjacent keys between two pre-existing neighbours", "see": "notes.configurations"});
    rep.assumptions = vec![
        "node payload (key/value) accesses are plain memory, invisible to loom; only the AtomicPtr operations are scheduling points".into(),
        "std::sync::Arc reference counts are not modelled".into(),
    ];
    rep.finish(&args, "loom_skiplist");
}
