//! E3: exhaustive thread interleavings of the real code under loom.
//!
//! Every harness binary has a list of *configurations* (thread programs, heights, slots, ...).
//! The parent process runs each configuration in a child process (`--child <json>`), because a
//! loom failure can poison loom's thread-locals or abort; children run in parallel.  A child
//! explores ONE loom model and writes a small JSON result; the parent merges them into a
//! vcore::Report.
//!
//! Inside a model, harness code records an invocation/response history with `record` (a plain
//! global: loom runs one thread at a time on one OS thread, so a global logical clock is exact)
//! and reports oracle failures with `finding` instead of panicking, so that exploration goes on
//! and every distinct failure class is seen.  A panic inside the model (assertion in the
//! subject, loom's deadlock report) ends that child's exploration and is reported as a finding.

use std::collections::{BTreeMap, HashSet};
use std::sync::Mutex;
use std::sync::atomic::{AtomicU64, Ordering};
use std::time::{Duration, Instant};

use vcore::{Args, Report, Value, Violation, json};

pub static EXECS: AtomicU64 = AtomicU64::new(0);
static HISTORY: Mutex<Vec<(usize, String)>> = Mutex::new(Vec::new());
static OUTCOMES: Mutex<Option<HashSet<u64>>> = Mutex::new(None);
static TRANSITIONS: AtomicU64 = AtomicU64::new(0);

pub struct FindingRec {
    pub count: u64,
    pub detail: String,
    pub first_execution: u64,
    pub history: Vec<String>,
}

static FINDINGS: Mutex<BTreeMap<String, FindingRec>> = Mutex::new(BTreeMap::new());

/// Call first thing inside the model closure.
pub fn begin_execution() -> u64 {
    HISTORY.lock().unwrap().clear();
    EXECS.fetch_add(1, Ordering::Relaxed)
}

/// Record one event of the current execution (call / return / observation).
pub fn record(thread: usize, what: impl Into<String>) {
    TRANSITIONS.fetch_add(1, Ordering::Relaxed);
    HISTORY.lock().unwrap().push((thread, what.into()));
}

pub fn history() -> Vec<String> {
    HISTORY
        .lock()
        .unwrap()
        .iter()
        .map(|(t, w)| format!("T{t}: {w}"))
        .collect()
}

pub fn history_len() -> usize {
    HISTORY.lock().unwrap().len()
}

/// Record the observable outcome of the finished execution (for the vacuity measure).
pub fn outcome<T: std::hash::Hash>(t: &T) {
    let mut o = OUTCOMES.lock().unwrap();
    o.get_or_insert_with(HashSet::new)
        .insert(vcore::stable_hash(t));
}

pub fn finding(sig: impl Into<String>, detail: impl Into<String>) {
    let sig = sig.into();
    let mut f = FINDINGS.lock().unwrap();
    let e = f.entry(sig).or_insert_with(|| FindingRec {
        count: 0,
        detail: detail.into(),
        first_execution: EXECS.load(Ordering::Relaxed).saturating_sub(1),
        history: history(),
    });
    e.count += 1;
}

pub struct Limits {
    /// Preemption bounds to complete in turn (None = unbounded), e.g. [1, 2, 3, None].
    pub bounds: Vec<Option<usize>>,
    pub max_branches: usize,
    /// Wall budget for the whole configuration.
    pub budget: Duration,
}

impl Limits {
    pub fn from_json(v: &Value) -> Limits {
        let bounds = match v["bounds"].as_array() {
            Some(a) => a.iter().map(|x| x.as_u64().map(|y| y as usize)).collect(),
            None => vec![v["preemption"].as_u64().map(|x| x as usize)],
        };
        Limits {
            bounds,
            max_branches: v["max_branches"].as_u64().unwrap_or(1_000_000) as usize,
            budget: Duration::from_secs(v["budget_s"].as_u64().unwrap_or(30)),
        }
    }
}

/// Explore one loom model: complete the preemption bounds in turn (iterative context bounding)
/// until the budget is used up.  Returns the child's result JSON, which says which bound was
/// completed.
pub fn explore(cfg: &Value, limits: &Limits, model: impl Fn() + Sync + Send + Clone + 'static) -> Value {
    let t0 = Instant::now();
    let mut completed: Option<String> = None;
    let mut cap: Option<String> = None;
    let mut per_bound = vec![];
    for bound in limits.bounds.iter() {
        let remaining = limits.budget.saturating_sub(t0.elapsed());
        if remaining < Duration::from_millis(500) {
            cap = Some(format!("budget of {} s used up before bound {:?}", limits.budget.as_secs(), bound));
            break;
        }
        let mut b = loom::model::Builder::new();
        b.preemption_bound = *bound;
        b.max_branches = limits.max_branches;
        b.max_duration = Some(remaining);
        b.max_threads = 5;
        let before = EXECS.load(Ordering::Relaxed);
        let t1 = Instant::now();
        let m = model.clone();
        let r = vcore::catch(move || b.check(m));
        let ran = EXECS.load(Ordering::Relaxed) - before;
        let name = match bound {
            Some(p) => format!("p={p}"),
            None => "unbounded".to_string(),
        };
        match r {
            Ok(()) => {
                if t1.elapsed() >= remaining {
                    cap = Some(format!("wall budget hit inside {name} after {ran} executions"));
                    per_bound.push(json!({"bound": name, "executions": ran, "completed": false}));
                    break;
                }
                per_bound.push(json!({"bound": name, "executions": ran, "completed": true}));
                completed = Some(name);
            }
            Err(p) => {
                per_bound.push(json!({"bound": name, "executions": ran, "completed": false}));
                // loom's own failure reports: deadlock, exceeded branches, or a subject panic
                if p.contains("deadlock") {
                    finding("deadlock", format!("loom reports a deadlock: {p}"));
                } else if p.contains("xceeded") && p.contains("branches") {
                    cap = Some("max_branches exceeded".into());
                } else {
                    finding(format!("panic:{}", norm(&p)), format!("model panicked: {p}"));
                }
                break;
            }
        }
    }
    let wall = t0.elapsed();
    let execs = EXECS.load(Ordering::Relaxed);
    let findings: Vec<Value> = FINDINGS
        .lock()
        .unwrap()
        .iter()
        .map(|(sig, f)| {
            json!({
                "signature": sig,
                "count": f.count,
                "detail": f.detail,
                "first_execution": f.first_execution,
                "history": f.history,
            })
        })
        .collect();
    let outcomes: Vec<u64> = OUTCOMES
        .lock()
        .unwrap()
        .clone()
        .unwrap_or_default()
        .into_iter()
        .collect();
    json!({
        "cfg": cfg,
        "executions": execs,
        "transitions": TRANSITIONS.load(Ordering::Relaxed),
        "wall_s": wall.as_secs_f64(),
        "cap": cap,
        "completed_bound": completed,
        "per_bound": per_bound,
        "findings": findings,
        "outcomes": outcomes,
    })
}

pub fn norm(p: &str) -> String {
    let mut s = String::new();
    let mut last_digit = false;
    for c in p.chars().take(200) {
        if c.is_ascii_digit() {
            if !last_digit {
                s.push('#');
            }
            last_digit = true;
        } else {
            last_digit = false;
            s.push(if c == '\n' { ' ' } else { c });
        }
    }
    s.chars().take(90).collect()
}

/// Parent side: run every configuration in a child process, in parallel; merge.
/// `prefix` is prepended to finding signatures (e.g. "c17:skiplist").
pub fn run_parent(
    bin: &str,
    property: &str,
    prefix: &str,
    cfgs: Vec<Value>,
    args: &Args,
    rule: &str,
) -> Report {
    let exe = std::env::current_exe().expect("current_exe");
    let threads = args.threads();
    let tmp = vcore::Scratch::new("loomh");
    let mut total = Report::new(bin, property);
    total.rule = rule.to_string();
    let results: Mutex<Vec<(usize, Result<Value, String>)>> = Mutex::new(vec![]);
    let next = std::sync::atomic::AtomicUsize::new(0);
    std::thread::scope(|s| {
        for _ in 0..threads.max(1) {
            s.spawn(|| {
                loop {
                    let i = next.fetch_add(1, Ordering::Relaxed);
                    if i >= cfgs.len() {
                        break;
                    }
                    let out = tmp.sub(&format!("child-{i}.json"));
                    let p = std::process::Command::new(&exe)
                        .arg("--child")
                        .arg(cfgs[i].to_string())
                        .arg("--out")
                        .arg(&out)
                        .env("LOOM_LOG", "off")
                        .stdout(std::process::Stdio::null())
                        .stderr(std::process::Stdio::piped())
                        .output();
                    let r = match p {
                        Err(e) => Err(format!("cannot spawn child: {e}")),
                        Ok(o) => match std::fs::read_to_string(&out) {
                            Ok(s) => serde_json::from_str::<Value>(&s)
                                .map_err(|e| format!("bad child json: {e}")),
                            Err(_) => Err(format!(
                                "child died ({}) without a result: {}",
                                o.status,
                                String::from_utf8_lossy(&o.stderr)
                                    .chars()
                                    .rev()
                                    .take(600)
                                    .collect::<String>()
                                    .chars()
                                    .rev()
                                    .collect::<String>()
                            )),
                        },
                    };
                    results.lock().unwrap().push((i, r));
                }
            });
        }
    });
    let mut results = results.into_inner().unwrap();
    results.sort_by_key(|(i, _)| *i);
    let mut per_cfg = vec![];
    for (i, r) in results {
        match r {
            Err(e) => {
                // an abort of the child is a finding in its own right (the properties forbid
                // crashes); the parent cannot tell a loom-internal abort from a subject abort,
                // so it is reported with the configuration for replay.
                total.violation(Violation {
                    property: property.to_string(),
                    signature: format!("{prefix}:child-abort"),
                    detail: e,
                    case: json!({"cfg": cfgs[i]}),
                });
                total.exhaustive = false;
            }
            Ok(v) => {
                let execs = v["executions"].as_u64().unwrap_or(0);
                total.evaluations += execs;
                total.traces_validated += execs;
                total.transitions += v["transitions"].as_u64().unwrap_or(0);
                let cb = v["completed_bound"].as_str().unwrap_or("none").to_string();
                if cb != "unbounded" && cfgs[i]["limits"]["bounds"].as_array().map(|a| a.iter().any(|x| x.is_null())).unwrap_or(true) {
                    total.cap(&format!(
                        "{}: completed {cb} ({})",
                        cfgs[i]["name"].as_str().unwrap_or("?"),
                        v["cap"].as_str().unwrap_or("")
                    ));
                }
                if cb == "none" {
                    total.count("configurations_without_a_completed_bound", 1);
                }
                let mut n_out = 0;
                for o in v["outcomes"].as_array().unwrap_or(&vec![]) {
                    let h = o.as_u64().unwrap_or(0);
                    let key = vcore::stable_hash(&(i, h));
                    total.states.insert(key);
                    total.outcomes.insert(key);
                    total.nontrivial.insert(key);
                    n_out += 1;
                }
                per_cfg.push(json!({
                    "cfg": cfgs[i]["name"],
                    "executions": execs,
                    "outcomes": n_out,
                    "wall_s": v["wall_s"],
                    "cap": v["cap"],
                    "completed_bound": v["completed_bound"],
                    "per_bound": v["per_bound"],
                }));
                if total.samples.len() < total.max_samples && execs > 0 {
                    total.sample(json!({"cfg": cfgs[i], "executions": execs, "distinct_outcomes": n_out}));
                }
                for f in v["findings"].as_array().unwrap_or(&vec![]) {
                    let sig = format!("{prefix}:{}", f["signature"].as_str().unwrap_or("?"));
                    let n = f["count"].as_u64().unwrap_or(1);
                    let extra = n.saturating_sub(1);
                    let sig_for_count = sig.clone();
                    total.violation(Violation {
                        property: property.to_string(),
                        signature: sig,
                        detail: format!(
                            "{} [configuration {}; first failing execution #{} of {}; history: {}]",
                            f["detail"].as_str().unwrap_or(""),
                            cfgs[i]["name"].as_str().unwrap_or("?"),
                            f["first_execution"],
                            execs,
                            f["history"]
                                .as_array()
                                .map(|h| h
                                    .iter()
                                    .map(|x| x.as_str().unwrap_or("").to_string())
                                    .collect::<Vec<_>>()
                                    .join(" | "))
                                .unwrap_or_default()
                        ),
                        case: json!({"cfg": cfgs[i], "first_execution": f["first_execution"], "signature": f["signature"]}),
                    });
                    *total.violation_sigs.entry(sig_for_count).or_insert(0) += extra;
                }
            }
        }
    }
    total.notes.insert("configurations".into(), Value::Array(per_cfg));
    total
}

/// Child side: write the result where the parent expects it.
pub fn finish_child(args: &Args, v: &Value) {
    let out = args.get("out").expect("--out");
    std::fs::write(out, v.to_string()).expect("cannot write child result");
}

/// Replay: run the configuration of a recorded violation again (the exploration is
/// deterministic) and report whether the same signature is found, with its history.
pub fn replay_exit(v: &Value, want_sig: &str) -> ! {
    let mut hit = false;
    for f in v["findings"].as_array().unwrap_or(&vec![]) {
        let sig = f["signature"].as_str().unwrap_or("");
        println!(
            "finding {sig} (x{}), first at execution #{}: {}",
            f["count"], f["first_execution"], f["detail"]
        );
        for h in f["history"].as_array().unwrap_or(&vec![]) {
            println!("    {}", h.as_str().unwrap_or(""));
        }
        if want_sig.ends_with(sig) {
            hit = true;
        }
    }
    println!(
        "{} executions explored, cap={}",
        v["executions"], v["cap"]
    );
    if hit {
        println!("REPRODUCED {want_sig}");
        std::process::exit(1);
    }
    std::process::exit(if v["findings"].as_array().map(|a| a.is_empty()).unwrap_or(true) {
        0
    } else {
        1
    })
}
