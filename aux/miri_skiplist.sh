#!/bin/bash
# Auxiliary, not a registered check and not a deciding step: runs the sequential skiplist explorer
# (every operation sequence <= 3, heights scripted) under Miri so that undefined behaviour in
# skipfree's unsafe code (raw node pointers, the Head-owned node list of fix 9d59c51) that does not
# change any observable answer is still reported.  About 90 s.  Exit 0 = Miri saw no UB.
cd /verif/harness || exit 2
MIRIFLAGS="-Zmiri-disable-isolation -Zmiri-ignore-leaks -Zmiri-disable-alignment-check" \
RUSTFLAGS="--cfg rescrv_blue_verif" CARGO_TARGET_DIR=/verif/target/miri CARGO_NET_OFFLINE=true \
  cargo +nightly miri run --offline -p seqmc --bin seq_skiplist -- --tier quick --depth ${1:-3} --threads 1 \
  --out /dev/shm/miri-skiplist.json --replay-dir /dev/shm/miri-replays --seed 1
