//! C11: merging / concatenating / bounds / pruning / lazy cursors against vector references built
//! from the specification sentence of each combinator.
//!
//!   seq_cursor --tier quick --out report.json
//!   seq_cursor --replay replays/C11/....json
//!
//! Enumerated: every family of child tables inside the stated bounds x every cursor program of
//! length <= L over {seek_to_first, seek_to_last, seek(a|b|c|""|d), next, prev}, each program run
//! from a fresh combinator, compared with the reference after the last call.

use std::ops::Bound;
use std::sync::Arc;

use sst::Builder;
use sst::bounds_cursor::BoundsCursor;
use sst::concat_cursor::ConcatenatingCursor;
use sst::lazy_cursor::LazyCursor;
use sst::merging_cursor::MergingCursor;
use sst::pruning_cursor::PruningCursor;
use sstmc::*;
use vcore::{Args, Report, Scratch, Value, Violation, json};

type Table = Arc<Vec<Entry>>;

const KEYS: [&[u8]; 3] = [b"a", b"b", b"c"];
// sst order within a key: newest first.  Both ends of the timestamp domain are in the universe:
// probes like (key, u64::MAX) coincide with a real entry, and timestamp 0 sits below every read.
const TSS: [u64; 3] = [u64::MAX, 2, 0];
const READ_TS: [u64; 5] = [0, 1, 2, 3, u64::MAX];

fn slot_entry(slot: usize, tomb: bool) -> Entry {
    let key = KEYS[slot / 3];
    let ts = TSS[slot % 3];
    Entry {
        key: key.to_vec(),
        ts,
        value: if tomb {
            None
        } else {
            Some(format!("v{}{}", key[0] as char, ts).into_bytes())
        },
    }
}

/// Every table with <= max entries over 9 (key, ts) slots x {value, tombstone}; each is sorted
/// by construction (slots are in sst order).  Smallest first.
fn all_tables(max: usize) -> Vec<(u16, Table)> {
    let mut out: Vec<(u16, Table)> = vec![];
    for size in 0..=max {
        for mask in 0u16..(1 << 9) {
            if mask.count_ones() as usize != size {
                continue;
            }
            let slots: Vec<usize> = (0..9).filter(|s| mask & (1 << s) != 0).collect();
            for kinds in 0u32..(1 << size) {
                let t: Vec<Entry> = slots
                    .iter()
                    .enumerate()
                    .map(|(i, &s)| slot_entry(s, kinds & (1 << i) != 0))
                    .collect();
                out.push((mask, Arc::new(t)));
            }
        }
    }
    out
}

fn all_bounds() -> Vec<Bound<Vec<u8>>> {
    let mut v = vec![Bound::Unbounded];
    for k in KEYS {
        v.push(Bound::Included(k.to_vec()));
        v.push(Bound::Excluded(k.to_vec()));
    }
    v
}

fn moves() -> Vec<Move> {
    vec![
        Move::First,
        Move::Last,
        Move::Seek(b"a".to_vec()),
        Move::Seek(b"b".to_vec()),
        Move::Seek(b"c".to_vec()),
        Move::Seek(b"".to_vec()),
        Move::Seek(b"d".to_vec()),
        Move::Next,
        Move::Prev,
    ]
}

/////////////////////////////////////////////// Case ///////////////////////////////////////////////

#[derive(Clone, Debug)]
enum Case {
    Merging { tables: Vec<Table> },
    Concat { tables: Vec<Table> },
    Bounds { table: Table, start: Bound<Vec<u8>>, end: Bound<Vec<u8>> },
    Pruning { table: Table, ts: u64 },
    Lazy { table: Table },
}

fn in_bounds(key: &[u8], start: &Bound<Vec<u8>>, end: &Bound<Vec<u8>>) -> bool {
    let lo = match start {
        Bound::Unbounded => true,
        Bound::Included(s) => key >= s.as_slice(),
        Bound::Excluded(s) => key > s.as_slice(),
    };
    let hi = match end {
        Bound::Unbounded => true,
        Bound::Included(e) => key <= e.as_slice(),
        Bound::Excluded(e) => key < e.as_slice(),
    };
    lo && hi
}

/// No key at all can lie in the interval.
fn interval_is_empty(start: &Bound<Vec<u8>>, end: &Bound<Vec<u8>>) -> bool {
    let (s, s_incl) = match start {
        Bound::Unbounded => return false,
        Bound::Included(s) => (s, true),
        Bound::Excluded(s) => (s, false),
    };
    let (e, e_incl) = match end {
        Bound::Unbounded => return false,
        Bound::Included(e) => (e, true),
        Bound::Excluded(e) => (e, false),
    };
    s > e || (s == e && !(s_incl && e_incl))
}

fn concat_has_split_key(tables: &[Table]) -> bool {
    let ne: Vec<&Table> = tables.iter().filter(|t| !t.is_empty()).collect();
    ne.windows(2)
        .any(|w| w[0].last().unwrap().key == w[1].first().unwrap().key)
}

impl Case {
    /// The reference table, straight from the specification sentence.
    fn spec(&self) -> Vec<Entry> {
        match self {
            // "one cursor over the sorted union of their entries"
            Case::Merging { tables } => {
                let mut all: Vec<Entry> = tables.iter().flat_map(|t| t.iter().cloned()).collect();
                all.sort_by(entry_order);
                all
            }
            // "their concatenation"
            Case::Concat { tables } => tables.iter().flat_map(|t| t.iter().cloned()).collect(),
            // "the underlying cursor restricted to the interval"
            Case::Bounds { table, start, end } => table
                .iter()
                .filter(|e| in_bounds(&e.key, start, end))
                .cloned()
                .collect(),
            // "per key, the newest version not newer than t unless it is a tombstone"
            Case::Pruning { table, ts } => {
                let mut out: Vec<Entry> = vec![];
                let mut keys: Vec<&Vec<u8>> = table.iter().map(|e| &e.key).collect();
                keys.dedup();
                for k in keys {
                    let newest = table
                        .iter()
                        .filter(|e| &e.key == k && e.ts <= *ts)
                        .max_by_key(|e| e.ts);
                    if let Some(e) = newest {
                        if e.value.is_some() {
                            out.push(e.clone());
                        }
                    }
                }
                out
            }
            // "the cursor it opens"
            Case::Lazy { table } => table.to_vec(),
        }
    }

    fn name(&self) -> &'static str {
        match self {
            Case::Merging { .. } => "merging",
            Case::Concat { .. } => "concat",
            Case::Bounds { .. } => "bounds",
            Case::Pruning { .. } => "pruning",
            Case::Lazy { .. } => "lazy",
        }
    }

    /// Structural input class that decides whether the input is inside the combinator's contract.
    fn class(&self) -> &'static str {
        match self {
            Case::Concat { tables } if concat_has_split_key(tables) => "[key-split-across-tables]",
            Case::Bounds { start, end, .. } if interval_is_empty(start, end) => "[empty-interval]",
            _ => "",
        }
    }

    fn size(&self) -> u64 {
        match self {
            Case::Merging { tables } | Case::Concat { tables } => {
                tables.iter().map(|t| t.len() as u64 + 1).sum::<u64>()
            }
            Case::Bounds { table, start, end } => {
                table.len() as u64
                    + (*start != Bound::Unbounded) as u64
                    + (*end != Bound::Unbounded) as u64
            }
            Case::Pruning { table, .. } | Case::Lazy { table } => table.len() as u64,
        }
    }

    fn nontrivial(&self) -> bool {
        let (tables, extra): (Vec<&Table>, bool) = match self {
            Case::Merging { tables } | Case::Concat { tables } => (tables.iter().collect(), false),
            Case::Bounds { table, start, end } => (
                vec![table],
                *start != Bound::Unbounded || *end != Bound::Unbounded,
            ),
            Case::Pruning { table, .. } | Case::Lazy { table } => (vec![table], false),
        };
        let nonempty = tables.iter().filter(|t| !t.is_empty()).count();
        let all: Vec<&Entry> = tables.iter().flat_map(|t| t.iter()).collect();
        let tomb = all.iter().any(|e| e.value.is_none());
        let mut keys: Vec<&Vec<u8>> = all.iter().map(|e| &e.key).collect();
        keys.sort();
        let n = keys.len();
        keys.dedup();
        all.len() >= 2 && (nonempty >= 2 || tomb || keys.len() < n || extra)
    }

    fn to_json(&self) -> Value {
        fn b(x: &Bound<Vec<u8>>) -> Value {
            match x {
                Bound::Unbounded => json!("unbounded"),
                Bound::Included(k) => json!({"included": vcore::esc(k)}),
                Bound::Excluded(k) => json!({"excluded": vcore::esc(k)}),
            }
        }
        match self {
            Case::Merging { tables } | Case::Concat { tables } => json!({
                "combinator": self.name(),
                "tables": tables.iter().map(|t| entries_to_json(t)).collect::<Vec<_>>(),
            }),
            Case::Bounds { table, start, end } => json!({
                "combinator": "bounds",
                "tables": [entries_to_json(table)],
                "start": b(start),
                "end": b(end),
            }),
            Case::Pruning { table, ts } => json!({
                "combinator": "pruning",
                "tables": [entries_to_json(table)],
                "read_timestamp": ts,
            }),
            Case::Lazy { table } => json!({
                "combinator": "lazy",
                "tables": [entries_to_json(table)],
            }),
        }
    }

    fn from_json(v: &Value) -> Case {
        fn b(x: &Value) -> Bound<Vec<u8>> {
            if let Some(k) = x.get("included") {
                Bound::Included(unesc(k.as_str().unwrap()))
            } else if let Some(k) = x.get("excluded") {
                Bound::Excluded(unesc(k.as_str().unwrap()))
            } else {
                Bound::Unbounded
            }
        }
        let tables: Vec<Table> = v["tables"]
            .as_array()
            .unwrap()
            .iter()
            .map(|t| Arc::new(entries_from_json(t)))
            .collect();
        match v["combinator"].as_str().unwrap() {
            "merging" => Case::Merging { tables },
            "concat" => Case::Concat { tables },
            "bounds" => Case::Bounds {
                table: tables[0].clone(),
                start: b(&v["start"]),
                end: b(&v["end"]),
            },
            "pruning" => Case::Pruning {
                table: tables[0].clone(),
                ts: v["read_timestamp"].as_u64().unwrap(),
            },
            "lazy" => Case::Lazy {
                table: tables[0].clone(),
            },
            x => panic!("unknown combinator {x}"),
        }
    }

    fn describe(&self) -> String {
        fn b(x: &Bound<Vec<u8>>) -> String {
            match x {
                Bound::Unbounded => "Unbounded".into(),
                Bound::Included(k) => format!("Included({})", vcore::esc(k)),
                Bound::Excluded(k) => format!("Excluded({})", vcore::esc(k)),
            }
        }
        match self {
            Case::Merging { tables } | Case::Concat { tables } => format!(
                "{} over tables {}",
                self.name(),
                tables
                    .iter()
                    .map(|t| fmt_entries(t))
                    .collect::<Vec<_>>()
                    .join(" ++ ")
            ),
            Case::Bounds { table, start, end } => format!(
                "bounds ({}, {}) over {}",
                b(start),
                b(end),
                fmt_entries(table)
            ),
            Case::Pruning { table, ts } => {
                format!("pruning at timestamp {ts} over {}", fmt_entries(table))
            }
            Case::Lazy { table } => format!("lazy over an sst holding {}", fmt_entries(table)),
        }
    }
}

/// Build an SST holding `table` (for LazyCursor, which is hard-wired to SstCursor).
fn build_sst(table: &[Entry], path: &std::path::Path) -> Result<sst::Sst, String> {
    let _ = std::fs::remove_file(path);
    let mut b =
        sst::SstBuilder::new(sst::SstOptions::default(), path).map_err(|e| format!("{e}"))?;
    for e in table {
        match &e.value {
            Some(v) => b.put(&e.key, e.ts, v),
            None => b.del(&e.key, e.ts),
        }
        .map_err(|e| format!("{e}"))?;
    }
    b.seal().map_err(|e| err_code(&e))
}

struct Runner<'a> {
    moves: &'a [Move],
    /// only LazyCursor cases need files
    scratch: Option<&'a Scratch>,
}

/// What to run on the subject: all programs up to a length, or a single program.
enum What<'p> {
    All(usize),
    One(&'p [Move]),
}

struct RunResult {
    failures: Vec<ProgramFailure>,
    single: Option<Observed>,
}

impl Runner<'_> {
    fn drive<C: sst::Cursor>(
        &self,
        mk: &mut dyn FnMut() -> Result<C, String>,
        spec: &[Entry],
        what: &What,
        rep: &mut Report,
        stats: &mut ProgStats,
    ) -> RunResult {
        match what {
            What::All(len) => RunResult {
                failures: run_programs(mk, spec, self.moves, *len, &mut rep.outcomes, stats),
                single: None,
            },
            What::One(p) => {
                let (o, calls) = run_one(mk, p.iter());
                stats.calls += calls;
                stats.programs += 1;
                RunResult {
                    failures: vec![],
                    single: Some(o),
                }
            }
        }
    }

    fn run(&self, case: &Case, spec: &[Entry], what: &What, rep: &mut Report) -> RunResult {
        let mut stats = ProgStats::default();
        let e = |e: sst::SError| format!("{e}");
        let r = match case {
            Case::Merging { tables } => self.drive(
                &mut || {
                    MergingCursor::new(tables.iter().map(|t| VecCursor::new(t.clone())).collect())
                        .map_err(e)
                },
                spec,
                what,
                rep,
                &mut stats,
            ),
            Case::Concat { tables } => self.drive(
                &mut || {
                    ConcatenatingCursor::new(
                        tables.iter().map(|t| VecCursor::new(t.clone())).collect(),
                    )
                    .map_err(e)
                },
                spec,
                what,
                rep,
                &mut stats,
            ),
            Case::Bounds { table, start, end } => self.drive(
                &mut || BoundsCursor::new(VecCursor::new(table.clone()), start, end).map_err(e),
                spec,
                what,
                rep,
                &mut stats,
            ),
            Case::Pruning { table, ts } => self.drive(
                &mut || PruningCursor::new(VecCursor::new(table.clone()), *ts).map_err(e),
                spec,
                what,
                rep,
                &mut stats,
            ),
            Case::Lazy { table } => {
                let path = self.scratch.expect("lazy cases need a scratch dir").sub("lazy.sst");
                match build_sst(table, &path) {
                    Ok(sst) => {
                        let r = self.drive(
                            &mut || {
                                let s = sst.clone();
                                Ok(LazyCursor::new(move || Ok::<_, sst::SError>(s.cursor())))
                            },
                            spec,
                            what,
                            rep,
                            &mut stats,
                        );
                        drop(sst);
                        let _ = std::fs::remove_file(&path);
                        r
                    }
                    Err(code) => {
                        // the SST could not be built: that is C10's business, not C11's
                        rep.count(&format!("lazy_sst_build_failed({code})"), 1);
                        let _ = std::fs::remove_file(&path);
                        RunResult {
                            failures: vec![],
                            single: None,
                        }
                    }
                }
            }
        };
        rep.transitions += stats.calls;
        rep.count("cursor_programs", stats.programs);
        rep.count("failing_programs", stats.failing_programs);
        rep.count("flaky_programs", stats.flaky_programs);
        rep.count(&format!("programs_{}", case.name()), stats.programs);
        r
    }
}

fn signature(case: &Case, kind: &str, program: &[Move]) -> String {
    format!("c11:{}{}:{}:{}", case.name(), case.class(), kind, shape(program))
}

fn check_case(
    runner: &Runner,
    case: &Case,
    id: u64,
    max_len: usize,
    rep: &mut Report,
    findings: &Findings,
) {
    let spec = case.spec();
    rep.evaluations += 1;
    rep.traces_validated += 1;
    rep.count(&format!("cases_{}{}", case.name(), case.class()), 1);
    rep.states.insert(id);
    if case.nontrivial() {
        rep.nontrivial.insert(id);
    }
    if rep.evaluations % 50021 == 1 {
        rep.sample(json!({"case": case.to_json(), "reference": entries_to_json(&spec)}));
    }
    let out = runner.run(case, &spec, &What::All(max_len), rep);
    if !out.failures.is_empty() {
        rep.count(&format!("failing_cases_{}{}", case.name(), case.class()), 1);
    }
    for f in out.failures {
        let sig = signature(case, &f.kind, &f.program);
        // replay before report: the single program, a second time, must fail identically
        let again = runner.run(case, &spec, &What::One(&f.program), rep);
        let again_obs = again.single.unwrap_or(Err(Fail::Construct("not run".into())));
        if classify(&f.expected, &again_obs, &spec).as_deref() != Some(f.kind.as_str())
            || again_obs != f.got
        {
            rep.count("non_reproducible_failures", 1);
            continue;
        }
        let metric = case.size() * 100 + f.program.len() as u64;
        if findings.wants(&sig, metric) {
            let mut cj = case.to_json();
            cj["program"] = moves_to_json(&f.program);
            findings.record(
                metric,
                Violation {
                    property: "C11".into(),
                    signature: sig,
                    detail: format!(
                        "{}; reference (from the specification) = {}; program [{}]: expected {} but the real cursor gives {}",
                        case.describe(),
                        fmt_entries(&spec),
                        fmt_program(&f.program),
                        fmt_entry(&f.expected),
                        fmt_observed(&f.got)
                    ),
                    case: cj,
                },
            );
        } else {
            findings.bump(&sig);
        }
    }
}

/////////////////////////////////////////////// work ///////////////////////////////////////////////

enum Item {
    MergingNone,
    /// the merging family {i}
    Merging1(usize),
    /// the merging family {i, j} and all {i, j, k >= j}
    Merging2(usize, usize),
    /// the concatenation (i)
    Concat1(usize),
    /// the concatenations (i, j) and all (i, j, k)
    Concat2(usize, usize),
    Bounds(usize),
    Pruning(usize),
    Lazy(usize),
}

/// "entries:len" or "entries:tables:len", comma separated: a case whose biggest table has <= entries
/// entries and that has <= tables child tables gets programs up to len; the longest applicable wins.
#[derive(Clone, Debug)]
struct Tiers(Vec<(usize, usize, usize)>);

impl Tiers {
    fn parse(s: &str) -> Tiers {
        Tiers(
            s.split(',')
                .map(|p| {
                    let f: Vec<usize> = p.split(':').map(|x| x.parse().expect("number")).collect();
                    match f.len() {
                        2 => (f[0], usize::MAX, f[1]),
                        3 => (f[0], f[1], f[2]),
                        _ => panic!("tier wants entries:len or entries:tables:len"),
                    }
                })
                .collect(),
        )
    }

    fn max_entries(&self) -> usize {
        self.0.iter().map(|t| t.0).max().unwrap_or(0)
    }

    fn len_for(&self, size: usize, tables: usize) -> usize {
        self.0
            .iter()
            .filter(|t| t.0 >= size && t.1 >= tables)
            .map(|t| t.2)
            .max()
            .unwrap_or(0)
    }

    fn describe(&self) -> String {
        self.0
            .iter()
            .map(|(e, t, l)| {
                if *t == usize::MAX {
                    format!("tables with <= {e} entries: programs <= {l}")
                } else {
                    format!("<= {t} tables with <= {e} entries each: programs <= {l}")
                }
            })
            .collect::<Vec<_>>()
            .join("; ")
    }
}

struct Plan {
    /// all tables up to the biggest size any combinator wants, smallest first
    tables: Vec<(u16, Table)>,
    bounds: Vec<Bound<Vec<u8>>>,
    max_tables: usize,
    merging: Tiers,
    concat: Tiers,
    bounds_t: Tiers,
    pruning: Tiers,
    lazy: Tiers,
    /// merging: additionally run the children in reversed order with programs up to this length
    reversed_len: usize,
}

impl Plan {
    /// number of tables with <= n entries (tables are sorted by size)
    fn count_upto(&self, n: usize) -> usize {
        self.tables.iter().take_while(|t| t.1.len() <= n).count()
    }
}

/// adjacent tables of a concatenation: the whole must be strictly sorted
fn concat_ok(prev_last: Option<&Entry>, t: &Table) -> bool {
    match (prev_last, t.first()) {
        (Some(a), Some(b)) => entry_order(a, b) == std::cmp::Ordering::Less,
        _ => true,
    }
}

/// A thread-private copy of a shared table: the per-program Arc clones then touch a reference
/// count that no other worker thread is hammering.
fn private(t: &Table) -> Table {
    Arc::new(t.as_ref().clone())
}

fn fam_id(c: u64, idx: &[usize], x: u64) -> u64 {
    vcore::stable_hash(&(c, idx, x))
}

fn work(plan: &Plan, item: &Item, rep: &mut Report, findings: &Findings) {
    let mv = moves();
    let scratch = match item {
        Item::Lazy(_) => Some(Scratch::new("cur")),
        _ => None,
    };
    let runner = Runner {
        moves: &mv,
        scratch: scratch.as_ref(),
    };
    let t = &plan.tables;
    let merging = |idx: &[usize], rep: &mut Report| {
        let biggest = idx.iter().map(|&x| t[x].1.len()).max().unwrap_or(0);
        let len = plan.merging.len_for(biggest, idx.len());
        let tables: Vec<Table> = idx.iter().map(|&x| private(&t[x].1)).collect();
        let id = fam_id(1, idx, 0);
        check_case(&runner, &Case::Merging { tables: tables.clone() }, id, len, rep, findings);
        if plan.reversed_len > 0 && idx.len() >= 2 {
            let mut rev = tables;
            rev.reverse();
            let len = len.min(plan.reversed_len);
            check_case(&runner, &Case::Merging { tables: rev }, fam_id(1, idx, 1), len, rep, findings);
        }
    };
    let concat = |idx: &[usize], rep: &mut Report| {
        let biggest = idx.iter().map(|&x| t[x].1.len()).max().unwrap_or(0);
        let len = plan.concat.len_for(biggest, idx.len());
        let tables: Vec<Table> = idx.iter().map(|&x| private(&t[x].1)).collect();
        check_case(&runner, &Case::Concat { tables }, fam_id(2, idx, 0), len, rep, findings);
    };
    match item {
        Item::MergingNone => merging(&[], rep),
        Item::Merging1(i) => merging(&[*i], rep),
        Item::Merging2(i, j) => {
            let (i, j) = (*i, *j);
            merging(&[i, j], rep);
            if plan.max_tables >= 3 {
                let n = plan.count_upto(plan.merging.max_entries());
                for k in j..n {
                    if (t[i].0 | t[j].0) & t[k].0 == 0 {
                        merging(&[i, j, k], rep);
                    }
                }
            }
        }
        Item::Concat1(i) => concat(&[*i], rep),
        Item::Concat2(i, j) => {
            let (i, j) = (*i, *j);
            concat(&[i, j], rep);
            if plan.max_tables >= 3 {
                let n = plan.count_upto(plan.concat.max_entries());
                let last = t[j].1.last().or(t[i].1.last());
                for k in 0..n {
                    if concat_ok(last, &t[k].1) {
                        concat(&[i, j, k], rep);
                    }
                }
            }
        }
        Item::Bounds(i) => {
            let table = &private(&t[*i].1);
            let len = plan.bounds_t.len_for(table.len(), 1);
            for (si, start) in plan.bounds.iter().enumerate() {
                for (ei, end) in plan.bounds.iter().enumerate() {
                    let case = Case::Bounds {
                        table: table.clone(),
                        start: start.clone(),
                        end: end.clone(),
                    };
                    check_case(&runner, &case, fam_id(3, &[*i, si, ei], 0), len, rep, findings);
                }
            }
        }
        Item::Pruning(i) => {
            let table = &private(&t[*i].1);
            let len = plan.pruning.len_for(table.len(), 1);
            for ts in READ_TS {
                let case = Case::Pruning {
                    table: table.clone(),
                    ts,
                };
                check_case(&runner, &case, fam_id(4, &[*i], ts), len, rep, findings);
            }
        }
        Item::Lazy(i) => {
            let table = &t[*i].1;
            let len = plan.lazy.len_for(table.len(), 1);
            let case = Case::Lazy {
                table: table.clone(),
            };
            check_case(&runner, &case, fam_id(5, &[*i], 0), len, rep, findings);
        }
    }
}

fn main() {
    let args = Args::parse();
    vcore::quiet_panics();
    if let Some(rf) = args.replay_case() {
        replay(&rf);
        return;
    }
    let thorough = args.tier_thorough();
    let tiers = |name: &str, quick: &str, thorough_default: &str| {
        Tiers::parse(args.get(name).unwrap_or(if thorough { thorough_default } else { quick }))
    };
    let merging = tiers("merging", "2:3", "2:2:5,2:3:4,3:3:3");
    let concat = tiers("concat", "2:3", "2:2:5,2:3:4,3:3:3");
    let bounds_t = tiers("bounds", "3:3", "2:5,3:4,4:3");
    let pruning = tiers("pruning", "4:3", "4:5,5:4");
    let lazy = tiers("lazy", "3:3", "3:5,4:4");
    let biggest = [&merging, &concat, &bounds_t, &pruning, &lazy]
        .iter()
        .map(|t| t.max_entries())
        .max()
        .unwrap();
    let plan = Plan {
        tables: all_tables(biggest),
        bounds: all_bounds(),
        max_tables: args.usize("tables", 3),
        merging,
        concat,
        bounds_t,
        pruning,
        lazy,
        reversed_len: args.usize("reversed-len", 2),
    };
    let only: Option<Vec<String>> = args
        .get("only")
        .map(|s| s.split(',').map(|x| x.to_string()).collect());
    let want = |n: &str| only.as_ref().map(|o| o.iter().any(|x| x == n)).unwrap_or(true);
    let t = &plan.tables;
    let mut items: Vec<Item> = vec![];
    // the big family enumerations first (so the tail of the run is made of small items), each
    // with small tables first
    if want("merging") {
        let n = plan.count_upto(plan.merging.max_entries());
        items.push(Item::MergingNone);
        items.extend((0..n).map(Item::Merging1));
        if plan.max_tables >= 2 {
            for i in 0..n {
                for j in i..n {
                    if t[i].0 & t[j].0 == 0 {
                        items.push(Item::Merging2(i, j));
                    }
                }
            }
        }
    }
    if want("concat") {
        let n = plan.count_upto(plan.concat.max_entries());
        items.extend((0..n).map(Item::Concat1));
        if plan.max_tables >= 2 {
            for i in 0..n {
                for j in 0..n {
                    if concat_ok(t[i].1.last(), &t[j].1) {
                        items.push(Item::Concat2(i, j));
                    }
                }
            }
        }
    }
    if want("bounds") {
        items.extend((0..plan.count_upto(plan.bounds_t.max_entries())).map(Item::Bounds));
    }
    if want("pruning") {
        items.extend((0..plan.count_upto(plan.pruning.max_entries())).map(Item::Pruning));
    }
    if want("lazy") {
        items.extend((0..plan.count_upto(plan.lazy.max_entries())).map(Item::Lazy));
    }
    let findings = Findings::new();
    let mk = || Report::new("seq_cursor", "C11");
    let mut total = vcore::parallel(items, args.threads(), mk, |item, rep| {
        work(&plan, item, rep, &findings);
    });
    findings.into_report(&mut total);
    total.bound = json!({
        "child_entry_universe": "keys {a,b,c} x timestamps {0, 2, u64::MAX} x {value, tombstone}; children are Vec-backed cursors with sst::reference::ReferenceCursor semantics",
        "merging": format!("every multiset of 0..={} child tables, pairwise disjoint in (key, timestamp); {}; children in ascending table order, and in reversed order with programs <= {}", plan.max_tables, plan.merging.describe(), plan.reversed_len),
        "concat": format!("every sequence of 1..={} child tables whose concatenation is strictly sorted (empty tables anywhere, tombstone-only tables, and -- as the separately labelled class [key-split-across-tables] -- one key's versions split across adjacent tables); {}", plan.max_tables, plan.concat.describe()),
        "bounds": format!("every single table x all 49 pairs over {{Unbounded, Included/Excluded a|b|c}} (inverted and empty intervals are labelled [empty-interval]); {}", plan.bounds_t.describe()),
        "pruning": format!("every single table x read timestamps {:?}; {}", READ_TS, plan.pruning.describe()),
        "lazy": format!("every single table, written as a real SST on tmpfs; {}", plan.lazy.describe()),
        "program_alphabet": moves().iter().map(|m| m.name()).collect::<Vec<_>>(),
        "tables_by_max_entries": (0..=biggest).map(|n| plan.count_upto(n)).collect::<Vec<_>>(),
    });
    total.rule = "evaluation = one (combinator, table family, bounds / read timestamp) case, for which every cursor program up to the length bound is run from a freshly constructed real combinator and compared with an index into the reference vector after its last call (every prefix is itself an enumerated program); distinct = case identity; non-trivial = the case holds >= 2 entries and has two non-empty tables, a tombstone, two versions of one key or a real bound; outcomes = distinct observations (key, timestamp, value / end sentinel / error / panic) returned by the real cursors".into();
    total.assumptions = vec![
        "child cursors have the saturating ReferenceCursor semantics (seek_to_first = before the first entry)".into(),
        "programs start from a freshly constructed combinator".into(),
    ];
    if total.outcomes.len() <= 1 {
        eprintln!("seq_cursor: vacuous run (one distinct outcome)");
        std::process::exit(2);
    }
    total.finish(&args, "seq_cursor");
}

fn replay(rf: &Value) {
    let cj = &rf["case"];
    let case = Case::from_json(cj);
    let program = moves_from_json(&cj["program"]);
    let spec = case.spec();
    let mv = moves();
    let scratch = Scratch::new("replay");
    let runner = Runner {
        moves: &mv,
        scratch: Some(&scratch),
    };
    let mut rep = Report::new("replay", "C11");
    println!("case:      {}", case.describe());
    println!("reference: {}", fmt_entries(&spec));
    println!("program:   [{}]", fmt_program(&program));
    let out = runner.run(&case, &spec, &What::One(&program), &mut rep);
    let got = out.single.unwrap_or(Err(Fail::Construct("subject could not be built".into())));
    let expected = ref_run(&spec, &program);
    println!("expected:  {}", fmt_entry(&expected));
    println!("observed:  {}", fmt_observed(&got));
    drop(scratch); // process::exit skips destructors
    match classify(&expected, &got, &spec) {
        Some(kind) => {
            println!("REPRODUCED {}", signature(&case, &kind, &program));
            std::process::exit(1);
        }
        None => {
            println!("no failure: the real cursor agrees with the reference on this case");
            std::process::exit(0);
        }
    }
}
