//! C10: blocks and SSTs return exactly what was put in, under every cursor movement.
//!
//!   seq_sst --tier quick --out report.json
//!   seq_sst --replay replays/C10/....json
//!
//! Enumerated: every strictly increasing sequence of <= n entries of a 20-entry universe x the
//! builder option grid, for Block and Sst; for each sealed table every cursor program of length
//! <= L, every (key, timestamp) point lookup, and the metadata.  Plus: size-limit and ordering
//! rejection cases, multi-block tables, SstMultiBuilder.

use std::path::Path;

use arrrg::CommandLine;
use sst::block::{Block, BlockBuilder, BlockBuilderOptions};
use sst::{Builder, Sst, SstBuilder, SstMultiBuilder, SstOptions};
use sstmc::*;
use vcore::{Args, Report, Scratch, Value, Violation, json};

const UNIVERSE_KEYS: [&[u8]; 6] = [b"", b"a", b"a\0", b"ab", b"b", b"\xff"];
const LOAD_TS: [u64; 5] = [0, 1, 2, 3, u64::MAX];
const BIG: usize = 1400;

///////////////////////////////////////////// universe /////////////////////////////////////////////

#[derive(Clone, Copy)]
enum Kind {
    Small,
    Big,
    Tomb,
}

fn mk_spec(key: &[u8], ts: u64, kind: Kind, id: u8) -> Spec {
    Spec {
        key: Bytes::lit(key),
        ts,
        value: match kind {
            Kind::Small => Some(Bytes::Lit(format!("s{id}").into_bytes())),
            Kind::Big => Some(Bytes::Generated { seed: id, len: BIG }),
            Kind::Tomb => None,
        },
    }
}

/// 20 entries in sst order: 6 keys (empty, prefixes of each other, adjacent in the last byte,
/// 0xff) x timestamps {MAX, 2, 1, 0} x {small put, 1.4 KiB put, tombstone}; of the 72 combinations
/// those are kept that give every key >= 3 versions, every key every kind at least once across
/// the boundary timestamps 0 and MAX, and every kind at every timestamp.
fn universe() -> Vec<Spec> {
    use Kind::*;
    const M: u64 = u64::MAX;
    let raw: Vec<(&[u8], u64, Kind)> = vec![
        (b"", M, Small),
        (b"", 1, Tomb),
        (b"", 0, Small),
        (b"a", M, Small),
        (b"a", 2, Tomb),
        (b"a", 1, Big),
        (b"a", 0, Small),
        (b"a\0", 2, Small),
        (b"a\0", 1, Big),
        (b"a\0", 0, Tomb),
        (b"ab", M, Tomb),
        (b"ab", 1, Small),
        (b"ab", 0, Big),
        (b"b", M, Small),
        (b"b", 2, Big),
        (b"b", 1, Tomb),
        (b"b", 0, Small),
        (b"\xff", M, Big),
        (b"\xff", 2, Tomb),
        (b"\xff", 0, Small),
    ];
    let u: Vec<Spec> = raw
        .iter()
        .enumerate()
        .map(|(i, (k, t, kind))| mk_spec(k, *t, *kind, i as u8))
        .collect();
    for w in u.windows(2) {
        assert!(entry_order(&w[0].entry(), &w[1].entry()) == std::cmp::Ordering::Less);
    }
    u
}

///////////////////////////////////////////// options //////////////////////////////////////////////

#[derive(Clone, Copy, Debug, PartialEq, Eq, Hash)]
struct Opt {
    bytes: u32,
    pairs: u32,
    /// None: block (no filter)
    bloom: Option<u8>,
}

impl Opt {
    fn block(&self) -> BlockBuilderOptions {
        BlockBuilderOptions::default()
            .bytes_restart_interval(self.bytes)
            .key_value_pairs_restart_interval(self.pairs)
    }

    fn sst(&self) -> SstOptions {
        // bloom_filter_bits has no setter; the public command-line parser is the way in
        let bits = self.bloom.unwrap_or(17).to_string();
        let (o, _) = SstOptions::from_arguments_relaxed("", &["--bloom-filter-bits", &bits]);
        o.block(self.block()).target_block_size(4096)
    }

    fn to_json(&self) -> Value {
        json!({"bytes_restart_interval": self.bytes, "pairs_restart_interval": self.pairs, "bloom_filter_bits": self.bloom})
    }

    fn from_json(v: &Value) -> Opt {
        Opt {
            bytes: v["bytes_restart_interval"].as_u64().unwrap() as u32,
            pairs: v["pairs_restart_interval"].as_u64().unwrap() as u32,
            bloom: v["bloom_filter_bits"].as_u64().map(|x| x as u8),
        }
    }
}

fn option_grid(sst: bool) -> Vec<Opt> {
    let mut v = vec![];
    for bytes in [1u32, 1024] {
        for pairs in [1u32, 2, 16] {
            if sst {
                for bloom in [0u8, 17] {
                    v.push(Opt {
                        bytes,
                        pairs,
                        bloom: Some(bloom),
                    });
                }
            } else {
                v.push(Opt {
                    bytes,
                    pairs,
                    bloom: None,
                });
            }
        }
    }
    v
}

////////////////////////////////////////////// a case //////////////////////////////////////////////

#[derive(Clone, Copy, Debug, PartialEq, Eq, Hash)]
enum Subject {
    Block,
    Sst,
    /// SstMultiBuilder with the minimum target file size; `split_hints`: call split_hint() between keys
    Multi { split_hints: bool },
}

impl Subject {
    fn name(&self) -> &'static str {
        match self {
            Subject::Block => "block",
            Subject::Sst => "sst",
            Subject::Multi { .. } => "multi",
        }
    }
}

#[derive(Clone)]
struct Case {
    subject: Subject,
    specs: Vec<Spec>,
    opt: Opt,
    len: usize,
    seek_keys: Vec<Vec<u8>>,
}

impl Case {
    fn to_json(&self) -> Value {
        json!({
            "subject": self.subject.name(),
            "split_hints": matches!(self.subject, Subject::Multi { split_hints: true }),
            "specs": specs_to_json(&self.specs),
            "options": self.opt.to_json(),
            "len": self.len,
            "seek_keys": self.seek_keys.iter().map(|k| vcore::esc(k)).collect::<Vec<_>>(),
        })
    }

    fn from_json(v: &Value) -> Case {
        Case {
            subject: match v["subject"].as_str().unwrap() {
                "block" => Subject::Block,
                "sst" => Subject::Sst,
                _ => Subject::Multi {
                    split_hints: v["split_hints"].as_bool().unwrap_or(false),
                },
            },
            specs: specs_from_json(&v["specs"]),
            opt: Opt::from_json(&v["options"]),
            len: v["len"].as_u64().unwrap() as usize,
            seek_keys: v["seek_keys"]
                .as_array()
                .unwrap()
                .iter()
                .map(|k| unesc(k.as_str().unwrap()))
                .collect(),
        }
    }

    fn moves(&self) -> Vec<Move> {
        let mut m = vec![Move::First, Move::Last];
        m.extend(self.seek_keys.iter().map(|k| Move::Seek(k.clone())));
        m.push(Move::Next);
        m.push(Move::Prev);
        m
    }
}

struct Finding {
    sig: String,
    detail: String,
}

#[derive(Default)]
struct CaseStats {
    builder_calls: u64,
    prog: ProgStats,
    loads: u64,
    /// valid input that a builder refused: (structural class, example)
    spurious: Vec<(String, String)>,
    tables: u64,
}

fn short_entry(e: &Entry) -> String {
    fmt_entry(&Some(Entry {
        key: if e.key.len() > 24 {
            format!("<{} byte key>", e.key.len()).into_bytes()
        } else {
            e.key.clone()
        },
        ts: e.ts,
        value: e.value.clone(),
    }))
}

fn short_entries(es: &[Entry]) -> String {
    format!(
        "[{}]",
        es.iter().map(short_entry).collect::<Vec<_>>().join(" ")
    )
}

/// Why the builder must refuse `e` after `last` (independent statement of the contract), if so.
fn must_reject(last: Option<&Entry>, e: &Entry) -> Option<&'static str> {
    if e.key.len() > (1 << 14) {
        return Some("oversize-key");
    }
    if e.value.as_ref().map(|v| v.len() > (1 << 15)).unwrap_or(false) {
        return Some("oversize-value");
    }
    if let Some(l) = last {
        match entry_order(l, e) {
            std::cmp::Ordering::Less => {}
            std::cmp::Ordering::Equal => return Some("duplicate-key-timestamp"),
            std::cmp::Ordering::Greater => {
                return Some(if l.key == e.key {
                    "out-of-order-timestamp"
                } else {
                    "out-of-order-key"
                });
            }
        }
    }
    None
}

/// Feed the builder; returns the entries it accepted.  A wrongly accepted entry is a finding.
fn feed<B: Builder>(
    b: &mut B,
    entries: &[Entry],
    subject: &str,
    findings: &mut Vec<Finding>,
    stats: &mut CaseStats,
    mut between: impl FnMut(&mut B, &Entry, Option<&Entry>) -> Result<(), sst::SError>,
) -> Vec<Entry> {
    let mut accepted: Vec<Entry> = vec![];
    for (i, e) in entries.iter().enumerate() {
        stats.builder_calls += 1;
        let r = vcore::catch(|| match &e.value {
            Some(v) => b.put(&e.key, e.ts, v),
            None => b.del(&e.key, e.ts),
        });
        let call = if e.value.is_some() { "put" } else { "del" };
        let want = must_reject(accepted.last(), e);
        match (r, want) {
            (Err(p), _) => findings.push(Finding {
                sig: format!("c10:{subject}-builder:panic({})", normalise_panic(&p)),
                detail: format!("{call} of {} panicked: {p}", short_entry(e)),
            }),
            (Ok(Ok(())), Some(why)) => {
                findings.push(Finding {
                    sig: format!("c10:{subject}-builder:accepts-{why}:{call}"),
                    detail: format!(
                        "{call} of {} after {} must be refused ({why}) but returned Ok",
                        short_entry(e),
                        short_entries(&accepted)
                    ),
                });
                // whatever it wrote, the table is no longer described by `accepted`
                accepted.push(e.clone());
            }
            (Ok(Ok(())), None) => accepted.push(e.clone()),
            (Ok(Err(_)), Some(_)) => {}
            (Ok(Err(err)), None) => {
                let class = format!(
                    "{subject}-builder refuses valid {call}: {}{}{} -> {}",
                    if accepted.is_empty() { "first entry, " } else { "" },
                    if e.key.is_empty() { "empty key, " } else { "" },
                    if e.ts == u64::MAX { "timestamp u64::MAX" } else { "other timestamp" },
                    err_code(&err)
                );
                stats
                    .spurious
                    .push((class, format!("{} after {}", short_entry(e), short_entries(&accepted))));
            }
        }
        if let Err(err) = between(b, e, entries.get(i + 1)) {
            findings.push(Finding {
                sig: format!("c10:{subject}-builder:split-hint-error({})", err_code(&err)),
                detail: format!("split_hint after {} failed: {err}", short_entry(e)),
            });
        }
    }
    accepted
}

fn class_of(accepted: &[Entry]) -> &'static str {
    if accepted.is_empty() { "[empty-table]" } else { "" }
}

fn program_findings(
    subject: &str,
    accepted: &[Entry],
    failures: Vec<ProgramFailure>,
    findings: &mut Vec<Finding>,
) {
    for f in failures {
        findings.push(Finding {
            sig: format!(
                "c10:{subject}{}:{}:{}",
                class_of(accepted),
                f.kind,
                shape(&f.program)
            ),
            detail: format!(
                "{subject} built from {}; program [{}]: expected {} but the real cursor gives {}",
                short_entries(accepted),
                fmt_program(&f.program),
                fmt_entry(&f.expected),
                fmt_observed(&f.got)
            ),
        });
    }
}

/// newest version of `key` with timestamp <= ts
fn ref_load<'a>(accepted: &'a [Entry], key: &[u8], ts: u64) -> Option<&'a Entry> {
    accepted
        .iter()
        .filter(|e| e.key == key && e.ts <= ts)
        .max_by_key(|e| e.ts)
}

fn load_findings(
    subject: &str,
    accepted: &[Entry],
    keys: &[Vec<u8>],
    mut load: impl FnMut(&[u8], u64, &mut bool) -> Result<Option<Vec<u8>>, sst::SError>,
    outcomes: &mut std::collections::HashSet<u64>,
    findings: &mut Vec<Finding>,
    stats: &mut CaseStats,
) {
    for key in keys {
        for ts in LOAD_TS {
            stats.loads += 1;
            let want = ref_load(accepted, key, ts);
            let want_class = match want {
                None => "nothing",
                Some(e) if e.value.is_none() => "tombstone",
                Some(_) => "value",
            };
            let mut tomb = false;
            let got = vcore::catch(|| load(key, ts, &mut tomb));
            let got_class = match &got {
                Err(p) => format!("panic({})", normalise_panic(p)),
                Ok(Err(e)) => format!("error({})", err_code(e)),
                Ok(Ok(None)) => if tomb { "tombstone" } else { "nothing" }.to_string(),
                Ok(Ok(Some(v))) => {
                    if tomb {
                        "value-flagged-tombstone".to_string()
                    } else if want.and_then(|e| e.value.as_ref()) == Some(v) {
                        "value".to_string()
                    } else {
                        "other-value".to_string()
                    }
                }
            };
            outcomes.insert(vcore::stable_hash(&(2u8, &got_class, key.len(), ts)));
            if got_class != want_class {
                findings.push(Finding {
                    sig: format!(
                        "c10:{subject}-load{}:expected-{want_class}-got-{got_class}",
                        class_of(accepted)
                    ),
                    detail: format!(
                        "{subject} built from {}; load({}, {ts}): expected {} ({want_class}) but got {got_class}",
                        short_entries(accepted),
                        vcore::esc(key),
                        want.map(short_entry).unwrap_or("nothing".into()),
                    ),
                });
            }
        }
    }
}

fn metadata_findings(
    subject: &str,
    sst: &Sst,
    path: &Path,
    accepted: &[Entry],
    findings: &mut Vec<Finding>,
) {
    let md = match vcore::catch(|| sst.metadata()) {
        Err(p) => {
            findings.push(Finding {
                sig: format!("c10:{subject}-metadata{}:panic({})", class_of(accepted), normalise_panic(&p)),
                detail: format!("metadata() panicked: {p}"),
            });
            return;
        }
        Ok(Err(e)) => {
            findings.push(Finding {
                sig: format!("c10:{subject}-metadata{}:error({})", class_of(accepted), err_code(&e)),
                detail: format!("metadata() of a table built from {} failed: {e}", short_entries(accepted)),
            });
            return;
        }
        Ok(Ok(md)) => md,
    };
    let mut bad = |field: &str, want: String, got: String| {
        findings.push(Finding {
            sig: format!("c10:{subject}-metadata{}:{field}", class_of(accepted)),
            detail: format!(
                "{subject} built from {}: metadata.{field} = {got}, contents say {want}",
                short_entries(accepted)
            ),
        });
    };
    // independent recomputation of the setsum over what went in
    let mut ss = sst::Setsum::default();
    for e in accepted {
        match &e.value {
            Some(v) => ss.put(&e.key, e.ts, v),
            None => ss.del(&e.key, e.ts),
        }
    }
    if md.setsum != ss.digest() {
        bad("setsum", ss.hexdigest(), sst::Setsum::from_digest(md.setsum).hexdigest());
    }
    if sst.fast_setsum().digest() != ss.digest() {
        bad("fast_setsum", ss.hexdigest(), sst.fast_setsum().hexdigest());
    }
    match std::fs::metadata(path) {
        Ok(m) => {
            if m.len() != md.file_size {
                bad("file_size", m.len().to_string(), md.file_size.to_string());
            }
        }
        Err(e) => bad("file_size", format!("stat failed: {e}"), md.file_size.to_string()),
    }
    // first/last key and the timestamp range of an empty table are not determined by "describes
    // exactly its contents"; they are only checked for tables that hold something.
    if let (Some(first), Some(last)) = (accepted.first(), accepted.last()) {
        if md.first_key != first.key {
            bad("first_key", vcore::esc(&first.key), vcore::esc(&md.first_key));
        }
        if md.last_key != last.key {
            bad("last_key", vcore::esc(&last.key), vcore::esc(&md.last_key));
        }
        let lo = accepted.iter().map(|e| e.ts).min().unwrap();
        let hi = accepted.iter().map(|e| e.ts).max().unwrap();
        if md.smallest_timestamp != lo {
            bad("smallest_timestamp", lo.to_string(), md.smallest_timestamp.to_string());
        }
        if md.biggest_timestamp != hi {
            bad("biggest_timestamp", hi.to_string(), md.biggest_timestamp.to_string());
        }
    }
}

/// programs + point lookups + metadata of one open SST against the entries it must hold
fn check_open_sst(
    subject: &str,
    sst: &Sst,
    path: &Path,
    accepted: &[Entry],
    case: &Case,
    len: usize,
    outcomes: &mut std::collections::HashSet<u64>,
    findings: &mut Vec<Finding>,
    stats: &mut CaseStats,
) {
    stats.tables += 1;
    let moves = case.moves();
    let failures = run_programs(
        &mut || Ok(sst.cursor()),
        accepted,
        &moves,
        len,
        outcomes,
        &mut stats.prog,
    );
    program_findings(subject, accepted, failures, findings);
    load_findings(
        subject,
        accepted,
        &case.seek_keys,
        |k, ts, tomb| sst.load(k, ts, tomb),
        outcomes,
        findings,
        stats,
    );
    metadata_findings(subject, sst, path, accepted, findings);
}

fn seal_finding(subject: &str, accepted: &[Entry], r: Result<sst::SError, String>) -> Finding {
    match r {
        Ok(e) => Finding {
            sig: format!("c10:{subject}-seal{}:error({})", class_of(accepted), err_code(&e)),
            detail: format!(
                "seal() of a {subject} builder that accepted {} failed: {e}",
                short_entries(accepted)
            ),
        },
        Err(p) => Finding {
            sig: format!("c10:{subject}-seal{}:panic({})", class_of(accepted), normalise_panic(&p)),
            detail: format!(
                "seal() of a {subject} builder that accepted {} panicked: {p}",
                short_entries(accepted)
            ),
        },
    }
}

/// Run one case from scratch on the real code.
fn run_case(
    case: &Case,
    entries: &[Entry],
    scratch: &Scratch,
    outcomes: &mut std::collections::HashSet<u64>,
    stats: &mut CaseStats,
) -> Vec<Finding> {
    let mut findings: Vec<Finding> = vec![];
    let subject = case.subject.name();
    match case.subject {
        Subject::Block => {
            let mut b = BlockBuilder::new(case.opt.block());
            let accepted = feed(&mut b, entries, subject, &mut findings, stats, |_, _, _| Ok(()));
            let block: Block = match vcore::catch(|| b.seal()) {
                Ok(Ok(b)) => b,
                Ok(Err(e)) => {
                    findings.push(seal_finding(subject, &accepted, Ok(e)));
                    return findings;
                }
                Err(p) => {
                    findings.push(seal_finding(subject, &accepted, Err(p)));
                    return findings;
                }
            };
            stats.tables += 1;
            let moves = case.moves();
            let failures = run_programs(
                &mut || Ok(block.cursor()),
                &accepted,
                &moves,
                case.len,
                outcomes,
                &mut stats.prog,
            );
            program_findings(subject, &accepted, failures, &mut findings);
            load_findings(
                subject,
                &accepted,
                &case.seek_keys,
                |k, ts, tomb| block.load(k, ts, tomb),
                outcomes,
                &mut findings,
                stats,
            );
        }
        Subject::Sst => {
            let path = scratch.sub("t.sst");
            let _ = std::fs::remove_file(&path);
            let mut b = match SstBuilder::new(case.opt.sst(), &path) {
                Ok(b) => b,
                Err(e) => {
                    findings.push(Finding {
                        sig: format!("c10:sst-builder:new-error({})", err_code(&e)),
                        detail: format!("{e}"),
                    });
                    return findings;
                }
            };
            let accepted = feed(&mut b, entries, subject, &mut findings, stats, |_, _, _| Ok(()));
            match vcore::catch(|| b.seal()) {
                Ok(Ok(sst)) => {
                    check_open_sst(
                        subject, &sst, &path, &accepted, case, case.len, outcomes, &mut findings,
                        stats,
                    );
                }
                Ok(Err(e)) => findings.push(seal_finding(subject, &accepted, Ok(e))),
                Err(p) => findings.push(seal_finding(subject, &accepted, Err(p))),
            }
            let _ = std::fs::remove_file(&path);
        }
        Subject::Multi { split_hints } => {
            let dir = scratch.sub("multi");
            let _ = std::fs::remove_dir_all(&dir);
            std::fs::create_dir_all(&dir).expect("mkdir");
            let opts = case.opt.sst().target_file_size(4096).minimum_file_size(4096);
            let mut b = SstMultiBuilder::new(dir.clone(), ".sst".to_string(), opts.clone());
            let accepted = feed(&mut b, entries, subject, &mut findings, stats, |b, e, next| {
                match next {
                    Some(n) if split_hints && n.key != e.key => b.split_hint(),
                    _ => Ok(()),
                }
            });
            let paths = match vcore::catch(|| b.seal()) {
                Ok(Ok(p)) => p,
                Ok(Err(e)) => {
                    findings.push(seal_finding(subject, &accepted, Ok(e)));
                    return findings;
                }
                Err(p) => {
                    findings.push(seal_finding(subject, &accepted, Err(p)));
                    return findings;
                }
            };
            // the files, in order, must partition the accepted input
            let mut offset = 0usize;
            let mut ok = true;
            let mut opened: Vec<(Sst, std::path::PathBuf, usize, usize)> = vec![];
            for p in paths.iter() {
                let sst = match Sst::<sst::file_manager::FileHandle>::new(opts.clone(), p) {
                    Ok(s) => s,
                    Err(e) => {
                        findings.push(Finding {
                            sig: format!("c10:multi:open-error({})", err_code(&e)),
                            detail: format!("output file of SstMultiBuilder cannot be opened: {e}"),
                        });
                        ok = false;
                        break;
                    }
                };
                // forward enumeration tells which slice of the input this file claims
                let mut c = sst.cursor();
                let mut n = 0usize;
                let walked = (|| -> Result<(), sst::SError> {
                    use sst::Cursor;
                    c.seek_to_first()?;
                    c.next()?;
                    while c.key().is_some() {
                        n += 1;
                        c.next()?;
                    }
                    Ok(())
                })();
                if let Err(e) = walked {
                    findings.push(Finding {
                        sig: format!("c10:multi:walk-error({})", err_code(&e)),
                        detail: format!("forward walk of an output file failed: {e}"),
                    });
                    ok = false;
                    break;
                }
                opened.push((sst, p.clone(), offset, n));
                offset += n;
            }
            if ok && offset != accepted.len() {
                findings.push(Finding {
                    sig: "c10:multi:entry-count".to_string(),
                    detail: format!(
                        "SstMultiBuilder accepted {} entries but its {} files hold {}",
                        accepted.len(),
                        paths.len(),
                        offset
                    ),
                });
                ok = false;
            }
            if ok {
                outcomes.insert(vcore::stable_hash(&(3u8, opened.len())));
                for (sst, p, off, n) in opened.iter() {
                    check_open_sst(
                        subject,
                        sst,
                        p,
                        &accepted[*off..*off + *n],
                        case,
                        case.len.min(3),
                        outcomes,
                        &mut findings,
                        stats,
                    );
                }
            }
            drop(opened);
            let _ = std::fs::remove_dir_all(&dir);
        }
    }
    findings
}

/// one finding per signature and case (the first, e.g. the first failing lookup)
fn dedupe(findings: &mut Vec<Finding>) {
    let mut seen = std::collections::HashSet::new();
    findings.retain(|f| seen.insert(f.sig.clone()));
}

/// Run, and on findings run again (replay before report); record what failed identically twice.
fn check_case(case: &Case, scratch: &Scratch, rep: &mut Report, found: &Findings) {
    let entries: Vec<Entry> = case.specs.iter().map(|s| s.entry()).collect();
    let mut stats = CaseStats::default();
    let mut findings = run_case(case, &entries, scratch, &mut rep.outcomes, &mut stats);
    dedupe(&mut findings);
    rep.evaluations += 1;
    rep.traces_validated += 1;
    rep.transitions += stats.builder_calls + stats.prog.calls + stats.loads;
    rep.count("builder_calls", stats.builder_calls);
    rep.count("cursor_programs", stats.prog.programs);
    rep.count("cursor_calls", stats.prog.calls);
    rep.count("failing_programs", stats.prog.failing_programs);
    rep.count("flaky_programs", stats.prog.flaky_programs);
    rep.count("point_lookups", stats.loads);
    rep.count("sealed_tables", stats.tables);
    rep.count(&format!("cases_{}", case.subject.name()), 1);
    for (class, example) in stats.spurious.iter() {
        rep.count(&format!("note: {class}"), 1);
        rep.notes
            .entry(format!("example: {class}"))
            .or_insert(Value::String(example.clone()));
    }
    if findings.is_empty() {
        return;
    }
    rep.count("cases_with_findings", 1);
    let mut again_stats = CaseStats::default();
    let mut scratch_outcomes = std::collections::HashSet::new();
    let mut again = run_case(case, &entries, scratch, &mut scratch_outcomes, &mut again_stats);
    dedupe(&mut again);
    let total: usize = entries.iter().map(|e| e.key.len() + e.value.as_ref().map(|v| v.len()).unwrap_or(0)).sum();
    let metric = (entries.len() as u64) * 1_000_000 + total as u64;
    for f in findings {
        if !again.iter().any(|g| g.sig == f.sig && g.detail == f.detail) {
            rep.count("non_reproducible_findings", 1);
            continue;
        }
        if found.wants(&f.sig, metric) {
            found.record(
                metric,
                Violation {
                    property: "C10".into(),
                    signature: f.sig,
                    detail: format!("{} [options {}]", f.detail, case.opt.to_json()),
                    case: case.to_json(),
                },
            );
        } else {
            found.bump(&f.sig);
        }
    }
}

////////////////////////////////////////// the enumeration //////////////////////////////////////////

/// "n:L,n:L": sequences with <= n entries get programs up to L (the longest applicable L wins)
fn len_for(plan: &[(usize, usize)], size: usize) -> usize {
    plan.iter()
        .filter(|(n, _)| *n >= size)
        .map(|(_, l)| *l)
        .max()
        .unwrap_or(0)
}

fn subsets(n: usize, k: usize) -> Vec<Vec<usize>> {
    fn rec(n: usize, k: usize, start: usize, cur: &mut Vec<usize>, out: &mut Vec<Vec<usize>>) {
        if cur.len() == k {
            out.push(cur.clone());
            return;
        }
        for i in start..n {
            cur.push(i);
            rec(n, k, i + 1, cur, out);
            cur.pop();
        }
    }
    let mut out = vec![];
    rec(n, k, 0, &mut vec![], &mut out);
    out
}

fn universe_keys() -> Vec<Vec<u8>> {
    UNIVERSE_KEYS.iter().map(|k| k.to_vec()).collect()
}

/// Build, seal and read back one block of `n` entries (keys = big-endian counters, one-byte
/// values, a restart point at every entry).  Returns the number of cursor calls made.
fn big_block(n: usize) -> Result<u64, String> {
    use sst::Cursor;
    let opts = BlockBuilderOptions::default().bytes_restart_interval(1).key_value_pairs_restart_interval(1);
    let mut b = BlockBuilder::new(opts);
    for i in 0..n {
        b.put(&(i as u32).to_be_bytes(), 1, b"v").map_err(|e| format!("put #{i} refused: {e}"))?;
    }
    let block: Block = b.seal().map_err(|e| format!("seal failed: {e}"))?;
    let mut calls = 0u64;
    let mut c = block.cursor();
    c.seek_to_first().map_err(|e| format!("seek_to_first: {e}"))?;
    let mut seen = 0usize;
    loop {
        c.next().map_err(|e| format!("next after {seen} entries: {e}"))?;
        calls += 1;
        match c.key() {
            None => break,
            Some(k) => {
                if k.key != (seen as u32).to_be_bytes() {
                    return Err(format!("entry #{seen} has key {}", vcore::esc(k.key)));
                }
                seen += 1;
            }
        }
    }
    if seen != n {
        return Err(format!("forward walk saw {seen} of {n} entries"));
    }
    if n > 0 {
        c.seek_to_last().map_err(|e| format!("seek_to_last: {e}"))?;
        c.prev().map_err(|e| format!("seek_to_last; prev: {e}"))?;
        match c.key() {
            Some(k) if k.key == ((n - 1) as u32).to_be_bytes() => {}
            other => return Err(format!("seek_to_last; prev is at {:?}", other.map(|k| vcore::esc(k.key)))),
        }
        c.seek(&[0xff; 5]).map_err(|e| format!("seek past the last key: {e}"))?;
        if c.key().is_some() {
            return Err("seek past the last key found an entry".into());
        }
        let mid = (n / 2) as u32;
        c.seek(&mid.to_be_bytes()).map_err(|e| format!("seek(middle): {e}"))?;
        match c.key() {
            Some(k) if k.key == mid.to_be_bytes() => {}
            other => return Err(format!("seek(middle) is at {:?}", other.map(|k| vcore::esc(k.key)))),
        }
        calls += 5;
    }
    Ok(calls)
}

/// Hand-built tables: size limits, multi-block layouts.  (name, specs, extra seek keys)
fn special_tables() -> Vec<(&'static str, Vec<Spec>, Vec<Vec<u8>>)> {
    use Kind::*;
    let big = |id: u8| Some(Bytes::Generated { seed: id, len: BIG });
    let lit = |s: &[u8]| Bytes::lit(s);
    let max_key = Bytes::Fill { byte: b'k', len: 1 << 14 };
    let mut v: Vec<(&'static str, Vec<Spec>, Vec<Vec<u8>>)> = vec![];
    v.push((
        "max-value-len",
        vec![
            mk_spec(b"", 1, Small, 1),
            Spec { key: lit(b"a"), ts: 1, value: Some(Bytes::Generated { seed: 7, len: 1 << 15 }) },
            Spec { key: lit(b"a"), ts: 0, value: Some(Bytes::Generated { seed: 8, len: 1 << 15 }) },
            mk_spec(b"b", 1, Tomb, 2),
        ],
        vec![],
    ));
    v.push((
        "max-key-len",
        vec![
            mk_spec(b"a", 1, Small, 1),
            Spec { key: max_key.clone(), ts: 2, value: Some(lit(b"v")) },
            Spec { key: max_key.clone(), ts: 1, value: None },
            Spec { key: max_key.clone(), ts: 0, value: big(3) },
            mk_spec(b"l", 1, Small, 2),
        ],
        vec![max_key.materialize()],
    ));
    v.push((
        "oversize-key-put-and-del",
        vec![
            mk_spec(b"a", 2, Small, 1),
            Spec { key: Bytes::Fill { byte: b'k', len: (1 << 14) + 1 }, ts: 1, value: Some(lit(b"v")) },
            Spec { key: Bytes::Fill { byte: b'k', len: (1 << 14) + 1 }, ts: 1, value: None },
            mk_spec(b"l", 1, Tomb, 2),
        ],
        vec![],
    ));
    v.push((
        "oversize-value",
        vec![
            mk_spec(b"a", 2, Small, 1),
            Spec { key: lit(b"b"), ts: 1, value: Some(Bytes::Generated { seed: 9, len: (1 << 15) + 1 }) },
            mk_spec(b"c", 1, Small, 2),
        ],
        vec![],
    ));
    v.push((
        "oversize-first-entry",
        vec![
            Spec { key: Bytes::Fill { byte: b'k', len: (1 << 14) + 1 }, ts: 1, value: None },
            Spec { key: lit(b"b"), ts: 1, value: Some(Bytes::Generated { seed: 9, len: (1 << 15) + 1 }) },
        ],
        vec![],
    ));
    // eight keys with one 1.4 KiB version each: blocks of three entries
    v.push((
        "multiblock-eight-keys",
        (0..8u8)
            .map(|i| Spec { key: Bytes::Lit(vec![b'k', b'0' + i]), ts: 5, value: big(i) })
            .collect(),
        vec![b"k".to_vec(), b"k3".to_vec(), b"k30".to_vec(), b"k5".to_vec(), b"k6".to_vec(), b"k8".to_vec()],
    ));
    // fourteen entries of 4.2 KiB: with the minimum target file size SstMultiBuilder cuts one
    // output file per entry, i.e. more than ten files (0.sst .. 13.sst: the files must come back
    // in the order in which they were cut, which is not the lexicographic order of their names)
    v.push((
        "multiblock-fourteen-files",
        (0..14u8)
            .map(|i| Spec { key: Bytes::Lit(vec![b'k', b'a' + i]), ts: 5, value: Some(Bytes::Generated { seed: 40 + i, len: 4200 }) })
            .collect(),
        vec![b"k".to_vec(), b"kb".to_vec(), b"kk".to_vec(), b"kn".to_vec(), b"kz".to_vec()],
    ));
    // one key whose versions straddle several blocks (dividing keys differ only in the timestamp)
    {
        let mut s = vec![mk_spec(b"", 1, Small, 1)];
        let kinds = [Big, Big, Tomb, Big, Big, Big, Tomb, Big, Small];
        for (i, k) in kinds.iter().enumerate() {
            s.push(mk_spec(b"a", 9 - i as u64, *k, 10 + i as u8));
        }
        s.push(mk_spec(b"a\0", 1, Small, 30));
        s.push(mk_spec(b"\xff", u64::MAX, Big, 31));
        v.push(("multiblock-one-key-many-versions", s, vec![b"a\0\0".to_vec(), b"\xff\xff".to_vec()]));
    }
    // tombstone runs at block edges, prefixes and last-byte neighbours across block boundaries
    v.push((
        "multiblock-boundaries",
        vec![
            mk_spec(b"a", 3, Small, 1),
            mk_spec(b"a", 2, Tomb, 2),
            mk_spec(b"a", 1, Tomb, 3),
            mk_spec(b"a\0", 2, Big, 4),
            mk_spec(b"a\0", 1, Big, 5),
            mk_spec(b"a\x01", 1, Big, 6),
            mk_spec(b"ab", u64::MAX, Tomb, 7),
            mk_spec(b"ab", 2, Tomb, 8),
            mk_spec(b"ab", 1, Tomb, 9),
            mk_spec(b"ab", 0, Small, 10),
            mk_spec(b"b", 1, Big, 11),
            mk_spec(b"b", 0, Big, 12),
            mk_spec(b"ba", 1, Big, 13),
            mk_spec(b"\xff", 2, Big, 14),
            mk_spec(b"\xff", 1, Tomb, 15),
        ],
        vec![b"a\x01".to_vec(), b"a\x01\x00".to_vec(), b"a\x02".to_vec(), b"ba".to_vec(), b"c".to_vec()],
    ));
    v
}

enum Item {
    /// indices into the universe: strictly increasing sequence
    Seq(Vec<usize>),
    /// universe[i] followed by universe[j] with j <= i (must be refused), then optionally universe[k]
    Reject(usize, usize, Option<usize>),
    Special(usize),
}

struct Plan {
    universe: Vec<Spec>,
    specials: Vec<(&'static str, Vec<Spec>, Vec<Vec<u8>>)>,
    seq_plan: Vec<(usize, usize)>,
    special_len: usize,
    reject_len: usize,
}

fn work(plan: &Plan, item: &Item, rep: &mut Report, found: &Findings) {
    let scratch = Scratch::new("sst");
    let run_all = |specs: Vec<Spec>, len: usize, keys: Vec<Vec<u8>>, multi: bool, rep: &mut Report| {
        for opt in option_grid(false) {
            check_case(
                &Case { subject: Subject::Block, specs: specs.clone(), opt, len, seek_keys: keys.clone() },
                &scratch, rep, found,
            );
        }
        for opt in option_grid(true) {
            check_case(
                &Case { subject: Subject::Sst, specs: specs.clone(), opt, len, seek_keys: keys.clone() },
                &scratch, rep, found,
            );
        }
        if multi {
            for opt in option_grid(true).into_iter().filter(|o| o.bloom == Some(17)) {
                for split_hints in [false, true] {
                    check_case(
                        &Case {
                            subject: Subject::Multi { split_hints },
                            specs: specs.clone(),
                            opt,
                            len,
                            seek_keys: keys.clone(),
                        },
                        &scratch, rep, found,
                    );
                }
            }
        }
    };
    match item {
        Item::Seq(idx) => {
            let specs: Vec<Spec> = idx.iter().map(|&i| plan.universe[i].clone()).collect();
            let id = vcore::stable_hash(&(1u8, idx));
            rep.states.insert(id);
            let entries: Vec<Entry> = specs.iter().map(|s| s.entry()).collect();
            let mut keys: Vec<&Vec<u8>> = entries.iter().map(|e| &e.key).collect();
            let nk = keys.len();
            keys.dedup();
            let prefix = keys.windows(2).any(|w| w[1].starts_with(w[0]));
            if entries.len() >= 2
                && (keys.len() < nk || prefix || entries.iter().any(|e| e.value.is_none()))
            {
                rep.nontrivial.insert(id);
            }
            if rep.states.len() % 1009 == 1 {
                rep.sample(json!({"sequence": specs_to_json(&specs)}));
            }
            let len = len_for(&plan.seq_plan, idx.len());
            run_all(specs, len, universe_keys(), false, rep);
        }
        Item::Reject(i, j, k) => {
            let mut specs = vec![plan.universe[*i].clone(), plan.universe[*j].clone()];
            if let Some(k) = k {
                specs.push(plan.universe[*k].clone());
            }
            rep.states.insert(vcore::stable_hash(&(2u8, i, j, k)));
            rep.nontrivial.insert(vcore::stable_hash(&(2u8, i, j, k)));
            run_all(specs, plan.reject_len, universe_keys(), false, rep);
        }
        Item::Special(i) => {
            let (name, specs, extra) = &plan.specials[*i];
            rep.states.insert(vcore::stable_hash(&(3u8, i)));
            rep.nontrivial.insert(vcore::stable_hash(&(3u8, i)));
            let mut keys: Vec<Vec<u8>> = specs.iter().map(|s| s.key.materialize()).filter(|k| k.len() <= 1 << 14).collect();
            keys.extend(extra.iter().cloned());
            keys.push(b"".to_vec());
            keys.push(b"\xff\xff".to_vec());
            keys.sort();
            keys.dedup();
            rep.sample(json!({"special": name, "entries": specs.len()}));
            run_all(specs.clone(), plan.special_len, keys, name.starts_with("multiblock"), rep);
        }
    }
}

fn main() {
    let args = Args::parse();
    vcore::quiet_panics();
    if let Some(rf) = args.replay_case() {
        replay(&rf);
        return;
    }
    let thorough = args.tier_thorough();
    let seq_plan: Vec<(usize, usize)> = args
        .get("plan")
        .unwrap_or(if thorough { "2:5,3:4,5:3" } else { "3:3" })
        .split(',')
        .map(|p| {
            let (a, b) = p.split_once(':').expect("plan wants n:L");
            (a.parse().unwrap(), b.parse().unwrap())
        })
        .collect();
    let plan = Plan {
        universe: universe(),
        specials: special_tables(),
        seq_plan: seq_plan.clone(),
        special_len: args.usize("special-len", if thorough { 4 } else { 3 }),
        reject_len: args.usize("reject-len", 2),
    };
    let n_max = seq_plan.iter().map(|p| p.0).max().unwrap();
    let u = plan.universe.len();
    let only = args.get("only");
    let want = |n: &str| only.map(|o| o.split(',').any(|x| x == n)).unwrap_or(true);
    let mut items: Vec<Item> = vec![];
    // the heavy hand-built tables first (long single items), then small to large
    if want("special") {
        items.extend((0..plan.specials.len()).map(Item::Special));
    }
    if want("seq") {
        for n in 0..=n_max {
            items.extend(subsets(u, n).into_iter().map(Item::Seq));
        }
    }
    if want("reject") {
        for i in 0..u {
            for j in 0..=i {
                items.push(Item::Reject(i, j, None));
                // a valid entry after the refused one: the builder must still be usable and clean
                if i + 1 < u {
                    items.push(Item::Reject(i, j, Some(i + 1)));
                }
            }
        }
    }
    let n_items = items.len();
    let mut total_extra: Option<Report> = None;
    let found = Findings::new();
    // one block with a restart point per entry and n tiny entries, for n around the counts at
    // which the length prefix of the restart array grows by a byte (2^7, 2^14 and 2^21 bytes of
    // array, i.e. about 32, 4096 and 524288 restart points): walked forward completely, entered
    // from the end, sought past the last key and at the middle
    let mut big_blocks = 0u64;
    if want("bigblock") {
        let ns: Vec<usize> = (28..=36).chain(4090..=4100).chain(524280..=524292).collect();
        let rep = vcore::parallel(ns, args.threads(), || Report::new("seq_sst", "C10"), |n, rep| {
            rep.evaluations += 1;
            rep.traces_validated += 1;
            rep.count("big_blocks", 1);
            rep.states.insert(vcore::stable_hash(&("bigblock", *n)));
            let r = vcore::catch(|| big_block(*n));
            let bad = match r {
                Err(p) => Some(format!("panic: {p}")),
                Ok(Err(e)) => Some(e),
                Ok(Ok(calls)) => {
                    rep.transitions += calls;
                    None
                }
            };
            rep.outcomes.insert(vcore::stable_hash(&("bigblock", bad.is_some())));
            if let Some(e) = bad {
                // replay before report
                if matches!(vcore::catch(|| big_block(*n)), Ok(Ok(_))) {
                    rep.count("non_reproducible_findings", 1);
                    return;
                }
                let class = if *n < 1000 { "2^7" } else if *n < 100000 { "2^14" } else { "2^21" };
                found.record(*n as u64, Violation {
                    property: "C10".into(),
                    signature: format!("c10:block:restart-array-of-about-{class}-bytes"),
                    detail: format!("a block of {n} one-byte-value entries with a restart point per entry: {e}"),
                    case: json!({"kind": "bigblock", "n": n}),
                });
            }
        });
        big_blocks = rep.evaluations;
        total_extra = Some(rep);
    }
    let mk = || Report::new("seq_sst", "C10");
    let mut total = vcore::parallel(items, args.threads(), mk, |item, rep| {
        work(&plan, item, rep, &found);
    });
    if let Some(r) = total_extra {
        total.merge(r);
    }
    found.into_report(&mut total);
    total.bound = json!({
        "universe": plan.universe.iter().map(|s| short_entry(&s.entry())).collect::<Vec<_>>(),
        "sequences": format!("every strictly increasing (key ascending, timestamp descending) sequence of <= {n_max} of the 20 universe entries, the empty sequence included"),
        "sequence_plan": seq_plan.iter().map(|(n, l)| format!("sequences with <= {n} entries: cursor programs <= {l}")).collect::<Vec<_>>(),
        "options": {"bytes_restart_interval": [1, 1024], "key_value_pairs_restart_interval": [1, 2, 16], "target_block_size": 4096, "bloom_filter_bits (sst)": [0, 17]},
        "subjects": ["BlockBuilder/Block/BlockCursor/Block::load", "SstBuilder/Sst/SstCursor/Sst::load/Sst::metadata", "SstMultiBuilder (multi-block tables, target file size 4096, with and without split_hint)"],
        "programs": "every program over {seek_to_first, seek_to_last, seek(k) for the 6 universe keys, next, prev} up to the stated length, each from a fresh cursor",
        "point_lookups": "load(key, ts) for the 6 keys x ts in {0,1,2,3,u64::MAX}",
        "rejections": "every ordered pair (e_i, e_j) of universe entries with e_j <= e_i (duplicates included), alone and followed by a valid entry; oversize key (put, del), oversize value, oversize first entry",
        "special_tables": plan.specials.iter().map(|(n, s, _)| format!("{n} ({} entries)", s.len())).collect::<Vec<_>>(),
        "special_program_len": plan.special_len,
        "big_blocks": format!("{big_blocks} blocks of n one-byte-value entries with a restart point at every entry, n in 28..=36, 4090..=4100 and 524280..=524292 (the restart array crossing 2^7, 2^14 and 2^21 bytes): full forward walk, seek_to_last+prev, seek past the end, seek(middle)"),
        "work_items": n_items,
    });
    total.rule = "evaluation = one (entry sequence, builder options, subject) case built from scratch by the real builder and checked with all cursor programs, all point lookups and the metadata; distinct = the entry sequence; non-trivial = >= 2 entries with two versions of one key, a key that is a prefix of its successor, or a tombstone (rejection and hand-built cases are all non-trivial); outcomes = distinct observations returned by the real cursors and lookups".into();
    total.assumptions = vec![
        "files live on tmpfs (/dev/shm)".into(),
        "a valid entry refused by a builder is counted under 'note:' counters, not as a violation: the property quantifies over accepted sequences".into(),
    ];
    if total.outcomes.len() <= 1 {
        eprintln!("seq_sst: vacuous run (one distinct outcome)");
        std::process::exit(2);
    }
    total.finish(&args, "seq_sst");
}

fn replay(rf: &Value) {
    let case = Case::from_json(&rf["case"]);
    let want = rf["signature"].as_str().unwrap_or("");
    let entries: Vec<Entry> = case.specs.iter().map(|s| s.entry()).collect();
    let scratch = Scratch::new("replay");
    println!(
        "replaying {} case: {} builder calls {}, options {}, programs <= {}",
        case.subject.name(),
        entries.len(),
        short_entries(&entries),
        case.opt.to_json(),
        case.len
    );
    let mut outcomes = std::collections::HashSet::new();
    let mut stats = CaseStats::default();
    let mut findings = run_case(&case, &entries, &scratch, &mut outcomes, &mut stats);
    dedupe(&mut findings);
    drop(scratch); // process::exit skips destructors
    let mut hit = false;
    for f in findings.iter() {
        println!("finding {}\n    {}", f.sig, f.detail);
        hit |= f.sig == want;
    }
    for (class, ex) in stats.spurious.iter() {
        println!("note: {class}: {ex}");
    }
    if findings.is_empty() {
        println!(
            "no finding: {} programs, {} lookups agree with the reference",
            stats.prog.programs, stats.loads
        );
        std::process::exit(0);
    }
    if hit {
        println!("REPRODUCED {want}");
    }
    std::process::exit(1);
}
