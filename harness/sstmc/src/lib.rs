// shared helpers for the sstmc harness binaries
