//! Shared helpers for the sstmc harness binaries (seq_sst: C10, seq_cursor: C11).
//!
//! * `VecCursor`: a Vec-backed `sst::Cursor` with exactly the movement semantics of
//!   `sst::reference::ReferenceCursor` (positions -1..=n, saturating).  It is the *child* cursor
//!   handed to the combinators under test; it is not the oracle.
//! * `ref_apply` / `ref_current`: the oracle, an index into a sorted slice.
//! * `run_programs`: every cursor program of length 1..=L over a move alphabet, executed from a
//!   fresh subject cursor, compared after the last call; panics and errors are outcomes.
//! * `Findings`: process-wide map signature -> (count, smallest witness).

use std::collections::{BTreeMap, HashSet};
use std::sync::{Arc, Mutex};

use sst::Cursor;

pub use seqmc::refcursor::{Entry, Move, bump, entry_order, fmt_entry, observe, unesc};
use vcore::{Value, Violation, json};

//////////////////////////////////////////// byte specs ////////////////////////////////////////////

/// Bytes that are either spelled out or generated (so that replay files stay small).
#[derive(Clone, Debug, PartialEq, Eq, Hash, PartialOrd, Ord)]
pub enum Bytes {
    Lit(Vec<u8>),
    /// `len` bytes, byte i = seed + 31*i (mod 251), never all equal.
    Generated { seed: u8, len: usize },
    /// `len` copies of one byte.
    Fill { byte: u8, len: usize },
}

impl Bytes {
    pub fn lit(s: &[u8]) -> Bytes {
        Bytes::Lit(s.to_vec())
    }

    pub fn materialize(&self) -> Vec<u8> {
        match self {
            Bytes::Lit(v) => v.clone(),
            Bytes::Generated { seed, len } => (0..*len)
                .map(|i| ((*seed as usize + 31 * i) % 251) as u8)
                .collect(),
            Bytes::Fill { byte, len } => vec![*byte; *len],
        }
    }

    pub fn to_json(&self) -> Value {
        match self {
            Bytes::Lit(v) => json!({"lit": vcore::esc(v)}),
            Bytes::Generated { seed, len } => json!({"gen": [seed, len]}),
            Bytes::Fill { byte, len } => json!({"fill": [byte, len]}),
        }
    }

    pub fn from_json(v: &Value) -> Bytes {
        if let Some(s) = v.get("lit") {
            Bytes::Lit(unesc(s.as_str().unwrap()))
        } else if let Some(g) = v.get("gen") {
            Bytes::Generated {
                seed: g[0].as_u64().unwrap() as u8,
                len: g[1].as_u64().unwrap() as usize,
            }
        } else if let Some(g) = v.get("fill") {
            Bytes::Fill {
                byte: g[0].as_u64().unwrap() as u8,
                len: g[1].as_u64().unwrap() as usize,
            }
        } else {
            panic!("bad bytes spec {v}");
        }
    }
}

/// One builder call: put (value Some) or del (value None).
#[derive(Clone, Debug, PartialEq, Eq, Hash)]
pub struct Spec {
    pub key: Bytes,
    pub ts: u64,
    pub value: Option<Bytes>,
}

impl Spec {
    pub fn entry(&self) -> Entry {
        Entry {
            key: self.key.materialize(),
            ts: self.ts,
            value: self.value.as_ref().map(|v| v.materialize()),
        }
    }

    pub fn from_entry(e: &Entry) -> Spec {
        Spec {
            key: Bytes::Lit(e.key.clone()),
            ts: e.ts,
            value: e.value.as_ref().map(|v| Bytes::Lit(v.clone())),
        }
    }

    pub fn to_json(&self) -> Value {
        json!({
            "key": self.key.to_json(),
            "ts": self.ts,
            "value": self.value.as_ref().map(|v| v.to_json()),
        })
    }

    pub fn from_json(v: &Value) -> Spec {
        Spec {
            key: Bytes::from_json(&v["key"]),
            ts: v["ts"].as_u64().unwrap(),
            value: if v["value"].is_null() {
                None
            } else {
                Some(Bytes::from_json(&v["value"]))
            },
        }
    }
}

pub fn specs_to_json(s: &[Spec]) -> Value {
    Value::Array(s.iter().map(|x| x.to_json()).collect())
}

pub fn specs_from_json(v: &Value) -> Vec<Spec> {
    v.as_array().unwrap().iter().map(Spec::from_json).collect()
}

pub fn entries_to_json(s: &[Entry]) -> Value {
    Value::Array(s.iter().map(|x| Spec::from_entry(x).to_json()).collect())
}

pub fn entries_from_json(v: &Value) -> Vec<Entry> {
    specs_from_json(v).iter().map(|s| s.entry()).collect()
}

pub fn moves_to_json(p: &[Move]) -> Value {
    Value::Array(p.iter().map(|m| Value::String(m.name())).collect())
}

pub fn moves_from_json(v: &Value) -> Vec<Move> {
    v.as_array()
        .unwrap()
        .iter()
        .map(|m| Move::parse(m.as_str().unwrap()))
        .collect()
}

//////////////////////////////////////////// VecCursor /////////////////////////////////////////////

/// Vec-backed child cursor with the ReferenceCursor semantics of sst/src/reference.rs.
#[derive(Clone, Debug)]
pub struct VecCursor {
    entries: Arc<Vec<Entry>>,
    index: isize,
}

impl VecCursor {
    /// `entries` must be sorted in sst order (key ascending, timestamp descending).
    pub fn new(entries: Arc<Vec<Entry>>) -> Self {
        debug_assert!(
            entries
                .windows(2)
                .all(|w| entry_order(&w[0], &w[1]) == std::cmp::Ordering::Less)
        );
        VecCursor { entries, index: -1 }
    }
}

impl Cursor for VecCursor {
    fn seek_to_first(&mut self) -> Result<(), sst::SError> {
        self.index = -1;
        Ok(())
    }

    fn seek_to_last(&mut self) -> Result<(), sst::SError> {
        self.index = self.entries.len() as isize;
        Ok(())
    }

    fn seek(&mut self, key: &[u8]) -> Result<(), sst::SError> {
        // first entry >= (key, u64::MAX): timestamps sort descending, so that is the first entry
        // whose key is >= key.
        self.index = self.entries.partition_point(|e| e.key.as_slice() < key) as isize;
        Ok(())
    }

    fn prev(&mut self) -> Result<(), sst::SError> {
        self.index -= 1;
        if self.index < 0 {
            self.index = -1;
        }
        Ok(())
    }

    fn next(&mut self) -> Result<(), sst::SError> {
        self.index += 1;
        if self.index as usize >= self.entries.len() {
            self.index = self.entries.len() as isize;
        }
        Ok(())
    }

    fn key(&self) -> Option<sst::KeyRef<'_>> {
        if self.index < 0 || self.index as usize >= self.entries.len() {
            None
        } else {
            let e = &self.entries[self.index as usize];
            Some(sst::KeyRef {
                key: &e.key,
                timestamp: e.ts,
            })
        }
    }

    fn value(&self) -> Option<&[u8]> {
        if self.index < 0 || self.index as usize >= self.entries.len() {
            None
        } else {
            self.entries[self.index as usize].value.as_deref()
        }
    }
}

////////////////////////////////////////////// oracle //////////////////////////////////////////////

/// The reference cursor is an index -1..=n into a sorted slice.
pub fn ref_apply(entries: &[Entry], idx: isize, m: &Move) -> isize {
    let n = entries.len() as isize;
    match m {
        Move::First => -1,
        Move::Last => n,
        Move::Seek(k) => entries
            .iter()
            .position(|e| e.key.as_slice() >= k.as_slice())
            .map(|p| p as isize)
            .unwrap_or(n),
        Move::Next => (idx + 1).min(n),
        Move::Prev => (idx - 1).max(-1),
        Move::ToEnd => n,
    }
}

pub fn ref_current(entries: &[Entry], idx: isize) -> Option<&Entry> {
    if idx < 0 || idx >= entries.len() as isize {
        None
    } else {
        Some(&entries[idx as usize])
    }
}

pub fn ref_run(entries: &[Entry], program: &[Move]) -> Option<Entry> {
    let mut idx = -1;
    for m in program {
        idx = ref_apply(entries, idx, m);
    }
    ref_current(entries, idx).cloned()
}

////////////////////////////////////////// program runner //////////////////////////////////////////

#[derive(Clone, Debug, PartialEq, Eq)]
pub enum Fail {
    /// a call returned Err: (error code, name of the call, its index in the program)
    Error(String, String, usize),
    /// the subject panicked
    Panic(String),
    /// the subject could not be constructed
    Construct(String),
}

pub type Observed = Result<Option<Entry>, Fail>;

pub fn err_code(e: &sst::SError) -> String {
    sst::error_code(e).unwrap_or("unknown-error").to_string()
}

/// Digits carry data; keep panic messages structural.
pub fn normalise_panic(s: &str) -> String {
    let mut out = String::new();
    let mut last_hash = false;
    for c in s.chars().take(160) {
        if c.is_ascii_digit() {
            if !last_hash {
                out.push('#');
            }
            last_hash = true;
        } else {
            last_hash = false;
            out.push(if c == '\n' { ' ' } else { c });
        }
    }
    out
}

/// Run one program on a fresh subject.  Returns the observation after the last call and the number
/// of cursor calls made.
pub fn run_one<'m, C: Cursor>(
    mk: &mut dyn FnMut() -> Result<C, String>,
    program: impl IntoIterator<Item = &'m Move>,
) -> (Observed, u64) {
    let mut calls = 0u64;
    let r = vcore::catch(|| -> Observed {
        let mut c = mk().map_err(Fail::Construct)?;
        for (i, m) in program.into_iter().enumerate() {
            calls += 1;
            m.apply(&mut c)
                .map_err(|e| Fail::Error(err_code(&e), m.name(), i))?;
        }
        Ok(observe(&c))
    });
    match r {
        Ok(o) => (o, calls),
        Err(p) => (Err(Fail::Panic(normalise_panic(&p))), calls),
    }
}

/// Structural failure kind, or None when the observation matches.
/// `spec` is the full reference table (to tell a foreign entry from a misplaced one).
pub fn classify(expected: &Option<Entry>, got: &Observed, spec: &[Entry]) -> Option<String> {
    match got {
        Err(Fail::Error(code, _, _)) => Some(format!("error-returned({code})")),
        Err(Fail::Panic(m)) => Some(format!("panic({m})")),
        Err(Fail::Construct(m)) => Some(format!("construct-failed({})", normalise_panic(m))),
        Ok(g) => match (expected, g) {
            (None, None) => None,
            (Some(e), Some(g)) if e == g => None,
            (Some(e), Some(g)) if e.key == g.key && e.ts == g.ts => {
                let _ = e;
                Some("wrong-value".to_string())
            }
            (Some(_), None) => Some("missing-key".to_string()),
            (exp, Some(g)) => {
                let in_spec = spec.iter().any(|s| s.key == g.key && s.ts == g.ts);
                if !in_spec {
                    Some("extra-key".to_string())
                } else {
                    // a valid entry, but not the one the reference is positioned on
                    let _ = exp;
                    Some("wrong-order".to_string())
                }
            }
        },
    }
}

/// Movement shape of a program: seek arguments dropped, runs of one movement collapsed.
pub fn shape(program: &[Move]) -> String {
    let mut parts: Vec<String> = vec![];
    let mut last: Option<(&'static str, usize)> = None;
    let flush = |parts: &mut Vec<String>, last: &mut Option<(&'static str, usize)>| {
        if let Some((n, c)) = last.take() {
            parts.push(if c > 1 { format!("{n}+") } else { n.to_string() });
        }
    };
    for m in program {
        let n = match m {
            Move::First => "seek_to_first",
            Move::Last => "seek_to_last",
            Move::Seek(_) => "seek",
            Move::Next => "next",
            Move::Prev => "prev",
            Move::ToEnd => "to_end",
        };
        match &mut last {
            Some((ln, c)) if *ln == n => *c += 1,
            _ => {
                flush(&mut parts, &mut last);
                last = Some((n, 1));
            }
        }
    }
    flush(&mut parts, &mut last);
    parts.join(",")
}

#[derive(Clone, Debug)]
pub struct ProgramFailure {
    pub kind: String,
    pub program: Vec<Move>,
    pub expected: Option<Entry>,
    pub got: Observed,
}

#[derive(Default, Clone, Debug)]
pub struct ProgStats {
    pub programs: u64,
    pub calls: u64,
    pub failing_programs: u64,
    /// programs whose fast execution mismatched but whose full re-execution matched
    pub flaky_programs: u64,
}

fn outcome_hash(o: &Observed) -> u64 {
    match o {
        Ok(None) => 1,
        Ok(Some(e)) => vcore::stable_hash(&(
            &e.key[..e.key.len().min(8)],
            e.key.len(),
            e.ts,
            e.value.as_ref().map(|v| (v.len(), v.first().copied())),
        )),
        Err(f) => vcore::stable_hash(&format!("{f:?}")),
    }
}

/// Every program of length 1..=max_len over `moves`, shortest first; each from a fresh subject.
/// Returns the first (= shortest) failure of every failure kind.
pub fn run_programs<C: Cursor>(
    mk: &mut dyn FnMut() -> Result<C, String>,
    spec: &[Entry],
    moves: &[Move],
    max_len: usize,
    outcomes: &mut HashSet<u64>,
    stats: &mut ProgStats,
) -> Vec<ProgramFailure> {
    let mut failures: Vec<ProgramFailure> = vec![];
    let mut idxs: Vec<usize> = vec![];
    // seek targets are fixed per move: resolve them once
    let seek_pos: Vec<isize> = moves.iter().map(|m| ref_apply(spec, -1, m)).collect();
    let n = spec.len() as isize;
    for len in 1..=max_len {
        idxs.clear();
        idxs.resize(len, 0);
        loop {
            stats.programs += 1;
            let mut ridx: isize = -1;
            for &i in idxs.iter() {
                ridx = match &moves[i] {
                    Move::Next => (ridx + 1).min(n),
                    Move::Prev => (ridx - 1).max(-1),
                    _ => seek_pos[i],
                };
            }
            let expected = ref_current(spec, ridx);
            // fast path: run, compare the borrowed key/value in place, hash the observation
            let mut calls = 0u64;
            let mut fast_hash = 0u64;
            let fast = vcore::catch(|| -> Option<bool> {
                let mut c = mk().ok()?;
                for &i in idxs.iter() {
                    calls += 1;
                    moves[i].apply(&mut c).ok()?;
                }
                let k = c.key();
                let v = c.value();
                fast_hash = match &k {
                    None => 1,
                    Some(k) => vcore::stable_hash(&(
                        &k.key[..k.key.len().min(8)],
                        k.key.len(),
                        k.timestamp,
                        v.map(|v| (v.len(), v.first().copied())),
                    )),
                };
                Some(match (k, expected) {
                    (None, None) => true,
                    (Some(k), Some(e)) => {
                        k.key == e.key.as_slice() && k.timestamp == e.ts && v == e.value.as_deref()
                    }
                    _ => false,
                })
            });
            stats.calls += calls;
            if let Ok(Some(true)) = fast {
                outcomes.insert(fast_hash);
            } else {
                // slow path: anything unusual is re-run with full bookkeeping
                let (got, calls) = run_one(mk, idxs.iter().map(|&i| &moves[i]));
                stats.calls += calls;
                let expected = expected.cloned();
                outcomes.insert(outcome_hash(&got));
                if let Some(kind) = classify(&expected, &got, spec) {
                    stats.failing_programs += 1;
                    if !failures.iter().any(|f| f.kind == kind) {
                        failures.push(ProgramFailure {
                            kind,
                            program: idxs.iter().map(|&i| moves[i].clone()).collect(),
                            expected,
                            got,
                        });
                    }
                } else {
                    // the two executions of one program disagree
                    stats.flaky_programs += 1;
                }
            }
            if !bump(&mut idxs, moves.len()) {
                break;
            }
        }
    }
    failures
}

pub fn fmt_observed(o: &Observed) -> String {
    match o {
        Ok(e) => fmt_entry(e),
        Err(Fail::Error(code, call, i)) => format!("Err({code}) from call #{i} {call}"),
        Err(Fail::Panic(m)) => format!("PANIC: {m}"),
        Err(Fail::Construct(m)) => format!("could not construct the cursor: {m}"),
    }
}

pub fn fmt_program(p: &[Move]) -> String {
    p.iter().map(|m| m.name()).collect::<Vec<_>>().join(", ")
}

pub fn fmt_entries(es: &[Entry]) -> String {
    let v: Vec<String> = es.iter().map(|e| fmt_entry(&Some(e.clone()))).collect();
    format!("[{}]", v.join(" "))
}

///////////////////////////////////////////// Findings /////////////////////////////////////////////

/// signature -> (occurrences, size metric of the kept witness, witness); the smallest witness wins,
/// so the reported case is minimal within the enumerated space whatever the thread schedule.
#[derive(Default)]
pub struct Findings {
    map: Mutex<BTreeMap<String, (u64, u64, Violation)>>,
}

impl Findings {
    pub fn new() -> Self {
        Findings::default()
    }

    pub fn seen(&self, sig: &str) -> bool {
        self.map.lock().unwrap().contains_key(sig)
    }

    /// `metric`: smaller = simpler witness.
    pub fn record(&self, metric: u64, v: Violation) {
        let mut m = self.map.lock().unwrap();
        match m.get_mut(&v.signature) {
            Some(slot) => {
                slot.0 += 1;
                if metric < slot.1 {
                    slot.1 = metric;
                    slot.2 = v;
                }
            }
            None => {
                m.insert(v.signature.clone(), (1, metric, v));
            }
        }
    }

    /// Would this witness replace the kept one?  (lets callers skip building big JSON cases)
    pub fn wants(&self, sig: &str, metric: u64) -> bool {
        match self.map.lock().unwrap().get(sig) {
            Some(slot) => metric < slot.1,
            None => true,
        }
    }

    pub fn bump(&self, sig: &str) {
        if let Some(slot) = self.map.lock().unwrap().get_mut(sig) {
            slot.0 += 1;
        }
    }

    pub fn into_report(self, rep: &mut vcore::Report) {
        let m = self.map.into_inner().unwrap();
        for (sig, (n, _, v)) in m {
            rep.violation_sigs.insert(sig, n);
            rep.violations.push(v);
        }
    }
}

#[cfg(test)]
mod tests {
    use super::*;

    #[test]
    fn shapes() {
        assert_eq!(
            shape(&[Move::Seek(b"a".to_vec()), Move::Prev, Move::Prev, Move::Next]),
            "seek,prev+,next"
        );
    }
}
