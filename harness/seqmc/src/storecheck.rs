//! Oracles evaluated on a store state reached by a history.  Each returns findings
//! (signature, detail); an empty vector means the property held in this state.

use std::collections::{BTreeMap, BTreeSet, HashSet};
use std::path::Path;

use mani::ManifestIterator;
use setsum::Setsum;

use crate::refcursor::{Entry, Move, RefCursor, check_all_programs, fmt_entry, observe};
use crate::store::{
    Model, PROBE_KEYS, Store, bound_pairs, bounds_name, dump_sst, model_entries,
};

pub type Finding = (String, String);

fn kind(v: &Option<Vec<u8>>) -> &'static str {
    match v {
        None => "none",
        Some(_) => "value",
    }
}

/////////////////////////////////////////////// C01 ////////////////////////////////////////////////

/// Point reads equal the model on every probe key.
pub fn check_point_reads(st: &Store) -> Vec<Finding> {
    let mut out = vec![];
    for k in PROBE_KEYS.iter() {
        let expected: Option<Vec<u8>> = st.model.get(*k).cloned().unwrap_or(None);
        match st.load(k) {
            Err(e) => out.push((
                format!("c01:load-error:{}", short(&e)),
                format!("load({}) returned an error: {e}", vcore::esc(k)),
            )),
            Ok((got, _tomb)) => {
                if got != expected {
                    let how = match (&expected, &got) {
                        (Some(_), Some(_)) => "stale-or-wrong-value",
                        (Some(_), None) => "lost-value",
                        (None, Some(_)) => {
                            if st.model.contains_key(*k) {
                                "deleted-key-visible"
                            } else {
                                "never-written-key-visible"
                            }
                        }
                        (None, None) => unreachable!(),
                    };
                    out.push((
                        format!("c01:load:{how}"),
                        format!(
                            "load({}) = {} but the last completed write says {}; tree: {}",
                            vcore::esc(k),
                            fmtv(&got),
                            fmtv(&expected),
                            st.describe_tree()
                        ),
                    ));
                }
            }
        }
    }
    out
}

pub fn fmtv(v: &Option<Vec<u8>>) -> String {
    match v {
        None => "nothing".into(),
        Some(v) if v.len() > 24 => format!("<{} bytes {}..>", v.len(), vcore::esc(&v[..8])),
        Some(v) => format!("\"{}\"", vcore::esc(v)),
    }
}

pub fn short(e: &str) -> String {
    // keep the structural part of an error message: strip paths, digests and numbers
    let mut s = String::new();
    let mut last_digit = false;
    for c in e.chars().take(400) {
        if c.is_ascii_hexdigit() && (c.is_ascii_digit() || last_digit) {
            if !last_digit {
                s.push('#');
            }
            last_digit = true;
        } else {
            last_digit = false;
            if c == '\n' {
                s.push(' ');
            } else {
                s.push(c);
            }
        }
    }
    // cut at the first path-like token
    let s: String = s
        .split_whitespace()
        .filter(|w| !w.contains("/dev/shm") && !w.contains("/tmp"))
        .collect::<Vec<_>>()
        .join(" ");
    s.chars().take(100).collect()
}

/////////////////////////////////////////////// C03 ////////////////////////////////////////////////

pub fn scan_moves() -> Vec<Move> {
    vec![
        Move::Next,
        Move::Prev,
        Move::First,
        Move::Last,
        Move::Seek(b"".to_vec()),
        Move::Seek(b"a".to_vec()),
        Move::Seek(b"ab".to_vec()),
        Move::Seek(b"b".to_vec()),
        Move::Seek(b"c".to_vec()),
    ]
}

pub struct ScanStats {
    pub programs: u64,
    pub calls: u64,
    pub leaves: u64,
    pub distinct_read_states: u64,
    pub outcomes: HashSet<u64>,
}

/// For every pair of bounds: every cursor program up to `len_full` (for the listed `full` pairs)
/// or `len_rest` on a fresh scan must agree with the model restricted to the bounds; and scan
/// membership must agree with point reads.
pub fn check_scans(
    st: &Store,
    len_full: usize,
    len_rest: usize,
    stats: &mut ScanStats,
) -> Vec<Finding> {
    let mut out = vec![];
    let pairs = bound_pairs();
    let moves = scan_moves();
    for (bi, b) in pairs.iter().enumerate() {
        let reference = RefCursor::new(model_entries(&st.model, b));
        let len = if bi == 0 || bi == 8 || bi == 7 {
            len_full
        } else {
            len_rest
        };
        // (1) every program of length <= 2 from a fresh cursor (this includes programs that
        // begin with next/prev on the just-opened scan)
        let mut mk = || st.scan(bi);
        let (mut p, mut c, mut fail) =
            check_all_programs(&mut mk, &reference, &moves, 2.min(len), false, &mut stats.outcomes);
        // (2) every program of length <= len that begins with an absolute positioning call,
        // chained on one cursor
        if fail.is_none() {
            match st.scan(bi) {
                Err(e) => {
                    fail = Some(crate::refcursor::ProgramFailure { program: vec![], expected: None, got: Err(e) });
                }
                Ok(mut cur) => {
                    let (p2, c2, f2) = crate::refcursor::check_chained_programs(
                        &mut *cur,
                        &reference,
                        &moves,
                        len,
                        false,
                        &mut stats.outcomes,
                    );
                    p += p2;
                    c += c2;
                    fail = f2;
                }
            }
        }
        stats.programs += p;
        stats.calls += c;
        if let Some(f) = fail {
            let prog: Vec<String> = f.program.iter().map(|m| m.name()).collect();
            let what = match &f.got {
                Err(e) => format!("error:{}", short(e)),
                Ok(g) => classify_scan_mismatch(&st.model, &f.expected, g),
            };
            // movement shape without seek targets: the structural part of the program
            let shape: Vec<&str> = f
                .program
                .iter()
                .map(|m| match m {
                    Move::Seek(_) => "seek",
                    Move::First => "first",
                    Move::Last => "last",
                    Move::Next => "next",
                    Move::Prev => "prev",
                    Move::ToEnd => "to_end",
                })
                .collect();
            out.push((
                format!("c03:scan:{what}:{}", shape.join(",")),
                format!(
                    "range_scan({}) after [{}]: cursor shows {} but the model says {}; model={} tree: {}",
                    bounds_name(b),
                    prog.join(", "),
                    match &f.got {
                        Ok(g) => fmt_entry(g),
                        Err(e) => format!("error {e}"),
                    },
                    fmt_entry(&f.expected),
                    fmt_model(&st.model),
                    st.describe_tree()
                ),
            ));
            // one finding per state is enough; the other bounds usually repeat it
            break;
        }
    }
    out
}

fn classify_scan_mismatch(model: &Model, expected: &Option<Entry>, got: &Option<Entry>) -> String {
    match (expected, got) {
        (_, Some(g)) if model.get(&g.key).map(|v| v.is_none()).unwrap_or(false) => {
            "deleted-key-returned".to_string()
        }
        (_, Some(g)) if !model.contains_key(&g.key) => "never-written-key-returned".to_string(),
        (Some(e), Some(g)) if e.key == g.key => "wrong-value".to_string(),
        (Some(_), Some(_)) => "wrong-position".to_string(),
        (Some(_), None) => "missing-key".to_string(),
        (None, Some(_)) => "extra-key".to_string(),
        (None, None) => "none".to_string(),
    }
}

pub fn fmt_model(m: &Model) -> String {
    let parts: Vec<String> = m
        .iter()
        .map(|(k, v)| format!("{}={}", vcore::esc(k), fmtv(v)))
        .collect();
    format!("{{{}}}", parts.join(", "))
}

/////////////////////////////////////////////// C07 ////////////////////////////////////////////////

/// Every kept cursor shows what the model-at-open-time reference shows.
pub fn check_kept_cursors(st: &Store) -> Vec<Finding> {
    let mut out = vec![];
    for (i, kc) in st.cursors.iter().enumerate() {
        let got = match vcore::catch(|| observe(&*kc.cursor)) {
            Ok(g) => g,
            Err(p) => {
                out.push((
                    format!("c07:panic:{}", short(&p)),
                    format!("reading kept cursor {i} panicked: {p}"),
                ));
                continue;
            }
        };
        let expected = kc.reference.current().cloned();
        let same = match (&got, &expected) {
            (None, None) => true,
            (Some(a), Some(b)) => a.key == b.key && a.value == b.value,
            _ => false,
        };
        if !same {
            let how = match (&expected, &got) {
                (Some(e), Some(g)) if e.key == g.key => "value-changed-under-cursor",
                (_, Some(g))
                    if !kc.reference.entries.iter().any(|e| e.key == g.key) =>
                {
                    "key-not-in-snapshot"
                }
                (Some(_), None) => "snapshot-key-missing",
                _ => "wrong-position",
            };
            out.push((
                format!("c07:cursor:{how}"),
                format!(
                    "cursor {i} (bounds {}, opened at step {}) shows {} but the snapshot taken at open says {}; tree: {}",
                    bounds_name(&bound_pairs()[kc.bounds]),
                    kc.opened_at_step,
                    fmt_entry(&got),
                    fmt_entry(&expected),
                    st.describe_tree()
                ),
            ));
        }
    }
    out
}

/////////////////////////////////////////////// C04 ////////////////////////////////////////////////

pub struct Tx {
    pub fragment: String,
    pub index: usize,
    pub i: Option<Setsum>,
    pub o: Option<Setsum>,
    pub d: Option<Setsum>,
    pub added: Vec<String>,
    pub removed: Vec<String>,
}

pub fn fragments(dir: &Path) -> Vec<std::path::PathBuf> {
    let root = lsmtk::MANI_ROOT(dir);
    let mut ids = vec![];
    if let Ok(rd) = std::fs::read_dir(&root) {
        for e in rd.flatten() {
            if let Some(id) = mani::extract_backup(e.path()) {
                ids.push(id);
            }
        }
    }
    ids.sort();
    let mut v: Vec<_> = ids.into_iter().map(|i| mani::BACKUP(&root, i)).collect();
    v.push(mani::MANIFEST(&root));
    v
}

pub fn read_fragment(path: &Path) -> Result<Vec<Tx>, String> {
    let it = ManifestIterator::open(path).map_err(|e| e.to_string())?;
    let mut out = vec![];
    for (index, e) in it.enumerate() {
        let e = e.map_err(|e| format!("{}: {e}", path.display()))?;
        let g = |c: char| e.get_info(c).and_then(|s| Setsum::from_hexdigest(s));
        out.push(Tx {
            fragment: path.file_name().unwrap().to_string_lossy().to_string(),
            index,
            i: g('I'),
            o: g('O'),
            d: g('D'),
            added: e.added().cloned().collect(),
            removed: e.rmed().cloned().collect(),
        });
    }
    Ok(out)
}

/// (i) O of the last transaction = sum of setsums of listed SSTs = what the live tree lists;
/// (ii) each listed SST's recorded setsum = setsum recomputed from its entries;
/// (iii) every transaction I = O + D, I = previous O, D = removed - added, across fragments.
pub fn check_setsums(st: &Store) -> Vec<Finding> {
    let mut out = vec![];
    let frags = fragments(&st.dir);
    let mut prev_o: Option<Setsum> = None;
    let mut strs: BTreeSet<String> = BTreeSet::new();
    let mut last_o = None;
    for (fi, f) in frags.iter().enumerate() {
        let txs = match read_fragment(f) {
            Ok(t) => t,
            Err(e) => {
                out.push((
                    "c04:fragment-unreadable".into(),
                    format!("manifest fragment unreadable: {e}"),
                ));
                return out;
            }
        };
        for tx in txs.iter() {
            let (Some(i), Some(o), Some(d)) = (tx.i, tx.o, tx.d) else {
                out.push((
                    "c04:tx-missing-IOD".into(),
                    format!("{}#{} lacks I/O/D", tx.fragment, tx.index),
                ));
                continue;
            };
            if tx.index == 0 {
                // first edit of a fragment: either the very first transaction of the store or a
                // roll-up of the complete state.  Its O must continue the chain.
                if let Some(p) = prev_o {
                    if o != p {
                        out.push((
                            "c04:chain:rollup-output-differs".into(),
                            format!(
                                "{}#0 has O={} but the previous fragment ended with O={}",
                                tx.fragment,
                                o.hexdigest(),
                                p.hexdigest()
                            ),
                        ));
                    }
                    // a roll-up lists the complete state
                    let listed: BTreeSet<String> = tx.added.iter().cloned().collect();
                    if listed != strs {
                        out.push((
                            "c04:chain:rollup-state-differs".into(),
                            format!(
                                "{}#0 lists {} strings but the previous fragments leave {}",
                                tx.fragment,
                                listed.len(),
                                strs.len()
                            ),
                        ));
                    }
                    strs = listed;
                } else {
                    for a in tx.added.iter() {
                        strs.insert(a.clone());
                    }
                }
            } else {
                if let Some(p) = prev_o {
                    if i != p {
                        out.push((
                            "c04:chain:input-not-previous-output".into(),
                            format!(
                                "{}#{} has I={} but the previous transaction has O={}",
                                tx.fragment,
                                tx.index,
                                i.hexdigest(),
                                p.hexdigest()
                            ),
                        ));
                    }
                }
                if i != o + d {
                    out.push((
                        "c04:balance:I!=O+D".into(),
                        format!("{}#{} does not balance", tx.fragment, tx.index),
                    ));
                }
                let mut cd = Setsum::default();
                for a in tx.added.iter() {
                    if let Some(s) = Setsum::from_hexdigest(a) {
                        cd -= s;
                    }
                }
                for r in tx.removed.iter() {
                    if let Some(s) = Setsum::from_hexdigest(r) {
                        cd += s;
                    }
                }
                if cd != d {
                    out.push((
                        "c04:balance:D!=removed-added".into(),
                        format!("{}#{}: D does not equal removed - added", tx.fragment, tx.index),
                    ));
                }
                for r in tx.removed.iter() {
                    strs.remove(r);
                }
                for a in tx.added.iter() {
                    strs.insert(a.clone());
                }
            }
            prev_o = Some(o);
            last_o = Some(o);
        }
    }
    // (i)
    let mut sum = Setsum::default();
    for s in strs.iter() {
        match Setsum::from_hexdigest(s) {
            Some(x) => sum += x,
            None => out.push(("c04:bad-digest-string".into(), format!("bad digest {s}"))),
        }
    }
    if let Some(o) = last_o {
        if o != sum {
            out.push((
                "c04:output!=sum-of-listed".into(),
                format!(
                    "last O={} but the listed SSTs sum to {}",
                    o.hexdigest(),
                    sum.hexdigest()
                ),
            ));
        }
    }
    // the live tree lists the same set
    let levels = st.tree().verif_levels();
    let live: BTreeSet<String> = levels
        .iter()
        .flatten()
        .map(|m| Setsum::from_digest(m.setsum).hexdigest())
        .collect();
    if live != strs {
        out.push((
            "c04:live-tree!=manifest".into(),
            format!("live tree lists {} files, manifest {}", live.len(), strs.len()),
        ));
    }
    // (ii)
    for s in strs.iter() {
        let Some(ss) = Setsum::from_hexdigest(s) else {
            continue;
        };
        let path = lsmtk::SST_FILE(&st.dir, ss);
        match dump_sst(&path) {
            Err(e) => out.push((
                "c04:listed-sst-unreadable".into(),
                format!("listed SST unreadable: {e}"),
            )),
            Ok(entries) => {
                let mut acc = sst::Setsum::default();
                for e in entries.iter() {
                    match &e.value {
                        Some(v) => acc.put(&e.key, e.ts, v),
                        None => acc.del(&e.key, e.ts),
                    }
                }
                if acc.into_inner() != ss {
                    out.push((
                        "c04:sst-contents!=recorded-setsum".into(),
                        format!("{s}.sst: entries do not hash to the recorded setsum"),
                    ));
                }
            }
        }
    }
    out
}

/// ManifestVerifier accepts every fragment.
pub fn check_manifest_verifier(st: &Store) -> Vec<Finding> {
    let mut out = vec![];
    for f in fragments(&st.dir) {
        if !f.exists() {
            continue;
        }
        let r = vcore::catch(|| {
            let v = lsmtk::ManifestVerifier::open()?;
            v.verify(&f)
        });
        match r {
            Err(p) => out.push((
                format!("c04:manifest-verifier-panic:{}", short(&p)),
                format!("ManifestVerifier panicked on {}: {p}", f.display()),
            )),
            Ok(Err(e)) => out.push((
                format!("c04:manifest-verifier-rejects:{}", short(&e.to_string())),
                format!(
                    "ManifestVerifier rejects {} produced by the store itself: {e}",
                    f.display()
                ),
            )),
            Ok(Ok(_)) => {}
        }
    }
    out
}

/////////////////////////////////////////////// C05 ////////////////////////////////////////////////

/// Compare full multi-version dumps before and after one compaction step.
pub fn check_compaction_step(
    before: &[Entry],
    after: &[Entry],
    l15_changed: bool,
    gc_policy: &str,
) -> Vec<Finding> {
    let mut out = vec![];
    let mut b: BTreeMap<&Entry, i64> = BTreeMap::new();
    for e in before {
        *b.entry(e).or_insert(0) += 1;
    }
    let mut a: BTreeMap<&Entry, i64> = BTreeMap::new();
    for e in after {
        *a.entry(e).or_insert(0) += 1;
    }
    if a == b {
        return out;
    }
    // something changed
    let mut invented = vec![];
    for (e, n) in a.iter() {
        if b.get(e).copied().unwrap_or(0) < *n {
            invented.push((*e).clone());
        }
    }
    if !invented.is_empty() {
        out.push((
            "c05:entry-invented-or-duplicated".into(),
            format!(
                "compaction output contains {} which was not in its input (or more often)",
                fmt_entry(&Some(invented[0].clone()))
            ),
        ));
    }
    let mut dropped = vec![];
    for (e, n) in b.iter() {
        if a.get(e).copied().unwrap_or(0) < *n {
            dropped.push((*e).clone());
        }
    }
    if dropped.is_empty() {
        return out;
    }
    if !l15_changed {
        out.push((
            "c05:non-gc-compaction-dropped-entries".into(),
            format!(
                "a compaction below the top level dropped {} entries, e.g. {}",
                dropped.len(),
                fmt_entry(&Some(dropped[0].clone()))
            ),
        ));
        return out;
    }
    // GC: judge the dropped set against an independent reading of the policy
    let n_versions: Option<u64> = if gc_policy.starts_with("versions") {
        gc_policy
            .split('=')
            .nth(1)
            .and_then(|s| s.trim().parse().ok())
    } else {
        None
    };
    let retained: BTreeSet<&Entry> = a.keys().copied().collect();
    for e in dropped.iter() {
        let newer_before = before
            .iter()
            .filter(|x| x.key == e.key && x.ts > e.ts)
            .count() as u64;
        match &e.value {
            Some(_) => {
                match n_versions {
                    Some(n) => {
                        if newer_before < n {
                            out.push((
                                format!("c05:gc-dropped-value-with-too-few-newer-versions:policy-versions={n}"),
                                format!(
                                    "GC dropped {} although only {newer_before} newer entries of the key exist (policy {gc_policy})",
                                    fmt_entry(&Some(e.clone()))
                                ),
                            ));
                        }
                    }
                    None => {
                        // any(versions=1, ttl) with now=0: ttl retains everything
                        out.push((
                            "c05:gc-dropped-value-under-retain-all-policy".into(),
                            format!(
                                "GC dropped {} although policy {gc_policy} retains every value",
                                fmt_entry(&Some(e.clone()))
                            ),
                        ));
                    }
                }
            }
            None => {
                // a dropped tombstone must not expose an older value: the newest retained entry
                // older than it must be a tombstone or absent
                let exposed = retained
                    .iter()
                    .filter(|x| x.key == e.key && x.ts < e.ts)
                    .max_by_key(|x| x.ts);
                if let Some(x) = exposed {
                    if x.value.is_some() {
                        // unless a newer retained entry still shadows it
                        let shadow = retained.iter().any(|y| y.key == e.key && y.ts > e.ts);
                        if !shadow {
                            out.push((
                                "c05:gc-dropped-tombstone-exposing-older-value".into(),
                                format!(
                                    "GC dropped {} but retained the older {} which becomes visible again",
                                    fmt_entry(&Some(e.clone())),
                                    fmt_entry(&Some((*x).clone()))
                                ),
                            ));
                        }
                    }
                }
            }
        }
    }
    // the entry deciding the current value of each key is retained
    let keys: BTreeSet<&Vec<u8>> = before.iter().map(|e| &e.key).collect();
    for k in keys {
        let newest_b = before.iter().filter(|e| &e.key == k).max_by_key(|e| e.ts);
        let newest_a = after.iter().filter(|e| &e.key == k).max_by_key(|e| e.ts);
        let vb = newest_b.and_then(|e| e.value.clone());
        let va = newest_a.and_then(|e| e.value.clone());
        if vb != va {
            out.push((
                "c05:gc-changed-current-value".into(),
                format!(
                    "after GC the newest entry of {} is {} but before it was {}",
                    vcore::esc(k),
                    fmt_entry(&newest_a.cloned()),
                    fmt_entry(&newest_b.cloned())
                ),
            ));
        }
    }
    out
}

/////////////////////////////////////////////// C08 ////////////////////////////////////////////////

/// Every SST the manifest lists is present in sst/; trash/ holds nothing the manifest lists
/// unless sst/ has it too.
pub fn check_files_present(st: &Store) -> Vec<Finding> {
    let mut out = vec![];
    let levels = st.tree().verif_levels();
    for m in levels.iter().flatten() {
        let ss = Setsum::from_digest(m.setsum);
        let p = lsmtk::SST_FILE(&st.dir, ss);
        if !p.exists() {
            let in_trash = lsmtk::TRASH_SST(&st.dir, ss).exists();
            out.push((
                format!(
                    "c08:listed-sst-missing:{}",
                    if in_trash { "in-trash" } else { "gone" }
                ),
                format!(
                    "{} is listed by the live version but is not in sst/ ({}); tree: {}",
                    ss.hexdigest(),
                    if in_trash { "it is in trash/" } else { "nor in trash/" },
                    st.describe_tree()
                ),
            ));
        }
    }
    out
}
