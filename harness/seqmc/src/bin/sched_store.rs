//! Coarse-grained exhaustive interleaving exploration of the whole real KeyValueStore (C06, C07).
//!
//! loom explores every interleaving of every lock and atomic operation, which limits whole-store
//! harnesses to 3 threads and 1-2 preemptions.  This explorer uses REAL threads and a cooperative
//! scheduler driven by the `lsmtk::verif` scheduling hooks: a thread can be switched only at a few
//! named points (operation start, after a write got its sequence number, before each memtable
//! entry, before the wait-list hand-off, after the flush loop rolled the memtable over).  Between
//! two points a piece runs alone, so an execution is a sequence of thread choices; all sequences
//! with at most `p` preemptions are enumerated (iterative context bounding), each on a fresh store.
//! Waiting for the head of the wait list is real blocking; the scheduler learns about it from the
//! Blocking / NotifiedHead events and decides who was woken from the wait list's head index, so
//! enabled sets are deterministic and a recorded schedule replays exactly.
//!
//! Oracle per execution (as loom_kvs): the recorded invocation/response history is linearizable
//! against a sequential map (a scan is one atomic read); a scan shows all or none of a batch; a
//! kept cursor re-read from the start returns what it returned before.

use std::collections::BTreeMap;
use std::ops::Bound;
use std::sync::{Arc, Condvar, Mutex};
use std::time::{Duration, Instant};

use lsmtk::verif::{SchedEvent, StepMode, set_sched_hook, set_step_mode};
use lsmtk::{KeyValueStore, WriteBatch};
use seqmc::store::Cfg;
use sst::Cursor;
use vcore::{Args, Report, Scratch, Value, Violation, json};

///////////////////////////////////////////// controller ///////////////////////////////////////////

#[derive(Clone, Debug, PartialEq)]
enum Status {
    NotStarted,
    Parked(&'static str),
    Running,
    Blocked,
    Done,
}

struct Ctl {
    status: Vec<Status>,
    go: Vec<bool>,
    notified: bool,
    link_idx: Vec<Option<u64>>,
    clock: usize,
}

struct Shared {
    ctl: Mutex<Ctl>,
    cv: Condvar,
}

thread_local! {
    static TID: std::cell::Cell<usize> = const { std::cell::Cell::new(usize::MAX) };
}

static SHARED: Mutex<Option<Arc<Shared>>> = Mutex::new(None);

fn shared() -> Option<Arc<Shared>> {
    SHARED.lock().unwrap().clone()
}

fn park(sh: &Shared, tid: usize, name: &'static str) {
    let mut c = sh.ctl.lock().unwrap();
    c.status[tid] = Status::Parked(name);
    sh.cv.notify_all();
    while !c.go[tid] {
        c = sh.cv.wait(c).unwrap();
    }
    c.go[tid] = false;
    c.status[tid] = Status::Running;
}

fn hook(e: SchedEvent) {
    let tid = TID.with(|t| t.get());
    if tid == usize::MAX {
        return; // not a scheduled thread (e.g. the driver building the initial state)
    }
    let Some(sh) = shared() else { return };
    match e {
        SchedEvent::Point(name) => park(&sh, tid, name),
        SchedEvent::Linked(i) => {
            sh.ctl.lock().unwrap().link_idx[tid] = Some(i);
        }
        SchedEvent::Blocking(true) => {
            let mut c = sh.ctl.lock().unwrap();
            c.status[tid] = Status::Blocked;
            sh.cv.notify_all();
        }
        SchedEvent::Blocking(false) => {
            let mut c = sh.ctl.lock().unwrap();
            c.status[tid] = Status::Running;
            sh.cv.notify_all();
        }
        SchedEvent::NotifiedHead => {
            sh.ctl.lock().unwrap().notified = true;
        }
        // the harnesses here never flush into a level 0 at the stall threshold
        SchedEvent::IngestStalled | SchedEvent::IngestWoke => {}
    }
}

///////////////////////////////////////////// history //////////////////////////////////////////////

#[derive(Clone, Debug)]
enum Call {
    Put(String, String),
    Del(String),
    Batch(Vec<(String, Option<String>)>),
    Get(String, Option<String>),
    Scan(Vec<(String, String)>),
}

#[derive(Clone, Debug)]
struct Event {
    call: Call,
    start: usize,
    end: usize,
    thread: usize,
}

fn apply_spec(map: &mut BTreeMap<String, String>, c: &Call) -> bool {
    match c {
        Call::Put(k, v) => {
            map.insert(k.clone(), v.clone());
            true
        }
        Call::Del(k) => {
            map.remove(k);
            true
        }
        Call::Batch(es) => {
            for (k, v) in es {
                match v {
                    Some(v) => {
                        map.insert(k.clone(), v.clone());
                    }
                    None => {
                        map.remove(k);
                    }
                }
            }
            true
        }
        Call::Get(k, v) => map.get(k) == v.as_ref(),
        Call::Scan(kvs) => {
            let have: Vec<(String, String)> = map.iter().map(|(k, v)| (k.clone(), v.clone())).collect();
            &have == kvs
        }
    }
}

fn linearizable(initial: &BTreeMap<String, String>, evs: &[Event]) -> bool {
    fn rec(evs: &[Event], used: &mut Vec<bool>, map: &mut BTreeMap<String, String>, placed: usize) -> bool {
        if placed == evs.len() {
            return true;
        }
        for i in 0..evs.len() {
            if used[i] {
                continue;
            }
            if (0..evs.len()).any(|j| !used[j] && j != i && evs[j].end < evs[i].start) {
                continue;
            }
            let saved = map.clone();
            if apply_spec(map, &evs[i].call) {
                used[i] = true;
                if rec(evs, used, map, placed + 1) {
                    return true;
                }
                used[i] = false;
            }
            *map = saved;
        }
        false
    }
    let mut used = vec![false; evs.len()];
    let mut map = initial.clone();
    rec(evs, &mut used, &mut map, 0)
}

///////////////////////////////////////////// execution ////////////////////////////////////////////

struct Outcome {
    /// per scheduling decision: (enabled thread ids, chosen)
    decisions: Vec<(Vec<usize>, usize)>,
    findings: Vec<(String, String)>,
    trace: Vec<String>,
    observation: String,
}

fn tick(sh: &Shared) -> usize {
    let mut c = sh.ctl.lock().unwrap();
    c.clock += 1;
    c.clock
}

static UB: Bound<&[u8]> = Bound::Unbounded;

fn scan_all(kvs: &KeyValueStore) -> Result<Vec<(String, String)>, String> {
    let mut c = kvs.range_scan(&UB, &UB).map_err(|e| e.to_string())?;
    walk(&mut c)
}

fn walk(c: &mut dyn Cursor) -> Result<Vec<(String, String)>, String> {
    let mut out = vec![];
    c.seek_to_first().map_err(|e| e.to_string())?;
    loop {
        c.next().map_err(|e| e.to_string())?;
        match c.key_value() {
            None => break,
            Some(kv) => out.push((
                String::from_utf8_lossy(kv.key).to_string(),
                String::from_utf8_lossy(kv.value.unwrap_or(b"<TOMBSTONE>")).to_string(),
            )),
        }
        if out.len() > 32 {
            return Err("scan does not terminate".into());
        }
    }
    Ok(out)
}

/// Run one execution: `schedule` fixes the first choices; afterwards the default policy applies
/// (keep running the same thread while it is enabled, else the lowest enabled id).
fn execute(cfg: &Cfg, harness: &Value, schedule: &[usize], scratch: &Scratch) -> Outcome {
    scratch.clear();
    let dir = scratch.sub("db");
    let mut findings: Vec<(String, String)> = vec![];
    let mut trace: Vec<String> = vec![];
    // a harness may override options of the common configuration
    let mut cfg = cfg.clone();
    if let Some(o) = harness["options"].as_object() {
        for (k, v) in o {
            cfg.args.retain(|(a, _)| a != k);
            cfg.args.push((k.clone(), v.as_str().unwrap_or("").to_string()));
        }
    }
    let kvs = match KeyValueStore::open(cfg.options(&dir)) {
        Ok(k) => Arc::new(k),
        Err(e) => {
            return Outcome { decisions: vec![], findings: vec![("open-error".into(), e.to_string())], trace, observation: String::new() };
        }
    };
    // initial state, on the driver thread (not scheduled)
    let mut initial: BTreeMap<String, String> = BTreeMap::new();
    for op in harness["pre"].as_array().map(|a| a.as_slice()).unwrap_or(&[]) {
        let k = op[1].as_str().unwrap_or("");
        match op[0].as_str().unwrap() {
            "put" => {
                let v = op[2].as_str().unwrap();
                kvs.put(k.as_bytes(), v.as_bytes()).expect("pre put");
                initial.insert(k.to_string(), v.to_string());
            }
            "del" => {
                kvs.del(k.as_bytes()).expect("pre del");
                initial.remove(k);
            }
            "flush" => {
                set_step_mode(StepMode::StepNoWait);
                kvs.memtable_thread().expect("pre flush");
                set_step_mode(StepMode::Off);
            }
            "compactall" => {
                for _ in 0..64 {
                    set_step_mode(StepMode::StepNoWait);
                    let before = lsmtk::verif::steps_completed();
                    kvs.compaction_thread().expect("pre compaction");
                    set_step_mode(StepMode::Off);
                    if lsmtk::verif::steps_completed() == before {
                        break;
                    }
                }
            }
            _ => panic!("bad pre op"),
        }
    }
    let programs: Vec<Vec<Value>> = harness["threads"].as_array().unwrap().iter().map(|p| p.as_array().unwrap().clone()).collect();
    let n = programs.len();
    let sh = Arc::new(Shared {
        ctl: Mutex::new(Ctl { status: vec![Status::NotStarted; n], go: vec![false; n], notified: false, link_idx: vec![None; n], clock: 0 }),
        cv: Condvar::new(),
    });
    *SHARED.lock().unwrap() = Some(Arc::clone(&sh));
    let hist: Arc<Mutex<Vec<Event>>> = Arc::new(Mutex::new(vec![]));
    let thread_findings: Arc<Mutex<Vec<(String, String)>>> = Arc::new(Mutex::new(vec![]));
    let rereads: Arc<Mutex<Vec<Vec<(String, String)>>>> = Arc::new(Mutex::new(vec![]));
    let mut handles = vec![];
    for (tid, prog) in programs.iter().cloned().enumerate() {
        let kvs = Arc::clone(&kvs);
        let sh = Arc::clone(&sh);
        let hist = Arc::clone(&hist);
        let tf = Arc::clone(&thread_findings);
        let rereads = Arc::clone(&rereads);
        handles.push(std::thread::spawn(move || {
            TID.with(|t| t.set(tid));
            let mut kept: Option<Box<dyn Cursor + '_>> = None;
            for op in prog.iter() {
                park(&sh, tid, "op:start");
                let start = tick(&sh);
                let name = op[0].as_str().unwrap();
                let r = vcore::catch(std::panic::AssertUnwindSafe(|| -> Result<Option<Call>, String> {
                    match name {
                        "put" => {
                            let (k, v) = (op[1].as_str().unwrap(), op[2].as_str().unwrap());
                            kvs.put(k.as_bytes(), v.as_bytes()).map_err(|e| e.to_string())?;
                            Ok(Some(Call::Put(k.into(), v.into())))
                        }
                        // a write the store must refuse (key longer than sst::MAX_KEY_LEN): the
                        // caller gets an error and nobody else may be affected
                        "put-oversize" => {
                            // (put/del check the length up front; a batch is checked entry
                            // by entry only when it is copied into the log's batch)
                            let k = vec![b'k'; sst::MAX_KEY_LEN + 1];
                            let mut wb = WriteBatch::with_capacity(1);
                            wb.put(&k, b"v");
                            match kvs.write(wb) {
                                Err(_) => Ok(None),
                                Ok(()) => Err("a key longer than MAX_KEY_LEN was accepted".to_string()),
                            }
                        }
                        "del" => {
                            let k = op[1].as_str().unwrap();
                            kvs.del(k.as_bytes()).map_err(|e| e.to_string())?;
                            Ok(Some(Call::Del(k.into())))
                        }
                        "batch" => {
                            let mut wb = WriteBatch::with_capacity(2);
                            let mut es = vec![];
                            for e in op[1].as_array().unwrap() {
                                let k = e[0].as_str().unwrap();
                                match e[1].as_str() {
                                    Some(v) => {
                                        wb.put(k.as_bytes(), v.as_bytes());
                                        es.push((k.to_string(), Some(v.to_string())));
                                    }
                                    None => {
                                        wb.del(k.as_bytes());
                                        es.push((k.to_string(), None));
                                    }
                                }
                            }
                            kvs.write(wb).map_err(|e| e.to_string())?;
                            Ok(Some(Call::Batch(es)))
                        }
                        "get" => {
                            let k = op[1].as_str().unwrap();
                            let mut tomb = false;
                            let v = kvs.load(k.as_bytes(), &mut tomb).map_err(|e| e.to_string())?;
                            Ok(Some(Call::Get(k.into(), v.map(|x| String::from_utf8_lossy(&x).to_string()))))
                        }
                        "scan" => Ok(Some(Call::Scan(scan_all(&kvs)?))),
                        "flush" => {
                            set_step_mode(StepMode::StepNoWait);
                            let r = kvs.memtable_thread().map_err(|e| e.to_string());
                            set_step_mode(StepMode::Off);
                            r?;
                            Ok(None)
                        }
                        "compact" => {
                            set_step_mode(StepMode::StepNoWait);
                            let r = kvs.compaction_thread().map_err(|e| e.to_string());
                            set_step_mode(StepMode::Off);
                            r?;
                            Ok(None)
                        }
                        // compaction steps until idle, as one piece
                        "compactall" => {
                            for _ in 0..64 {
                                set_step_mode(StepMode::StepNoWait);
                                let before = lsmtk::verif::steps_completed();
                                let r = kvs.compaction_thread().map_err(|e| e.to_string());
                                set_step_mode(StepMode::Off);
                                r?;
                                if lsmtk::verif::steps_completed() == before {
                                    break;
                                }
                            }
                            Ok(None)
                        }
                        "open-scan" => {
                            let mut c: Box<dyn Cursor + '_> = Box::new(kvs.range_scan(&UB, &UB).map_err(|e| e.to_string())?);
                            let w = walk(&mut *c)?;
                            rereads.lock().unwrap().push(w);
                            kept = Some(c);
                            Ok(None)
                        }
                        "reread" => {
                            if let Some(c) = kept.as_mut() {
                                let w = walk(&mut **c)?;
                                rereads.lock().unwrap().push(w);
                            }
                            Ok(None)
                        }
                        _ => panic!("bad op {name}"),
                    }
                }));
                let end = tick(&sh);
                match r {
                    Err(p) => tf.lock().unwrap().push((format!("panic:{name}:{}", seqmc::storecheck::short(&p)), format!("{name} panicked: {p}"))),
                    Ok(Err(e)) => tf.lock().unwrap().push((format!("op-error:{name}:{}", seqmc::storecheck::short(&e)), format!("{name} failed: {e}"))),
                    Ok(Ok(Some(call))) => hist.lock().unwrap().push(Event { call, start, end, thread: tid }),
                    Ok(Ok(None)) => {}
                }
            }
            drop(kept);
            let mut c = sh.ctl.lock().unwrap();
            c.status[tid] = Status::Done;
            sh.cv.notify_all();
        }));
    }
    // the scheduling loop
    let mut decisions: Vec<(Vec<usize>, usize)> = vec![];
    let mut last: Option<usize> = None;
    let deadline = Instant::now() + Duration::from_secs(20);
    'sched: loop {
        // wait for quiescence: nobody Running / NotStarted
        let mut c = sh.ctl.lock().unwrap();
        loop {
            let busy = c.status.iter().any(|s| matches!(s, Status::Running | Status::NotStarted));
            if !busy {
                // was the head of the wait list notified while somebody is blocked on it?
                if c.notified {
                    c.notified = false;
                    let head = kvs.verif_wait_list_head();
                    let woken: Vec<usize> = (0..n).filter(|t| c.status[*t] == Status::Blocked && c.link_idx[*t] == Some(head)).collect();
                    if let Some(t) = woken.first().copied() {
                        // it will wake for certain; wait until it reports
                        let until = Instant::now() + Duration::from_secs(5);
                        while c.status[t] == Status::Blocked {
                            let (g, to) = sh.cv.wait_timeout(c, Duration::from_millis(200)).unwrap();
                            c = g;
                            if to.timed_out() && Instant::now() > until {
                                findings.push((
                                    "lost-wake-up".into(),
                                    format!("thread {t} is at the head of the wait list and was notified but never woke"),
                                ));
                                break 'sched;
                            }
                        }
                        continue;
                    }
                }
                break;
            }
            let (g, _) = sh.cv.wait_timeout(c, Duration::from_millis(500)).unwrap();
            c = g;
            if Instant::now() > deadline {
                findings.push(("execution-hangs".into(), format!("no quiescence: {:?}", c.status)));
                break 'sched;
            }
        }
        let enabled: Vec<usize> = (0..n).filter(|t| matches!(c.status[*t], Status::Parked(_))).collect();
        if enabled.is_empty() {
            if c.status.iter().all(|s| *s == Status::Done) {
                break;
            }
            findings.push((
                "deadlock".into(),
                format!("every remaining thread waits for the head of the wait list: {:?}", c.status),
            ));
            break;
        }
        let i = decisions.len();
        let choice = if i < schedule.len() {
            if !enabled.contains(&schedule[i]) {
                findings.push((
                    "MACHINERY:schedule-diverged".into(),
                    format!("decision {i}: schedule wants {} but enabled is {enabled:?}", schedule[i]),
                ));
                break;
            }
            schedule[i]
        } else {
            match last {
                Some(l) if enabled.contains(&l) => l,
                _ => enabled[0],
            }
        };
        let at = match &c.status[choice] {
            Status::Parked(p) => *p,
            _ => "?",
        };
        trace.push(format!("T{choice}@{at}"));
        decisions.push((enabled, choice));
        last = Some(choice);
        c.go[choice] = true;
        c.status[choice] = Status::Running;
        sh.cv.notify_all();
    }
    let hung = findings.iter().any(|f| f.0 == "deadlock" || f.0 == "lost-wake-up" || f.0 == "execution-hangs" || f.0.starts_with("MACHINERY"));
    if hung {
        // the threads cannot be joined; leak them (the process exits soon) -- release everybody so
        // that most of them finish
        let mut c = sh.ctl.lock().unwrap();
        for t in 0..n {
            c.go[t] = true;
        }
        sh.cv.notify_all();
        drop(c);
        *SHARED.lock().unwrap() = None;
        std::mem::forget(handles);
        return Outcome { decisions, findings, trace, observation: "hung".into() };
    }
    for h in handles {
        let _ = h.join();
    }
    *SHARED.lock().unwrap() = None;
    findings.extend(thread_findings.lock().unwrap().drain(..));
    let evs = hist.lock().unwrap().clone();
    if let Some(bk) = harness["batch_keys"].as_array() {
        let bk: Vec<String> = bk.iter().map(|x| x.as_str().unwrap().to_string()).collect();
        let bv = harness["batch_value"].as_str().unwrap_or("");
        for e in evs.iter() {
            if let Call::Scan(seen) = &e.call {
                let nseen = bk.iter().filter(|k| seen.iter().any(|(kk, vv)| kk == *k && vv == bv)).count();
                if nseen != 0 && nseen != bk.len() {
                    findings.push((
                        "batch-partially-visible-to-scan".into(),
                        format!("a scan returned {seen:?}: {nseen} of the {} keys of one batch", bk.len()),
                    ));
                }
            }
        }
    }
    if !linearizable(&initial, &evs) {
        let mut kinds: Vec<&str> = evs
            .iter()
            .map(|e| match e.call {
                Call::Put(..) => "put",
                Call::Del(..) => "del",
                Call::Batch(..) => "batch",
                Call::Get(..) => "get",
                Call::Scan(..) => "scan",
            })
            .collect();
        kinds.sort();
        kinds.dedup();
        findings.push((
            format!("not-linearizable:{}", kinds.join("+")),
            format!("no total order of the calls consistent with real time explains the results: {evs:?}"),
        ));
    }
    let rr = rereads.lock().unwrap().clone();
    if rr.len() >= 2 && rr.windows(2).any(|w| w[0] != w[1]) {
        findings.push((
            "cursor-reread-differs".into(),
            format!("the same cursor returned {:?} and then, re-read from the start, {:?}", rr[0], rr[rr.len() - 1]),
        ));
    }
    let observation = format!(
        "{:?}|{:?}",
        evs.iter()
            .filter_map(|e| match &e.call {
                Call::Get(k, v) => Some(format!("{}:{k}={v:?}", e.thread)),
                Call::Scan(s) => Some(format!("{}:{s:?}", e.thread)),
                _ => None,
            })
            .collect::<Vec<_>>(),
        rr
    );
    drop(kvs);
    Outcome { decisions, findings, trace, observation }
}

fn preemptions(decisions: &[(Vec<usize>, usize)], upto: usize) -> usize {
    let mut p = 0;
    for i in 1..upto.min(decisions.len()) {
        let prev = decisions[i - 1].1;
        if decisions[i].1 != prev && decisions[i].0.contains(&prev) {
            p += 1;
        }
    }
    p
}

struct Explorer<'a> {
    cfg: &'a Cfg,
    harness: &'a Value,
    bound: usize,
    scratch: &'a Scratch,
    rep: &'a mut Report,
    budget: Instant,
    name: String,
}

impl Explorer<'_> {
    fn explore(&mut self, prefix: Vec<usize>) {
        if Instant::now() > self.budget {
            self.rep.cap(&format!("{}: wall budget hit at preemption bound {}", self.name, self.bound));
            return;
        }
        let x = execute(self.cfg, self.harness, &prefix, self.scratch);
        self.rep.evaluations += 1;
        self.rep.traces_validated += 1;
        self.rep.transitions += x.decisions.len() as u64;
        let h = vcore::stable_hash(&(&self.name, &x.observation));
        self.rep.outcomes.insert(h);
        self.rep.states.insert(vcore::stable_hash(&(&self.name, &x.trace)));
        if preemptions(&x.decisions, x.decisions.len()) > 0 {
            self.rep.nontrivial.insert(vcore::stable_hash(&(&self.name, &x.trace)));
        }
        if self.rep.evaluations % 499 == 1 {
            self.rep.sample(json!({"harness": self.name, "schedule": x.trace}));
        }
        for (sig, detail) in x.findings.iter() {
            if sig.starts_with("MACHINERY") {
                self.rep.count("schedule_divergences", 1);
                continue;
            }
            // replay before report: the recorded schedule must fail the same way again
            let choices: Vec<usize> = x.decisions.iter().map(|d| d.1).collect();
            let again = execute(self.cfg, self.harness, &choices, self.scratch);
            if !again.findings.iter().any(|f| f.0 == *sig) {
                self.rep.count("non_reproducible_findings", 1);
                continue;
            }
            self.rep.violation(Violation {
                property: self.rep.property.clone(),
                signature: format!("{}:{sig}", self.rep.property.to_lowercase()),
                detail: format!("{detail} [harness {}; schedule {}]", self.name, x.trace.join(" ")),
                case: json!({"cfg": self.cfg.to_json(), "harness": self.harness, "schedule": choices}),
            });
        }
        if x.findings.iter().any(|f| f.0 == "deadlock" || f.0 == "lost-wake-up" || f.0 == "execution-hangs") {
            return; // leaked threads: do not pile up more of them below this prefix
        }
        for i in prefix.len()..x.decisions.len() {
            let (enabled, chosen) = &x.decisions[i];
            let before = preemptions(&x.decisions, i);
            for alt in enabled.iter() {
                if alt == chosen {
                    continue;
                }
                let prev_enabled = i > 0 && enabled.contains(&x.decisions[i - 1].1);
                let cost = before + if prev_enabled && i > 0 && *alt != x.decisions[i - 1].1 { 1 } else { 0 };
                if cost > self.bound {
                    continue;
                }
                let mut p: Vec<usize> = x.decisions[..i].iter().map(|d| d.1).collect();
                p.push(*alt);
                self.explore(p);
            }
        }
    }
}

fn harnesses(prop: &str) -> Vec<Value> {
    let mut v = vec![];
    match prop {
        "C06" => {
            v.push(json!({"name": "batch-vs-scan", "pre": [], "threads": [[["batch", [["a", "1"], ["b", "1"]]]], [["scan"]]], "batch_keys": ["a", "b"], "batch_value": "1"}));
            v.push(json!({"name": "rollover-vs-batch-vs-scan", "pre": [["put", "x", "0"]],
                "threads": [[["put", "y", "1"]], [["flush"]], [["batch", [["a", "1"], ["b", "1"]]]], [["scan"], ["scan"]]],
                "batch_keys": ["a", "b"], "batch_value": "1"}));
            v.push(json!({"name": "two-writers-flush-reader", "pre": [["put", "x", "0"]],
                "threads": [[["put", "a", "1"], ["get", "a"]], [["put", "a", "2"], ["get", "a"]], [["flush"]], [["get", "a"], ["scan"]]]}));
            v.push(json!({"name": "del-put-vs-get-scan-vs-flush", "pre": [["put", "a", "0"], ["flush"]],
                "threads": [[["del", "a"]], [["put", "a", "2"]], [["get", "a"], ["scan"]], [["flush"]]]}));
            // a single put and a two-key batch enter the write path together (the order of their
            // places in the wait list must be the order of their sequence numbers) || a scan
            v.push(json!({"name": "put-vs-batch-vs-scan", "pre": [],
                "threads": [[["put", "x", "1"]], [["batch", [["a", "1"], ["b", "1"]]]], [["scan"], ["scan"]]],
                "batch_keys": ["a", "b"], "batch_value": "1"}));
            // a scan whose pieces (memtables, tree version, timestamp) must belong together, while
            // the key is overwritten, flushed and garbage-collected at the oldest level
            v.push(json!({"name": "scan-vs-overwrite-flush-gc", "pre": [["put", "k", "old"], ["flush"], ["compactall"]],
                // compaction always counts as mandatory: the overwritten key's file is merged into
                // the oldest level (a garbage collection) as soon as it gets there
                "options": {"l0-mandatory-compaction-threshold-files": "0"},
                "threads": [[["scan"]], [["put", "k", "new-and-somewhat-longer-than-the-old-one"]], [["flush"]], [["compactall"]], [["get", "k"]]]}));
            v.push(json!({"name": "batch-vs-gets-vs-compaction", "pre": [["put", "a", "0"], ["flush"], ["put", "b", "0"], ["flush"]],
                "threads": [[["batch", [["a", "1"], ["b", "1"]]]], [["get", "b"], ["get", "a"]], [["compact"], ["compact"]]]}));
        }
        "C03" => {
            // the pieces of one scan (memtables, tree version, read timestamp) must belong together
            v.push(json!({"name": "scan-vs-overwrite-flush-gc", "pre": [["put", "k", "old"], ["flush"], ["compactall"]],
                "options": {"l0-mandatory-compaction-threshold-files": "0"},
                "threads": [[["scan"]], [["put", "k", "new-and-somewhat-longer-than-the-old-one"]], [["flush"]], [["compactall"]], [["get", "k"]]]}));
            v.push(json!({"name": "scan-vs-delete-flush-gc", "pre": [["put", "j", "0"], ["put", "k", "old"], ["flush"], ["compactall"]],
                "options": {"l0-mandatory-compaction-threshold-files": "0"},
                "threads": [[["scan"]], [["del", "k"]], [["flush"]], [["compactall"]]]}));
        }
        "C07" => {
            v.push(json!({"name": "reread-batch-in-flight-vs-rollover", "pre": [["put", "x", "0"]],
                "threads": [[["batch", [["a", "1"], ["b", "1"]]]], [["flush"]], [["open-scan"], ["reread"], ["reread"]]]}));
            v.push(json!({"name": "reread-two-writers-flush-compaction", "pre": [["put", "x", "0"], ["flush"], ["put", "x", "1"]],
                "threads": [[["put", "a", "1"], ["del", "x"]], [["flush"], ["compact"]], [["open-scan"], ["reread"], ["reread"]], [["put", "b", "2"]]]}));
        }
        "C20" => {
            // a refused write must not hold up the writers queued behind it
            v.push(json!({"name": "refused-write-vs-put", "pre": [],
                "threads": [[["put-oversize"]], [["put", "a", "1"], ["get", "a"]]]}));
            v.push(json!({"name": "refused-write-vs-put-vs-flush", "pre": [["put", "x", "0"]],
                "threads": [[["put-oversize"]], [["put", "a", "1"]], [["flush"]], [["get", "a"]]]}));
            v.push(json!({"name": "two-refused-writes-vs-two-puts", "pre": [],
                "threads": [[["put-oversize"], ["put", "b", "1"]], [["put", "a", "1"]], [["put-oversize"]]]}));
        }
        _ => panic!("unknown property"),
    }
    v
}

fn store_cfg() -> Cfg {
    Cfg::new(
        "sched",
        &[
            ("memtable-size-bytes", "0"),
            ("l0-mandatory-compaction-threshold-files", "1"),
            ("sst-cache-bytes", "0"),
        ],
    )
}

fn main() {
    let args = Args::parse();
    vcore::quiet_panics();
    set_sched_hook(Some(hook));
    let cfg = store_cfg();
    if let Some(rf) = args.replay_case() {
        let case = &rf["case"];
        let schedule: Vec<usize> = case["schedule"].as_array().unwrap().iter().map(|x| x.as_u64().unwrap() as usize).collect();
        let scratch = Scratch::new("sched-replay");
        let x = execute(&Cfg::from_json(&case["cfg"]), &case["harness"], &schedule, &scratch);
        println!("schedule: {}", x.trace.join(" "));
        for (s, d) in x.findings.iter() {
            println!("finding {s}: {d}");
        }
        let want = rf["signature"].as_str().unwrap_or("");
        if x.findings.iter().any(|f| want.ends_with(&f.0)) {
            println!("REPRODUCED {want}");
            std::process::exit(1);
        }
        std::process::exit(if x.findings.is_empty() { 0 } else { 1 });
    }
    let prop = args.get("prop").expect("--prop C06|C07").to_string();
    let thorough = args.tier_thorough();
    let max_bound = args.usize("bound", if thorough { 3 } else { 2 });
    let budget_s = args.u64("budget", if thorough { 900 } else { 25 });
    // one child process per harness (threads leaked by a hung execution must not accumulate)
    if let Some(hname) = args.get("child-harness") {
        let h = harnesses(&prop).into_iter().find(|h| h["name"] == hname).expect("harness");
        let mut rep = Report::new(&format!("sched_store-{prop}"), &prop);
        let scratch = Scratch::new("sched");
        let deadline = Instant::now() + Duration::from_secs(budget_s);
        let mut completed = None;
        for bound in 0..=max_bound {
            let before = rep.evaluations;
            let mut ex = Explorer { cfg: &cfg, harness: &h, bound, scratch: &scratch, rep: &mut rep, budget: deadline, name: hname.to_string() };
            ex.explore(vec![]);
            if Instant::now() > deadline {
                break;
            }
            completed = Some(bound);
            rep.notes.insert(format!("{hname}:executions-at-bound-{bound}"), json!(rep.evaluations - before));
        }
        rep.notes.insert(format!("{hname}:completed-preemption-bound"), json!(completed));
        rep.finish(&args, "sched_store");
        return;
    }
    let exe = std::env::current_exe().unwrap();
    let tmp = Scratch::new("sched-parent");
    let hs = harnesses(&prop);
    let children: Vec<_> = hs
        .iter()
        .map(|h| {
            let name = h["name"].as_str().unwrap().to_string();
            let out = tmp.sub(&format!("{name}.json"));
            let child = std::process::Command::new(&exe)
                .args(["--prop", &prop, "--child-harness", &name, "--bound", &max_bound.to_string(), "--budget", &budget_s.to_string()])
                .arg("--out")
                .arg(&out)
                .args(["--replay-dir", args.get("replay-dir").unwrap_or("/verif/replays")])
                .spawn()
                .expect("spawn child");
            (name, out, child)
        })
        .collect();
    let mut total = Report::new(&format!("sched_store-{prop}"), &prop);
    for (name, out, mut child) in children {
        let st = child.wait().expect("wait");
        match std::fs::read_to_string(&out).ok().and_then(|s| serde_json::from_str::<Value>(&s).ok()) {
            None => {
                total.violation(Violation {
                    property: prop.clone(),
                    signature: format!("{}:child-abort", prop.to_lowercase()),
                    detail: format!("harness {name}: the exploring process died ({st})"),
                    case: json!({"harness": name}),
                });
            }
            Some(v) => {
                total.evaluations += v["evaluations"].as_u64().unwrap_or(0);
                total.transitions += v["transitions"].as_u64().unwrap_or(0);
                total.traces_validated += v["traces_validated_against_impl"].as_u64().unwrap_or(0);
                for (k, h) in [("states", 1u64), ("distinct_outcomes", 2), ("distinct_nontrivial", 3)] {
                    let c = v[k].as_u64().unwrap_or(0);
                    for i in 0..c {
                        let key = vcore::stable_hash(&(&name, h, i));
                        match h {
                            1 => total.states.insert(key),
                            2 => total.outcomes.insert(key),
                            _ => total.nontrivial.insert(key),
                        };
                    }
                }
                if let Some(c) = v["cap_hit"].as_str() {
                    total.cap(c);
                }
                for s in v["samples"].as_array().unwrap_or(&vec![]) {
                    total.sample(s.clone());
                }
                for (k, n) in v["notes"].as_object().cloned().unwrap_or_default() {
                    total.notes.insert(k, n);
                }
                for (k, n) in v["counters"].as_object().cloned().unwrap_or_default() {
                    total.count(&k, n.as_u64().unwrap_or(0));
                }
                for viol in v["violations"].as_array().unwrap_or(&vec![]) {
                    // the child already wrote the replay file; re-record with the same case
                    let rp = viol["replay"].as_str().unwrap_or("");
                    let case = std::fs::read_to_string(rp).ok().and_then(|s| serde_json::from_str::<Value>(&s).ok()).map(|x| x["case"].clone()).unwrap_or(Value::Null);
                    total.violation(Violation {
                        property: prop.clone(),
                        signature: viol["signature"].as_str().unwrap_or("?").to_string(),
                        detail: viol["detail"].as_str().unwrap_or("").to_string(),
                        case,
                    });
                }
            }
        }
    }
    total.bound = json!({"max_preemption_bound": max_bound, "points": ["op:start", "write:sequenced", "write:entry", "write:inserted", "flush:rolled-over"], "harnesses": hs});
    total.rule = "real threads on the real store under a cooperative scheduler: a thread is switched only at the named points; every sequence of thread choices with at most p preemptions is executed on a fresh store (p = 0, 1, .. in turn; the completed bound per harness is in notes); distinct states = distinct schedules, outcomes = distinct observations (reads, scans, re-reads); each violation's schedule is replayed before it is reported".into();
    total.assumptions = vec![
        "pieces between two scheduling points are atomic here (their internal interleavings are loom's business)".into(),
        "who wakes from the wait list is derived from the list's head index after a notify".into(),
    ];
    total.finish(&args, "sched_store");
}
