//! E1 seqmc on the real KeyValueStore: every operation sequence up to a depth over a small
//! alphabet, from the empty store and from seeded states, per configuration row; oracle chosen
//! by --prop.
//!
//!   seq_store --prop C01 --depth 4 --cfgs A-min,B-l0,C-default --out report.json
//!   seq_store --replay replays/C01/....json

use std::collections::HashSet;

use seqmc::refcursor::Move;
use seqmc::store::{Cfg, Op, StepResult, Store, config_grid, ops_from_json, ops_to_json};
use seqmc::storecheck::{self, Finding, ScanStats};
use vcore::{Args, Report, Scratch, Violation, json};

#[derive(Clone)]
struct Plan {
    prop: String,
    alphabet: Vec<Op>,
    depth: usize,
    scan_len_full: usize,
    scan_len_rest: usize,
}

fn alphabet_for(prop: &str) -> Vec<Op> {
    let base = vec![
        Op::Put(0),
        Op::Del(0),
        Op::Put(1),
        Op::Put(2),
        Op::Del(2),
        Op::Batch(0),
        Op::Batch(1),
        Op::Del(1),
        Op::Flush,
        Op::FlushStalled,
        Op::Compact,
        Op::CompactAll,
        Op::Reopen,
        Op::Verify,
    ];
    match prop {
        "C05" => vec![
            Op::Put(0),
            Op::Del(0),
            Op::PutHuge(1),
            Op::PutBig(0),
            Op::PutBig(1),
            Op::PutBig(2),
            Op::Del(2),
            Op::Batch(0),
            Op::Flush,
            Op::Compact,
            Op::CompactAll,
            Op::Reopen,
        ],
        "C07" => vec![
            Op::Put(0),
            Op::Del(0),
            Op::Put(2),
            Op::Del(2),
            Op::Batch(1),
            Op::Scan(0),
            Op::Scan(8), // [a, b)
            Op::Walk(0, Move::Next),
            Op::Walk(0, Move::Prev),
            Op::Walk(0, Move::ToEnd),
            Op::Walk(1, Move::Next),
            Op::Walk(0, Move::Seek(b"ab".to_vec())),
            Op::Flush,
            Op::FlushStalled,
            Op::Compact,
            Op::CompactAll,
            Op::Verify,
        ],
        "C08" => vec![
            Op::Put(0),
            Op::Del(0),
            Op::Put(2),
            Op::Batch(0),
            Op::Flush,
            Op::FlushStalled,
            Op::Compact,
            Op::CompactAll,
            Op::Reopen,
            Op::Verify,
        ],
        "C20" => vec![
            Op::Put(0),
            Op::Put(2),
            Op::Del(0),
            Op::PutBig(1),
            Op::Flush,
            Op::FlushStalled,
            Op::Compact,
            Op::CompactFail,
            Op::Reopen,
        ],
        _ => base,
    }
}

/// Recipe-built non-initial states (operation lists executed before the enumerated suffix).
/// Seed states of a bare tree fed by ingests (subject "tree").
fn tree_seeds() -> Vec<(&'static str, Vec<Op>)> {
    let ing = |n: &str| Op::parse(&format!("ing:{n}"));
    let mut v: Vec<(&'static str, Vec<Op>)> = vec![("empty", vec![])];
    // two stacked files at the two oldest levels; one more overlapping file in level 0 makes the
    // merge of all three (a top-level GC) the next compaction
    v.push((
        "tree-l14-over-l15",
        vec![ing("a+b"), Op::CompactAll, ing("-a+ab-b"), Op::CompactAll],
    ));
    v.push((
        "tree-l14-over-l15+l0",
        vec![ing("a+b"), Op::CompactAll, ing("-a+ab-b"), Op::CompactAll, ing("a+b")],
    ));
    // a lower-level file whose timestamps straddle an overlapping upper-level file
    let interleaved = vec![ing("a+b"), ing("AB"), ing("AB"), ing("a"), Op::CompactAll];
    v.push(("tree-time-interleaved", interleaved.clone()));
    let mut reopened = interleaved;
    reopened.push(Op::Reopen);
    v.push(("tree-time-interleaved-reopened", reopened));
    v
}

fn seeds(prop: &str) -> Vec<(&'static str, Vec<Op>)> {
    if TREE_SUBJECT.load(std::sync::atomic::Ordering::Relaxed) {
        return tree_seeds();
    }
    let mut v: Vec<(&'static str, Vec<Op>)> = vec![("empty", vec![])];
    if prop == "C20" {
        v.push((
            "l0-two-overlapping",
            vec![Op::Put(0), Op::Flush, Op::Put(0), Op::Flush],
        ));
        // two level-0 files that cannot sink one by one (their timestamps interleave): only a
        // merge relieves a stall here
        v.push((
            "time-interleaved-overlapping-files-reopened",
            vec![
                Op::Batch(0),
                Op::Flush,
                Op::Compact,
                Op::PutHuge(1),
                Op::Flush,
                Op::Compact,
                Op::PutHuge(1),
                Op::Flush,
                Op::Compact,
                Op::Put(0),
                Op::Flush,
                Op::CompactAll,
                Op::Reopen,
            ],
        ));
        // sixteen overlapping 5 KiB files: each sinks until it rests on the previous one, so every
        // level below 0 is occupied (unless a row's limits let them merge on the way) and level 0
        // can only be relieved by a merge
        let mut stack = vec![];
        for _ in 0..16 {
            stack.push(Op::PutHuge(1));
            stack.push(Op::Flush);
            stack.push(Op::CompactAll);
        }
        stack.extend([Op::Put(0), Op::Flush, Op::Put(0), Op::Flush]);
        v.push(("full-stack-of-overlapping-files", stack));
        return v;
    }
    // a file sunk to the oldest level by trivial moves
    v.push(("l15", vec![Op::Put(0), Op::Put(2), Op::Flush, Op::CompactAll]));
    // the oldest level plus an overlapping newer file: the next compaction is a top-level GC
    v.push((
        "l15+overlap",
        vec![
            Op::Put(0),
            Op::Put(2),
            Op::Flush,
            Op::CompactAll,
            Op::Del(0),
            Op::Put(1),
            Op::Flush,
        ],
    ));
    // tombstone over value across levels, then reopened (recovery re-derives the levels)
    v.push((
        "tomb-over-value-reopened",
        vec![
            Op::Put(0),
            Op::Put(1),
            Op::Flush,
            Op::Compact,
            Op::Del(0),
            Op::Flush,
            Op::Reopen,
        ],
    ));
    // a tombstone that shadows nothing, at the oldest level, next to a live key
    v.push((
        "l15-dangling-tombstone",
        vec![Op::Del(0), Op::Put(1), Op::Put(2), Op::Flush, Op::CompactAll],
    ));
    // two files at the oldest level that share a boundary key (built by reopening: every
    // reopen turns the log into one SST)
    v.push((
        "reopen-built-boundary-sharing",
        vec![Op::Put(1), Op::Put(2), Op::Reopen, Op::Put(0), Op::Put(1), Op::Reopen],
    ));
    // a lower-level file whose timestamp range straddles that of an overlapping upper-level file
    // ([ab] sank past nothing, [a] sank past [ab] by trivial moves and was merged with older
    // data): recovery cannot order the two from their metadata
    let interleaved = vec![
        Op::Batch(0),
        Op::Flush,
        Op::Compact,
        Op::PutHuge(1),
        Op::Flush,
        Op::Compact,
        Op::PutHuge(1),
        Op::Flush,
        Op::Compact,
        Op::Put(0),
        Op::Flush,
        Op::CompactAll,
    ];
    v.push(("time-interleaved-overlapping-files", interleaved.clone()));
    let mut reopened = interleaved;
    reopened.push(Op::Reopen);
    v.push(("time-interleaved-overlapping-files-reopened", reopened));
    // two disjoint files at each of the two oldest levels, the upper right one ([ab..b], holding
    // a tombstone for b) hanging over both lower ones ([a..ab] and [b..b]): a compaction of the
    // upper left file [a..a] with [a..ab] must leave [ab..b] alone, or the tombstone is collected
    // although the value it shadows stays behind in [b..b]
    v.push((
        "disjoint-pairs-at-two-levels",
        vec![
            Op::Put(0),
            Op::Put(1),
            Op::Flush,
            Op::CompactAll,
            Op::Put(2),
            Op::Flush,
            Op::CompactAll,
            Op::PutHuge(0),
            Op::Flush,
            Op::CompactAll,
            Op::Put(1),
            Op::Del(2),
            Op::Flush,
            Op::CompactAll,
            // a big newer file above: once it has sunk next to the pair, the size curve lets the
            // compaction of [a..a] with [a..ab] be selected
            Op::PutHuge(0),
            Op::Flush,
        ],
    ));
    // (costly to rebuild: only when asked for by name, see the L-keepall jobs)
    if (prop == "C05" || prop == "C01") && MANY_FILES_SEED.load(std::sync::atomic::Ordering::Relaxed) {
        // flushed files of three 5 KiB entries each, compacted as they come: where nothing is
        // collected and every entry gets a file of its own (row L-keepall) the merges at the
        // oldest levels write six, then twelve output files -- more than ten -- and later merges
        // read that level back
        let mut many = vec![];
        for _ in 0..6 {
            many.extend([Op::PutHuge(0), Op::PutHuge(1), Op::PutHuge(2), Op::Flush, Op::CompactAll]);
        }
        // one more flushed file: the next compactions merge into the twelve-file level
        many.extend([Op::PutHuge(0), Op::PutHuge(1), Op::PutHuge(2), Op::Flush]);
        v.push(("merges-writing-many-files", many));
    }
    if prop == "C05" || prop == "C08" || prop == "C04" {
        // every entry in a file of its own: an old single-key file at the oldest level, and a
        // newer file around it in level 0 (the next compaction re-creates the old file)
        v.push((
            "huge-l15-inside-l0",
            vec![
                Op::PutHuge(1),
                Op::Flush,
                Op::CompactAll,
                Op::PutHuge(0),
                Op::PutHuge(2),
                Op::Flush,
            ],
        ));
        // three stacked levels, one flushed file pending: the next compactions move it down and
        // then merge the file around [ab] with [ab] itself, which re-creates [ab] byte for byte
        // (an output with the setsum of an input)
        v.push((
            "huge-three-stacked",
            vec![
                Op::PutHuge(1),
                Op::Flush,
                Op::CompactAll,
                Op::PutHuge(0),
                Op::PutHuge(2),
                Op::Flush,
                Op::CompactAll,
                Op::PutHuge(0),
                Op::Flush,
            ],
        ));
    }
    if prop == "C05" || prop == "C01" || prop == "C03" || prop == "C04" || prop == "C08" {
        // two stacked files at the two oldest levels of similar size, the older one holding a
        // tombstone that shadows nothing: one more flushed file makes the top-level GC selectable
        v.push((
            "l14-over-l15-dangling-tombstone",
            vec![
                Op::Del(0),
                Op::Put(1),
                Op::Put(2),
                Op::Flush,
                Op::CompactAll,
                Op::Put(0),
                Op::Put(1),
                Op::Put(2),
                Op::Flush,
                Op::CompactAll,
            ],
        ));
        // the same with a tombstone over a value across the two levels
        v.push((
            "l14-tombstones-over-l15-values",
            vec![
                Op::Put(0),
                Op::Put(1),
                Op::Put(2),
                Op::Flush,
                Op::CompactAll,
                Op::Del(0),
                Op::Put(1),
                Op::Del(2),
                Op::Flush,
                Op::CompactAll,
            ],
        ));
    }
    if prop == "C03" || prop == "C01" || prop == "C07" {
        // three single-key files side by side in the oldest level (concatenating cursors, level
        // lower/upper bound searches), under a newer file
        v.push((
            "huge-three-files-in-l15",
            vec![
                Op::PutHuge(1),
                Op::Flush,
                Op::CompactAll,
                Op::PutHuge(0),
                Op::PutHuge(2),
                Op::Flush,
                Op::CompactAll,
                Op::PutHuge(0),
                Op::Flush,
                Op::CompactAll,
            ],
        ));
    }
    if prop == "C05" {
        v.push((
            "big-values-two-levels",
            vec![
                Op::PutBig(0),
                Op::PutBig(1),
                Op::PutBig(2),
                Op::Flush,
                Op::CompactAll,
                Op::PutBig(0),
                Op::PutBig(1),
                Op::PutBig(2),
                Op::Flush,
            ],
        ));
    }
    v
}

static MANY_FILES_SEED: std::sync::atomic::AtomicBool = std::sync::atomic::AtomicBool::new(false);
static TREE_SUBJECT: std::sync::atomic::AtomicBool = std::sync::atomic::AtomicBool::new(false);
static DEADLINE: std::sync::OnceLock<std::time::Instant> = std::sync::OnceLock::new();
static EXPIRED: std::sync::atomic::AtomicBool = std::sync::atomic::AtomicBool::new(false);

/// The wall budget (if any) is over: stop descending.  The depth being explored is then reported
/// as abandoned, never as covered.
fn expired() -> bool {
    use std::sync::atomic::Ordering::Relaxed;
    if EXPIRED.load(Relaxed) {
        return true;
    }
    match DEADLINE.get() {
        Some(d) if std::time::Instant::now() >= *d => {
            EXPIRED.store(true, Relaxed);
            true
        }
        _ => false,
    }
}

static GC_STEPS: std::sync::atomic::AtomicU64 = std::sync::atomic::AtomicU64::new(0);
static GC_STEPS_DROPPING: std::sync::atomic::AtomicU64 = std::sync::atomic::AtomicU64::new(0);
static COMPACTION_STEPS_CHECKED: std::sync::atomic::AtomicU64 = std::sync::atomic::AtomicU64::new(0);

struct RunOutcome {
    /// result of the last step
    last: StepResult,
    findings: Vec<Finding>,
    sig: Option<(u64, u64)>,
    store_stats: (u64, u64, u64, u64),
    horizon: bool,
}

/// Execute seed + ops on a fresh store; evaluate the oracle of `plan.prop` at the end.
fn run(
    plan: &Plan,
    cfg: &Cfg,
    seed: &[Op],
    ops: &[Op],
    scratch: &Scratch,
    scan_stats: &mut ScanStats,
    dedupe: bool,
) -> RunOutcome {
    scratch.clear();
    let dir = scratch.sub("db");
    let mut findings: Vec<Finding> = vec![];
    let mut st = match Store::open(cfg, &dir) {
        Ok(s) => s,
        Err(e) => {
            return RunOutcome {
                last: StepResult::Err(e.clone()),
                findings: vec![(format!("{}:open-error", plan.prop.to_lowercase()), e)],
                sig: None,
                store_stats: (0, 0, 0, 0),
                horizon: false,
            };
        }
    };
    let total = seed.len() + ops.len();
    let mut last = StepResult::Ok;
    for (i, op) in seed.iter().chain(ops.iter()).enumerate() {
        let is_last = i + 1 == total;
        // C05 looks at the dump around the last step when it is a compaction
        let mut before = None;
        let mut levels_before = None;
        if is_last && plan.prop == "C05" && matches!(op, Op::Compact | Op::CompactAll) {
            before = Some((st.dump_tree(), st.n_steps_rewriting_oldest_level));
            if matches!(op, Op::Compact) {
                levels_before = Some(st.tree().verif_levels());
            }
        }
        let r = st.apply(op);
        if let (Some(lb), StepResult::Ok) = (&levels_before, &r) {
            closure_heuristic(lb, &st.tree().verif_levels(), cfg, seed, ops);
        }
        if std::env::var("VERIF_TRACE").is_ok() {
            let what = match &r {
                StepResult::Ok => "ok".to_string(),
                StepResult::Noop => "no-op".to_string(),
                StepResult::Disabled => "disabled".to_string(),
                StepResult::Err(e) => format!("ERR {e}"),
            };
            println!("  step {i} {}: {what}; tree: {}", op.name(), st.describe_tree());
        }
        match &r {
            StepResult::Err(e) => {
                if i < seed.len() || !is_last {
                    // an earlier step failing was already reported by the shorter sequence
                }
                if is_last {
                    findings.push((
                        format!(
                            "{}:op-error:{}:{}",
                            plan.prop.to_lowercase(),
                            op.name().split(':').next().unwrap_or(""),
                            storecheck::short(e)
                        ),
                        format!("fault-free operation {} returned an error: {e}", op.name()),
                    ));
                }
                last = r;
                return RunOutcome {
                    last,
                    findings,
                    sig: None,
                    store_stats: (st.n_flush, st.n_compact, st.n_reopen, st.n_verify),
                    horizon: st.horizon_hit,
                };
            }
            StepResult::Noop | StepResult::Disabled => {
                if i < seed.len() {
                    // seeds are recipes; a no-op inside one is fine
                } else if is_last {
                    last = r;
                    return RunOutcome {
                        last,
                        findings,
                        sig: None,
                        store_stats: (st.n_flush, st.n_compact, st.n_reopen, st.n_verify),
                        horizon: st.horizon_hit,
                    };
                }
            }
            StepResult::Ok => {
                if let Some((Ok(b), l15b)) = before {
                    match st.dump_tree() {
                        Ok(a) => {
                            let l15a = st.n_steps_rewriting_oldest_level;
                            if dedupe {
                                use std::sync::atomic::Ordering::Relaxed;
                                COMPACTION_STEPS_CHECKED.fetch_add(1, Relaxed);
                                if l15a != l15b {
                                    GC_STEPS.fetch_add(1, Relaxed);
                                    if a != b {
                                        GC_STEPS_DROPPING.fetch_add(1, Relaxed);
                                    }
                                }
                            }
                            let policy = cfg.get("gc-policy").unwrap_or("versions = 1");
                            findings.extend(storecheck::check_compaction_step(
                                &b,
                                &a,
                                l15a != l15b,
                                policy,
                            ));
                        }
                        Err(e) => findings.push(("c05:dump-failed".into(), e)),
                    }
                }
            }
        }
        last = r;
    }
    // leaf oracles
    match plan.prop.as_str() {
        "C01" => findings.extend(storecheck::check_point_reads(&st)),
        "C03" => {
            // the program tree is only walked once per distinct read signature
            static SEEN: std::sync::Mutex<Option<HashSet<u64>>> = std::sync::Mutex::new(None);
            let fresh = match st.read_signature() {
                Ok(h) => SEEN
                    .lock()
                    .unwrap()
                    .get_or_insert_with(HashSet::new)
                    .insert(vcore::stable_hash(&(h, &cfg.name))),
                Err(_) => true,
            };
            scan_stats.leaves += 1;
            if fresh {
                scan_stats.distinct_read_states += 1;
            }
            if fresh || !dedupe {
            findings.extend(storecheck::check_scans(
                &st,
                plan.scan_len_full,
                plan.scan_len_rest,
                scan_stats,
            ));
            }
        }
        "C04" => {
            findings.extend(storecheck::check_setsums(&st));
            findings.extend(storecheck::check_manifest_verifier(&st));
        }
        "C05" => {
            // reads are unchanged too
            findings.extend(storecheck::check_point_reads(&st));
        }
        "C07" => {
            findings.extend(storecheck::check_kept_cursors(&st));
        }
        "C08" => {
            findings.extend(storecheck::check_files_present(&st));
            findings.extend(storecheck::check_point_reads(&st));
        }
        "C20" => {
            if st.would_stall() {
                // a stalled state must be relieved by running compactions until idle
                let mut n = 0;
                loop {
                    match st.apply(&Op::Compact) {
                        StepResult::Ok => {
                            n += 1;
                            if n > 64 {
                                findings.push((
                                    "c20:compaction-livelock".into(),
                                    format!(
                                        "64 compactions did not relieve the stall; tree: {}",
                                        st.describe_tree()
                                    ),
                                ));
                                break;
                            }
                        }
                        StepResult::Err(e) => {
                            findings.push((
                                format!("c20:compaction-error:{}", storecheck::short(&e)),
                                e,
                            ));
                            break;
                        }
                        _ => break,
                    }
                    if !st.would_stall() {
                        break;
                    }
                }
                if st.would_stall() && findings.is_empty() {
                    findings.push((
                        format!("c20:stalled-and-no-compaction-selectable:{}", cfg.name),
                        format!(
                            "level 0 holds back writes but no compaction is selectable after {n} compactions (configuration {}); tree: {}",
                            cfg.name,
                            st.describe_tree()
                        ),
                    ));
                }
            }
        }
        _ => panic!("unknown property {}", plan.prop),
    }
    let sig = Some(st.signature());
    RunOutcome {
        last,
        findings,
        sig,
        store_stats: (st.n_flush, st.n_compact, st.n_reopen, st.n_verify),
        horizon: st.horizon_hit,
    }
}

struct Item {
    cfg: Cfg,
    seed_name: &'static str,
    seed: Vec<Op>,
    prefix: Vec<Op>,
}

fn explore(
    plan: &Plan,
    item: &Item,
    ops: &mut Vec<Op>,
    scratch: &Scratch,
    rep: &mut Report,
    scan_stats: &mut ScanStats,
) {
    if expired() {
        return;
    }
    let out = run(plan, &item.cfg, &item.seed, ops, scratch, scan_stats, true);
    rep.evaluations += 1;
    rep.transitions += (item.seed.len() + ops.len()) as u64;
    rep.traces_validated += 1;
    match out.last {
        StepResult::Noop | StepResult::Disabled => {
            rep.pruned_noops += 1;
            return;
        }
        _ => {}
    }
    if out.horizon {
        rep.count("compaction_horizon_hits", 1);
    }
    if let Some((s, shape)) = out.sig {
        rep.states.insert(s);
        rep.outcomes.insert(shape);
        let (f, c, r, v) = out.store_stats;
        if f + c + r + v > 0 {
            rep.nontrivial.insert(s);
        }
        if c > 0 {
            rep.count("sequences_with_compaction", 1);
        }
        if r > 0 {
            rep.count("sequences_with_reopen", 1);
        }
        if v > 0 {
            rep.count("sequences_with_verifier_pass", 1);
        }
        if f > 0 {
            rep.count("sequences_with_flush", 1);
        }
    }
    if rep.evaluations % 997 == 1 {
        rep.sample(json!({
            "cfg": item.cfg.name,
            "seed": item.seed_name,
            "ops": ops_to_json(ops),
        }));
    }
    for (sig, detail) in out.findings.iter() {
        // replay before report
        let again = run(plan, &item.cfg, &item.seed, ops, scratch, scan_stats, false);
        if !again.findings.iter().any(|(s, _)| s == sig) {
            rep.count("non_reproducible_findings", 1);
            eprintln!(
                "NOT REPRODUCED {sig}: {detail}; cfg {} seed {} ops {:?}",
                item.cfg.name,
                item.seed_name,
                ops.iter().map(|o| o.name()).collect::<Vec<_>>()
            );
            continue;
        }
        let mut all: Vec<Op> = item.seed.clone();
        all.extend(ops.iter().cloned());
        let minimal = if rep.violation_sigs.contains_key(sig) {
            all
        } else {
            minimise(plan, &item.cfg, all, sig, scratch, scan_stats)
        };
        rep.violation(Violation {
            property: plan.prop.clone(),
            signature: sig.clone(),
            detail: detail.clone(),
            case: json!({
                "prop": plan.prop,
                "cfg": item.cfg.to_json(),
                "ops": ops_to_json(&minimal),
                "scan_len_full": plan.scan_len_full,
                "scan_len_rest": plan.scan_len_rest,
            }),
        });
    }
    if matches!(out.last, StepResult::Err(_)) {
        return;
    }
    if ops.len() >= plan.depth {
        return;
    }
    for op in plan.alphabet.iter() {
        // a flush directly after a flush, or walking a cursor that does not exist, is pruned by
        // the subject itself (Noop / Disabled); nothing is filtered here.
        ops.push(op.clone());
        explore(plan, item, ops, scratch, rep, scan_stats);
        ops.pop();
    }
}

static CLOSURE_SUSPECTS: std::sync::atomic::AtomicU64 = std::sync::atomic::AtomicU64::new(0);
static CLOSURE_EXAMPLES: std::sync::Mutex<Vec<String>> = std::sync::Mutex::new(Vec::new());

/// Search heuristic, not an oracle: a compaction step whose inputs are not closed under "a file
/// of a deeper level (up to the output level) whose key range overlaps an input is an input too"
/// moves data below a file it may shadow.  Whether that is a wrong read depends on the keys the
/// files really share, which the read oracles decide; this only counts and samples such steps.
fn closure_heuristic(before: &[Vec<sst::SstMetadata>], after: &[Vec<sst::SstMetadata>], cfg: &Cfg, seed: &[Op], ops: &[Op]) {
    use std::collections::BTreeSet;
    let place = |ls: &[Vec<sst::SstMetadata>]| -> BTreeSet<(usize, [u8; 32])> {
        ls.iter().enumerate().flat_map(|(i, l)| l.iter().map(move |m| (i, m.setsum))).collect()
    };
    let (pb, pa) = (place(before), place(after));
    let gone: Vec<(usize, [u8; 32])> = pb.difference(&pa).cloned().collect();
    let new: Vec<(usize, [u8; 32])> = pa.difference(&pb).cloned().collect();
    let Some(out_level) = new.iter().map(|x| x.0).max() else { return };
    let is_input = |l: usize, s: &[u8; 32]| gone.contains(&(l, *s));
    for (i, level) in before.iter().enumerate() {
        for a in level.iter().filter(|m| is_input(i, &m.setsum)) {
            for (j, deeper) in before.iter().enumerate().skip(i + 1).take(out_level.saturating_sub(i)) {
                for b in deeper.iter() {
                    if b.first_key <= a.last_key && a.first_key <= b.last_key && !is_input(j, &b.setsum) {
                        CLOSURE_SUSPECTS.fetch_add(1, std::sync::atomic::Ordering::Relaxed);
                        let mut ex = CLOSURE_EXAMPLES.lock().unwrap();
                        if ex.len() < 5 {
                            let mut all: Vec<Op> = seed.to_vec();
                            all.extend(ops.iter().cloned());
                            ex.push(format!(
                                "cfg {}: input L{i} [{}..{}] sinks to L{out_level} past non-input L{j} [{}..{}]; history {:?}",
                                cfg.name,
                                vcore::esc(&a.first_key), vcore::esc(&a.last_key), vcore::esc(&b.first_key), vcore::esc(&b.last_key),
                                all.iter().map(|o| o.name()).collect::<Vec<_>>()
                            ));
                        }
                    }
                }
            }
        }
    }
}

/// Greedy delta-debugging: drop operations while the same signature is still reported.
fn minimise(
    plan: &Plan,
    cfg: &Cfg,
    mut ops: Vec<Op>,
    sig: &str,
    scratch: &Scratch,
    scan_stats: &mut ScanStats,
) -> Vec<Op> {
    let mut i = 0;
    while i < ops.len() {
        let mut cand = ops.clone();
        cand.remove(i);
        let out = run(plan, cfg, &[], &cand, scratch, scan_stats, false);
        if out.findings.iter().any(|(s, _)| s == sig) {
            ops = cand;
        } else {
            i += 1;
        }
    }
    ops
}

fn main() {
    let args = Args::parse();
    vcore::quiet_panics();
    lsmtk::verif::set_sched_hook(Some(seqmc::store::stall_hook));
    if let Some(rf) = args.replay_case() {
        replay(&rf);
        return;
    }
    let prop = args.get("prop").expect("--prop").to_string();
    let thorough = args.tier_thorough();
    let depth = args.usize("depth", if thorough { 5 } else { 4 });
    let alphabet = match args.get("alphabet") {
        Some(a) => a.split(',').map(Op::parse).collect(),
        None => alphabet_for(&prop),
    };
    let plan = Plan {
        prop: prop.clone(),
        alphabet,
        depth,
        scan_len_full: args.usize("scan-len-full", if thorough { 4 } else { 3 }),
        scan_len_rest: args.usize("scan-len-rest", if thorough { 3 } else { 2 }),
    };
    let grid = config_grid();
    let cfg_names: Vec<String> = args
        .get("cfgs")
        .unwrap_or("A-min,B-l0,C-default")
        .split(',')
        .map(|s| s.to_string())
        .collect();
    let cfgs: Vec<Cfg> = cfg_names
        .iter()
        .map(|n| {
            grid.iter()
                .find(|c| &c.name == n)
                .unwrap_or_else(|| panic!("no configuration row {n}"))
                .clone()
        })
        .collect();
    // --salts N: run every configuration with N different value salts
    let salts = args.usize("salts", 1);
    let cfgs: Vec<Cfg> = cfgs
        .into_iter()
        .flat_map(|c| {
            (0..salts).map(move |s| {
                let mut c2 = c.clone();
                if s > 0 {
                    c2.name = format!("{}+salt{s}", c2.name);
                    c2.args.push(("verif-salt".to_string(), s.to_string()));
                }
                c2
            })
        })
        .collect();
    // --subject tree: a bare LsmTree fed by external ingests (alphabet ing:*, C, C*, R, V)
    if args.get("subject") == Some("tree") {
        TREE_SUBJECT.store(true, std::sync::atomic::Ordering::Relaxed);
    }
    let cfgs: Vec<Cfg> = cfgs
        .into_iter()
        .map(|mut c| {
            if args.get("subject") == Some("tree") {
                c.name = format!("{}+tree", c.name);
                c.args.push(("verif-subject".to_string(), "tree".to_string()));
            }
            c
        })
        .collect();
    let seed_depth = args.usize("seed-depth", depth.saturating_sub(1));
    let only_seed = args.get("only-seed");
    if only_seed == Some("merges-writing-many-files") {
        MANY_FILES_SEED.store(true, std::sync::atomic::Ordering::Relaxed);
    }
    // work items: (cfg, seed, first op) -- the first level of the tree is the partition
    let mut items = vec![];
    for cfg in cfgs.iter() {
        for (name, seed) in seeds(&prop) {
            if let Some(s) = only_seed {
                if s != name {
                    continue;
                }
            }
            for op in plan.alphabet.iter() {
                // the one-op history itself ...
                items.push(Item {
                    cfg: cfg.clone(),
                    seed_name: name,
                    seed: seed.clone(),
                    prefix: vec![op.clone()],
                });
                // ... and one work item per two-op prefix (the partition of the tree)
                for op2 in plan.alphabet.iter() {
                    items.push(Item {
                        cfg: cfg.clone(),
                        seed_name: name,
                        seed: seed.clone(),
                        prefix: vec![op.clone(), op2.clone()],
                    });
                }
            }
            // the seed state itself (depth 0)
            items.push(Item {
                cfg: cfg.clone(),
                seed_name: name,
                seed: seed.clone(),
                prefix: vec![],
            });
        }
    }
    let job = format!("seq_store-{}", prop);
    let mk = || Report::new(&job, &prop);
    // --budget SECS [--min-depth M]: iterative deepening M, M+1, ..., depth inside a wall budget.
    // Each depth is a complete exploration of its own; when the budget runs out the depth in
    // progress is abandoned and reported as a cap, and the verdict is for the last completed depth.
    let budget = args.get("budget").map(|b| b.parse::<u64>().expect("--budget SECS"));
    let min_depth = args.usize("min-depth", depth).min(depth);
    let depths: Vec<usize> = if budget.is_some() { (min_depth..=depth).collect() } else { vec![depth] };
    if let Some(b) = budget {
        let _ = DEADLINE.set(std::time::Instant::now() + std::time::Duration::from_secs(b));
    }
    let items = std::sync::Arc::new(items);
    let mut completed: Option<(usize, Report)> = None;
    let mut abandoned: Option<(usize, Report)> = None;
    for d in depths {
    let mut plan_d = plan.clone();
    plan_d.depth = d;
    let seed_depth = if args.get("seed-depth").is_some() { seed_depth } else { d.saturating_sub(1) };
    let plan_ref = &plan_d;
    let items_d: Vec<&Item> = items.iter().collect();
    let total = vcore::parallel(items_d, args.threads(), mk, |item, rep| {
        let item: &Item = item;
        let scratch = Scratch::new("seq");
        let mut scan_stats = ScanStats {
            programs: 0,
            calls: 0,
            leaves: 0,
            distinct_read_states: 0,
            outcomes: HashSet::new(),
        };
        let mut p = plan_ref.clone();
        if item.seed_name != "empty" {
            p.depth = seed_depth;
        }
        let mut ops = item.prefix.clone();
        if ops.len() < 2 {
            // depth-0 / depth-1 item: evaluate only that history itself; its subtree belongs to
            // the two-op items
            p.depth = p.depth.min(ops.len());
        } else {
            if p.depth < 2 {
                return;
            }
            // a two-op prefix whose first op is a no-op / disabled / failing is not a history
            let first = run(&p, &item.cfg, &item.seed, &ops[..1], &scratch, &mut scan_stats, false);
            if !matches!(first.last, StepResult::Ok) {
                return;
            }
        }
        explore(&p, item, &mut ops, &scratch, rep, &mut scan_stats);
        rep.count("cursor_programs", scan_stats.programs);
        rep.count("scan_leaves", scan_stats.leaves);
        rep.count("scan_distinct_read_states", scan_stats.distinct_read_states);
        rep.count("cursor_calls", scan_stats.calls);
        rep.outcomes.extend(scan_stats.outcomes);
    });
    if expired() {
        abandoned = Some((d, total));
        break;
    }
    completed = Some((d, total));
    }
    let completed_depth = completed.as_ref().map(|c| c.0);
    let mut total = match completed {
        Some((_, r)) => r,
        None => mk(),
    };
    if let Some((d, r)) = abandoned {
        let what = match completed_depth {
            Some(c) => format!(
                "wall budget of {} s ran out {} histories into depth {d}; every history <= {c} was completed (the counts are those of depth {c}; violations found in the abandoned depth are kept)",
                budget.unwrap_or(0), r.evaluations
            ),
            None => format!(
                "wall budget of {} s ran out {} histories into depth {d}, the first depth tried: nothing is completely covered",
                budget.unwrap_or(0), r.evaluations
            ),
        };
        if completed_depth.is_none() || !r.violations.is_empty() {
            total.merge(r);
        }
        total.cap(&what);
    }
    let depth = completed_depth.unwrap_or(depth);
    let seed_depth = if args.get("seed-depth").is_some() { seed_depth } else { depth.saturating_sub(1) };
    {
        use std::sync::atomic::Ordering::Relaxed;
        if prop == "C05" {
            total.count("compaction_steps_checked", COMPACTION_STEPS_CHECKED.load(Relaxed));
            total.count("steps_that_rewrote_the_oldest_level", GC_STEPS.load(Relaxed));
            total.count("gc_steps_that_dropped_entries", GC_STEPS_DROPPING.load(Relaxed));
            total.count("heuristic_compactions_sinking_past_an_overlapping_file", CLOSURE_SUSPECTS.load(Relaxed));
            for e in CLOSURE_EXAMPLES.lock().unwrap().iter() {
                eprintln!("closure heuristic: {e}");
            }
        }
    }
    total.bound = json!({
        "depth": depth,
        "depth_requested": plan.depth,
        "wall_budget_s": budget,
        "seed_depth": seed_depth,
        "alphabet": plan.alphabet.iter().map(|o| o.name()).collect::<Vec<_>>(),
        "configurations": cfg_names,
        "seeds": seeds(&prop).iter().map(|(n, s)| json!({"name": n, "ops": ops_to_json(s)})).collect::<Vec<_>>(),
        "scan_program_len": [plan.scan_len_full, plan.scan_len_rest],
    });
    total.rule = format!(
        "every operation sequence of length <= {depth} over the alphabet (<= {seed_depth} after each seed state), per configuration row, each executed from a fresh store on the real lsmtk code; a sequence whose last step is a no-op or disabled is pruned (it equals the sequence without that step); distinct = abstract state signature (model, tree shape, memtable flags, cursor positions); non-trivial = the history contains at least one flush, compaction, reopen or verifier pass"
    );
    total.assumptions = vec![
        "background loops are single-stepped through cfg(rescrv_blue_verif) hooks; one iteration is atomic".into(),
        "keys {a, ab, b}; values unique per step".into(),
    ];
    total.finish(&args, "seq_store");
}

fn replay(rf: &vcore::Value) {
    let case = &rf["case"];
    let prop = case["prop"].as_str().unwrap().to_string();
    let cfg = Cfg::from_json(&case["cfg"]);
    let ops = ops_from_json(&case["ops"]);
    let plan = Plan {
        prop: prop.clone(),
        alphabet: vec![],
        depth: 0,
        scan_len_full: case["scan_len_full"].as_u64().unwrap_or(3) as usize,
        scan_len_rest: case["scan_len_rest"].as_u64().unwrap_or(2) as usize,
    };
    let scratch = Scratch::new("replay");
    let mut ss = ScanStats {
        programs: 0,
        calls: 0,
        leaves: 0,
        distinct_read_states: 0,
        outcomes: HashSet::new(),
    };
    println!(
        "replaying {} on configuration {}: {:?}",
        prop,
        cfg.name,
        ops.iter().map(|o| o.name()).collect::<Vec<_>>()
    );
    let out = run(&plan, &cfg, &[], &ops, &scratch, &mut ss, false);
    let want = rf["signature"].as_str().unwrap_or("");
    let mut hit = false;
    for (sig, detail) in out.findings.iter() {
        println!("finding {sig}: {detail}");
        if sig == want {
            hit = true;
        }
    }
    if out.findings.is_empty() {
        println!("no finding: the property holds on this case");
    }
    if hit {
        println!("REPRODUCED {want}");
        std::process::exit(1);
    }
    std::process::exit(if out.findings.is_empty() { 0 } else { 1 });
}
