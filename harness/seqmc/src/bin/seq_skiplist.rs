//! C17 (sequential half): every operation sequence up to a depth over {insert, open iterator,
//! iterator movements, drop the list} on the real skipfree::SkipList with the allocation registry
//! on.  Oracle: the iterator is a live view of a sorted set (next = smallest key greater than the
//! current one, prev = greatest smaller, seek = first >=), and "an iterator remains valid for as
//! long as it is held": using it after the list was dropped must not touch a released node.

use std::collections::BTreeSet;

use seqmc::refcursor::bump;
use vcore::{Args, Report, Violation, json};

#[derive(Clone, Copy, Debug, PartialEq, Eq, Hash)]
enum Op {
    Insert(u64),
    Open,
    First,
    Last,
    Seek(u64),
    Next,
    Prev,
    DropList,
}

fn alphabet() -> Vec<Op> {
    vec![
        Op::Insert(2),
        Op::Insert(1),
        Op::Insert(3),
        Op::Open,
        Op::Next,
        Op::Prev,
        Op::First,
        Op::Last,
        Op::Seek(2),
        Op::DropList,
    ]
}

fn name(op: &Op) -> String {
    format!("{op:?}")
}

fn parse(s: &str) -> Op {
    for o in alphabet() {
        if name(&o) == s {
            return o;
        }
    }
    panic!("bad op {s}")
}

/// Reference position of the iterator.
#[derive(Clone, Copy, Debug, PartialEq)]
enum Pos {
    /// not valid, at the end (null): next stays, prev goes to the last key
    End,
    /// not valid, at the head sentinel
    Head,
    At(u64),
}

/// Returns Err(signature, detail) on the first disagreement.
fn run(ops: &[Op], height: usize) -> Result<(u64, bool), (String, String)> {
    type SL = skipfree::SkipList<u64, u64, 4>;
    skipfree::verif::set_registry(true);
    skipfree::verif::set_fixed_height(height);
    let mut list: Option<SL> = Some(SL::default());
    let mut set: BTreeSet<u64> = BTreeSet::new();
    let mut it: Option<skipfree::SkipListIterator<u64, u64, 4>> = None;
    let mut pos = Pos::End;
    let mut calls = 0u64;
    let mut dropped = false;
    for (i, op) in ops.iter().enumerate() {
        calls += 1;
        let r = vcore::catch(|| -> Result<(), (String, String)> {
            match op {
                Op::Insert(k) => {
                    if let Some(l) = list.as_ref() {
                        if !set.contains(k) {
                            l.insert(*k, *k * 10);
                            set.insert(*k);
                        }
                    }
                }
                Op::Open => {
                    if let Some(l) = list.as_ref() {
                        it = Some(l.iter());
                        pos = Pos::End;
                    }
                }
                Op::DropList => {
                    list = None;
                    dropped = true;
                }
                Op::First | Op::Last | Op::Seek(_) | Op::Next | Op::Prev => {
                    let Some(itr) = it.as_mut() else {
                        return Ok(());
                    };
                    match op {
                        Op::First => {
                            itr.seek_to_first();
                            // documented: "seek to the empty start"; the implementation lands on
                            // the first key.  Accept what the code documents in its tests: first
                            // key valid.
                            pos = match set.iter().next() {
                                Some(k) => Pos::At(*k),
                                None => Pos::End,
                            };
                        }
                        Op::Last => {
                            itr.seek_to_last();
                            pos = Pos::End;
                        }
                        Op::Seek(k) => {
                            itr.seek(k);
                            pos = match set.range(*k..).next() {
                                Some(x) => Pos::At(*x),
                                None => Pos::End,
                            };
                        }
                        Op::Next => {
                            itr.next();
                            pos = match pos {
                                Pos::End => Pos::End,
                                Pos::Head => match set.iter().next() {
                                    Some(k) => Pos::At(*k),
                                    None => Pos::End,
                                },
                                Pos::At(p) => match set.range(p + 1..).next() {
                                    Some(k) => Pos::At(*k),
                                    None => Pos::End,
                                },
                            };
                        }
                        Op::Prev => {
                            itr.prev();
                            pos = match pos {
                                Pos::End => match set.iter().next_back() {
                                    Some(k) => Pos::At(*k),
                                    None => Pos::Head,
                                },
                                Pos::Head => Pos::Head,
                                Pos::At(p) => match set.range(..p).next_back() {
                                    Some(k) => Pos::At(*k),
                                    None => Pos::Head,
                                },
                            };
                        }
                        _ => unreachable!(),
                    }
                    let got = if itr.is_valid() {
                        Some((*itr.key(), *itr.value()))
                    } else {
                        None
                    };
                    let want = match pos {
                        Pos::At(k) => Some((k, k * 10)),
                        _ => None,
                    };
                    if got != want {
                        return Err((
                            format!(
                                "c17:iterator:{}:{}",
                                match (got, want) {
                                    (None, Some(_)) => "missing-key",
                                    (Some(_), None) => "unexpected-key",
                                    _ => "wrong-key",
                                },
                                format!("{op:?}").split('(').next().unwrap().to_lowercase()
                            ),
                            format!(
                                "after step {i} ({op:?}) the iterator shows {got:?}, the sorted-set reference says {want:?}"
                            ),
                        ));
                    }
                }
            }
            Ok(())
        });
        match r {
            Err(p) => {
                let uaf = p.contains("released node");
                skipfree::verif::set_registry(false);
                return Err((
                    if uaf {
                        format!(
                            "c17:iterator-use-after-free:{}",
                            if dropped { "list-dropped" } else { "list-alive" }
                        )
                    } else {
                        format!("c17:panic:{}", seqmc::storecheck::short(&p))
                    },
                    format!("step {i} ({op:?}) panicked: {p}"),
                ));
            }
            Ok(Err(e)) => {
                skipfree::verif::set_registry(false);
                return Err(e);
            }
            Ok(Ok(())) => {}
        }
    }
    drop(it);
    drop(list);
    skipfree::verif::set_registry(false);
    Ok((calls, dropped))
}

fn main() {
    let args = Args::parse();
    vcore::quiet_panics();
    if let Some(rf) = args.replay_case() {
        let ops: Vec<Op> = rf["case"]["ops"]
            .as_array()
            .unwrap()
            .iter()
            .map(|s| parse(s.as_str().unwrap()))
            .collect();
        let h = rf["case"]["height"].as_u64().unwrap_or(1) as usize;
        println!("replaying {ops:?} at height {h}");
        match run(&ops, h) {
            Ok(_) => {
                println!("no finding");
                std::process::exit(0)
            }
            Err((s, d)) => {
                println!("finding {s}: {d}");
                println!("REPRODUCED {s}");
                std::process::exit(1)
            }
        }
    }
    let depth = args.usize("depth", if args.tier_thorough() { 7 } else { 6 });
    let alpha = alphabet();
    let mut rep = Report::new("seq_skiplist", "C17");
    // single-threaded: the registry and height script are process-global
    for height in [1usize, 2, 4] {
        for len in 1..=depth {
            let mut idx = vec![0usize; len];
            loop {
                let ops: Vec<Op> = idx.iter().map(|i| alpha[*i]).collect();
                // prune: an iterator movement before any Open is a no-op; skip those sequences
                let first_open = ops.iter().position(|o| *o == Op::Open);
                let moves_before_open = ops
                    .iter()
                    .enumerate()
                    .any(|(i, o)| {
                        matches!(o, Op::Next | Op::Prev | Op::First | Op::Last | Op::Seek(_))
                            && first_open.map(|f| i < f).unwrap_or(true)
                    });
                if moves_before_open {
                    rep.pruned_noops += 1;
                } else {
                    rep.evaluations += 1;
                    rep.traces_validated += 1;
                    match run(&ops, height) {
                        Ok((calls, dropped)) => {
                            rep.transitions += calls;
                            let h = vcore::stable_hash(&(height, &ops));
                            rep.states.insert(h);
                            if dropped && first_open.is_some() {
                                rep.nontrivial.insert(h);
                            }
                            rep.outcomes.insert(vcore::stable_hash(&(dropped, first_open.is_some())));
                        }
                        Err((sig, detail)) => {
                            // replay before report
                            if let Err((s2, _)) = run(&ops, height) {
                                if s2 == sig {
                                    rep.outcomes.insert(vcore::stable_hash(&sig));
                                    rep.violation(Violation {
                                        property: "C17".into(),
                                        signature: sig,
                                        detail,
                                        case: json!({"ops": ops.iter().map(name).collect::<Vec<_>>(), "height": height}),
                                    });
                                }
                            }
                        }
                    }
                    if rep.evaluations % 50021 == 1 {
                        rep.sample(json!({"height": height, "ops": ops.iter().map(name).collect::<Vec<_>>()}));
                    }
                }
                if !bump(&mut idx, alpha.len()) {
                    break;
                }
            }
        }
    }
    rep.bound = json!({"depth": depth, "alphabet": alpha.iter().map(name).collect::<Vec<_>>(), "heights": [1, 2, 4]});
    rep.rule = format!("every sequence of length <= {depth} over the alphabet, at node heights 1, 2 and 4, on the real SkipList<u64,u64,4> with the allocation registry on (released nodes are quarantined and every dereference asserts liveness); non-trivial = the list is dropped while an iterator exists");
    rep.finish(&args, "seq_skiplist");
}
