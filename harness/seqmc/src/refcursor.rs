//! A vector cursor defined from the specification (same movement semantics as
//! sst::reference::ReferenceCursor: positions -1..=n, saturating), plus cursor programs.

use sst::Cursor;

#[derive(Clone, Debug, PartialEq, Eq, PartialOrd, Ord, Hash)]
pub struct Entry {
    pub key: Vec<u8>,
    pub ts: u64,
    pub value: Option<Vec<u8>>,
}

/// Sort order of the sst crate: key ascending, timestamp descending.
pub fn entry_order(a: &Entry, b: &Entry) -> std::cmp::Ordering {
    a.key.cmp(&b.key).then(b.ts.cmp(&a.ts))
}

#[derive(Clone, Debug, PartialEq, Eq, Hash)]
pub enum Move {
    First,
    Last,
    Seek(Vec<u8>),
    Next,
    Prev,
    /// `next` until the cursor is exhausted
    ToEnd,
}

impl Move {
    pub fn name(&self) -> String {
        match self {
            Move::First => "seek_to_first".into(),
            Move::Last => "seek_to_last".into(),
            Move::Seek(k) => format!("seek({})", vcore::esc(k)),
            Move::Next => "next".into(),
            Move::Prev => "prev".into(),
            Move::ToEnd => "to_end".into(),
        }
    }

    pub fn parse(s: &str) -> Move {
        match s {
            "seek_to_first" => Move::First,
            "seek_to_last" => Move::Last,
            "next" => Move::Next,
            "prev" => Move::Prev,
            "to_end" => Move::ToEnd,
            _ => {
                let inner = s
                    .strip_prefix("seek(")
                    .and_then(|x| x.strip_suffix(")"))
                    .unwrap_or_else(|| panic!("bad move {s}"));
                Move::Seek(unesc(inner))
            }
        }
    }

    pub fn apply<C: Cursor + ?Sized>(&self, c: &mut C) -> Result<(), sst::SError> {
        match self {
            Move::First => c.seek_to_first(),
            Move::Last => c.seek_to_last(),
            Move::Seek(k) => c.seek(k),
            Move::Next => c.next(),
            Move::Prev => c.prev(),
            Move::ToEnd => {
                for _ in 0..10_000 {
                    c.next()?;
                    if c.key().is_none() {
                        break;
                    }
                }
                Ok(())
            }
        }
    }
}

pub fn unesc(s: &str) -> Vec<u8> {
    let b = s.as_bytes();
    let mut out = vec![];
    let mut i = 0;
    while i < b.len() {
        if b[i] == b'\\' && i + 3 < b.len() && b[i + 1] == b'x' {
            let h = std::str::from_utf8(&b[i + 2..i + 4]).unwrap();
            out.push(u8::from_str_radix(h, 16).unwrap());
            i += 4;
        } else {
            out.push(b[i]);
            i += 1;
        }
    }
    out
}

/// Reference cursor over a sorted vector of entries.
#[derive(Clone, Debug)]
pub struct RefCursor {
    pub entries: Vec<Entry>,
    pub idx: isize,
}

impl RefCursor {
    pub fn new(mut entries: Vec<Entry>) -> Self {
        entries.sort_by(entry_order);
        RefCursor { entries, idx: -1 }
    }

    pub fn apply(&mut self, m: &Move) {
        let n = self.entries.len() as isize;
        match m {
            Move::First => self.idx = -1,
            Move::Last => self.idx = n,
            Move::Seek(k) => {
                // first entry whose key >= k (any timestamp: seek uses ts = MAX which sorts first)
                self.idx = self
                    .entries
                    .iter()
                    .position(|e| e.key.as_slice() >= k.as_slice())
                    .map(|p| p as isize)
                    .unwrap_or(n);
            }
            Move::Next => self.idx = (self.idx + 1).min(n),
            Move::Prev => self.idx = (self.idx - 1).max(-1),
            Move::ToEnd => self.idx = n,
        }
    }

    pub fn current(&self) -> Option<&Entry> {
        if self.idx < 0 || self.idx >= self.entries.len() as isize {
            None
        } else {
            Some(&self.entries[self.idx as usize])
        }
    }
}

pub fn observe<C: Cursor + ?Sized>(c: &C) -> Option<Entry> {
    c.key().map(|k| Entry {
        key: k.key.to_vec(),
        ts: k.timestamp,
        value: c.value().map(|v| v.to_vec()),
    })
}

/// Increment an odometer of digits in base `base`; false when it wraps to all zeros.
pub fn bump(idxs: &mut [usize], base: usize) -> bool {
    for p in (0..idxs.len()).rev() {
        idxs[p] += 1;
        if idxs[p] < base {
            return true;
        }
        idxs[p] = 0;
    }
    false
}

pub struct ProgramFailure {
    pub program: Vec<Move>,
    pub expected: Option<Entry>,
    pub got: Result<Option<Entry>, String>,
}

/// Run every program of length 1..=max_len over `moves` on a fresh cursor from `mk` and on the
/// reference; compare the observation after the *last* move (every prefix is itself a program).
/// `compare_ts`: whether timestamps are part of the observation.
/// Returns (programs run, cursor calls made, first failure).
pub fn check_all_programs<'a>(
    mk: &mut dyn FnMut() -> Result<Box<dyn Cursor + 'a>, String>,
    reference: &RefCursor,
    moves: &[Move],
    max_len: usize,
    compare_ts: bool,
    outcomes: &mut std::collections::HashSet<u64>,
) -> (u64, u64, Option<ProgramFailure>) {
    let mut programs = 0u64;
    let mut calls = 0u64;
    let mut idxs: Vec<usize> = vec![];
    // iterative deepening by length so the shortest failing program is found first
    for len in 1..=max_len {
        idxs.clear();
        idxs.resize(len, 0);
        loop {
            programs += 1;
            let mut r = reference.clone();
            r.idx = -1;
            let got: Result<Option<Entry>, String> = (|| {
                let mut c = mk()?;
                for &i in idxs.iter() {
                    calls += 1;
                    moves[i].apply(&mut *c).map_err(|e| format!("{e}"))?;
                }
                Ok(observe(&*c))
            })();
            for &i in idxs.iter() {
                r.apply(&moves[i]);
            }
            let expected = r.current().cloned();
            let same = match &got {
                Ok(g) => match (g, &expected) {
                    (None, None) => true,
                    (Some(a), Some(b)) => {
                        a.key == b.key && a.value == b.value && (!compare_ts || a.ts == b.ts)
                    }
                    _ => false,
                },
                Err(_) => false,
            };
            outcomes.insert(vcore::stable_hash(&(
                expected.as_ref().map(|e| (&e.key, &e.value)),
                r.idx,
            )));
            if !same {
                return (
                    programs,
                    calls,
                    Some(ProgramFailure {
                        program: idxs.iter().map(|&i| moves[i].clone()).collect(),
                        expected,
                        got,
                    }),
                );
            }
            if !bump(&mut idxs, moves.len()) {
                break;
            }
        }
    }
    (programs, calls, None)
}

pub fn fmt_entry(e: &Option<Entry>) -> String {
    match e {
        None => "None".to_string(),
        Some(e) => format!(
            "({}@{} => {})",
            vcore::esc(&e.key),
            e.ts,
            e.value
                .as_ref()
                .map(|v| if v.len() > 24 {
                    format!("<{} bytes>", v.len())
                } else {
                    vcore::esc(v)
                })
                .unwrap_or("TOMBSTONE".into())
        ),
    }
}

/// Run, on ONE cursor, every program of length 1..=max_len that begins with an absolute
/// positioning call (seek_to_first / seek_to_last / seek) followed by arbitrary calls, one after
/// the other, comparing with the reference after EVERY call.  The concatenation is itself one
/// long legal program, so state left behind by an earlier program is part of what is checked.
/// Returns (programs, calls, first failure with the calls made since the last absolute move).
pub fn check_chained_programs<C: Cursor + ?Sized>(
    c: &mut C,
    reference: &RefCursor,
    moves: &[Move],
    max_len: usize,
    compare_ts: bool,
    outcomes: &mut std::collections::HashSet<u64>,
) -> (u64, u64, Option<ProgramFailure>) {
    let abs: Vec<usize> = moves
        .iter()
        .enumerate()
        .filter(|(_, m)| matches!(m, Move::First | Move::Last | Move::Seek(_)))
        .map(|(i, _)| i)
        .collect();
    let mut r = reference.clone();
    r.idx = -1;
    let mut programs = 0u64;
    let mut calls = 0u64;
    let mut previous: Vec<Move> = vec![];
    for len in 1..=max_len {
        for &first in abs.iter() {
            let mut rest = vec![0usize; len - 1];
            loop {
                programs += 1;
                let mut prog: Vec<Move> = vec![moves[first].clone()];
                prog.extend(rest.iter().map(|&i| moves[i].clone()));
                for (n, m) in prog.iter().enumerate() {
                    calls += 1;
                    let res = m.apply(c);
                    r.apply(m);
                    let expected = r.current().cloned();
                    let got: Result<Option<Entry>, String> = match res {
                        Err(e) => Err(format!("{e}")),
                        Ok(()) => Ok(observe(c)),
                    };
                    let same = match &got {
                        Ok(g) => match (g, &expected) {
                            (None, None) => true,
                            (Some(a), Some(b)) => {
                                a.key == b.key && a.value == b.value && (!compare_ts || a.ts == b.ts)
                            }
                            _ => false,
                        },
                        Err(_) => false,
                    };
                    outcomes.insert(vcore::stable_hash(&(expected.as_ref().map(|e| (&e.key, &e.value)), r.idx)));
                    if !same {
                        // report the previous program too: its leftovers may matter
                        let mut program = previous.clone();
                        program.extend(prog[..=n].iter().cloned());
                        return (programs, calls, Some(ProgramFailure { program, expected, got }));
                    }
                }
                previous = prog;
                if rest.is_empty() || !bump(&mut rest, moves.len()) {
                    break;
                }
            }
        }
    }
    (programs, calls, None)
}
