//! The real `lsmtk::KeyValueStore`, driven single-threaded through the single-step hooks, next to
//! a boring sequential model (a BTreeMap).

use std::collections::{BTreeMap, BTreeSet};
use std::ops::Bound;
use std::path::{Path, PathBuf};

use arrrg::CommandLine;
use lsmtk::verif::{StepMode, set_step_mode, steps_completed};
use lsmtk::{KeyValueStore, LsmTree, LsmVerifier, LsmtkOptions, WriteBatch};
use sst::{Builder, Cursor};
use vcore::{Value, json};

use crate::refcursor::{Entry, Move, RefCursor};

pub const KEYS: [&[u8]; 3] = [b"a", b"ab", b"b"];
/// Keys probed by point reads: the alphabet plus keys never written (before, between, after).
pub const PROBE_KEYS: [&[u8]; 6] = [b"", b"a", b"aa", b"ab", b"b", b"c"];

/////////////////////////////////////////////// Cfg ////////////////////////////////////////////////

#[derive(Clone, Debug)]
pub struct Cfg {
    pub name: String,
    pub args: Vec<(String, String)>,
}

impl Cfg {
    pub fn new(name: &str, args: &[(&str, &str)]) -> Self {
        Cfg {
            name: name.to_string(),
            args: args
                .iter()
                .map(|(a, b)| (a.to_string(), b.to_string()))
                .collect(),
        }
    }

    pub fn get(&self, k: &str) -> Option<&str> {
        self.args
            .iter()
            .find(|(a, _)| a == k)
            .map(|(_, b)| b.as_str())
    }

    pub fn options(&self, path: &Path) -> LsmtkOptions {
        let mut argv: Vec<String> = vec!["--path".into(), path.to_string_lossy().to_string()];
        for (k, v) in self.args.iter() {
            if k.starts_with("verif-") {
                // harness-only settings (e.g. the value salt)
                continue;
            }
            argv.push(format!("--{k}"));
            argv.push(v.clone());
        }
        let refs: Vec<&str> = argv.iter().map(|s| s.as_str()).collect();
        let (opts, free) = LsmtkOptions::from_arguments_relaxed("verif", &refs);
        assert!(free.is_empty(), "free args: {free:?}");
        opts
    }

    pub fn to_json(&self) -> Value {
        json!({"name": self.name, "args": self.args})
    }

    pub fn from_json(v: &Value) -> Cfg {
        Cfg {
            name: v["name"].as_str().unwrap().to_string(),
            args: v["args"]
                .as_array()
                .unwrap()
                .iter()
                .map(|p| {
                    (
                        p[0].as_str().unwrap().to_string(),
                        p[1].as_str().unwrap().to_string(),
                    )
                })
                .collect(),
        }
    }
}

/// Configuration rows.  The first three are the "adversarial" rows used at full depth.
pub fn config_grid() -> Vec<Cfg> {
    let tiny = [
        ("sst-target-file-size", "4096"),
        ("sst-minimum-file-size", "4096"),
    ];
    let mut rows = vec![];
    // A: everything as small as it goes: flush on every write, compaction mandatory at one L0
    // file, stall at two, manifest rolls over constantly, no SST cache.
    let mut a = vec![
        ("memtable-size-bytes", "0"),
        ("l0-mandatory-compaction-threshold-files", "1"),
        ("l0-write-stall-threshold-files", "2"),
        ("mani-log-rollover-ratio", "1"),
        ("sst-cache-bytes", "0"),
    ];
    a.extend_from_slice(&tiny);
    rows.push(Cfg::new("A-min", &a));
    // B: L0 may hold files (so overlapping L0 files and multi-file compactions happen), tight
    // max_compaction_files, two retained versions.
    let mut b = vec![
        ("memtable-size-bytes", "0"),
        ("l0-mandatory-compaction-threshold-files", "2"),
        ("l0-write-stall-threshold-files", "3"),
        ("max-compaction-files", "3"),
        ("gc-policy", "versions = 2"),
    ];
    b.extend_from_slice(&tiny);
    rows.push(Cfg::new("B-l0", &b));
    // C: defaults except that the memtable rolls over by size and the manifest rolls over.
    rows.push(Cfg::new(
        "C-default",
        &[
            ("memtable-size-bytes", "40"),
            ("mani-log-rollover-ratio", "1"),
        ],
    ));
    // covering rows
    rows.push(Cfg::new(
        "D-stall12",
        &[
            ("memtable-size-bytes", "0"),
            ("l0-mandatory-compaction-threshold-files", "4"),
            ("l0-write-stall-threshold-files", "12"),
            ("sst-cache-bytes", "0"),
        ],
    ));
    rows.push(Cfg::new(
        "E-files2",
        &[
            ("memtable-size-bytes", "0"),
            ("l0-mandatory-compaction-threshold-files", "2"),
            ("l0-write-stall-threshold-files", "3"),
            ("max-compaction-files", "2"),
            ("mani-log-rollover-ratio", "1000"),
        ],
    ));
    rows.push(Cfg::new(
        "F-anygc",
        &[
            ("memtable-size-bytes", "0"),
            ("l0-mandatory-compaction-threshold-files", "1"),
            ("l0-write-stall-threshold-files", "3"),
            ("gc-policy", "any(versions = 1, ttl_micros = 1)"),
            ("sst-cache-bytes", "0"),
        ],
    ));
    rows.push(Cfg::new(
        "G-mand4-stall2",
        &[
            ("memtable-size-bytes", "0"),
            ("l0-mandatory-compaction-threshold-files", "4"),
            ("l0-write-stall-threshold-files", "2"),
            ("max-compaction-files", "3"),
        ],
    ));
    rows.push(Cfg::new(
        "H-mem64-mand1",
        &[
            ("memtable-size-bytes", "64"),
            ("l0-mandatory-compaction-threshold-files", "1"),
            ("l0-write-stall-threshold-files", "2"),
            ("sst-cache-bytes", "0"),
            ("mani-log-rollover-ratio", "2"),
        ],
    ));
    rows
}

//////////////////////////////////////////////// Op ////////////////////////////////////////////////

/// What an externally built SST contains: (key index, kind) in key order, kinds: 'p' put, 'd'
/// tombstone, 'h' 5 KiB put, 'v' two versions of the key in the one file (tombstone below a put),
/// 'w' two versions (put below a tombstone).  Timestamps grow with the step, so the file that is
/// ingested last holds the last write of each of its keys.
pub const INGEST_MENU: [(&str, &[(usize, char)]); 10] = [
    ("a", &[(0, 'p')]),
    ("ab", &[(1, 'p')]),
    ("b", &[(2, 'p')]),
    ("-a", &[(0, 'd')]),
    ("-ab", &[(1, 'd')]),
    ("a+b", &[(0, 'p'), (2, 'p')]),
    ("-a+ab-b", &[(0, 'd'), (1, 'p'), (2, 'd')]),
    ("AB", &[(1, 'h')]),
    ("a2", &[(0, 'v')]),
    ("a2-", &[(0, 'w')]),
];

#[derive(Clone, Debug, PartialEq, Eq, Hash)]
pub enum Op {
    Put(usize),
    Del(usize),
    /// Batch 0: {put a, del b}; batch 1: {del a, put ab}
    Batch(usize),
    /// 1.5 KiB value
    PutBig(usize),
    /// 5 KiB value: larger than the minimum target file size, so it gets an output file of its own
    PutHuge(usize),
    /// External ingest of a freshly built SST into a bare `LsmTree` (subject "tree" only); the
    /// index selects the file's contents from `INGEST_MENU`.
    Ingest(usize),
    Flush,
    Compact,
    CompactAll,
    Reopen,
    Verify,
    /// open a scan with bounds index b and keep it
    Scan(usize),
    /// move kept cursor i
    Walk(usize, Move),
}

impl Op {
    pub fn name(&self) -> String {
        match self {
            Op::Put(k) => format!("put:{}", String::from_utf8_lossy(KEYS[*k])),
            Op::Del(k) => format!("del:{}", String::from_utf8_lossy(KEYS[*k])),
            Op::Batch(i) => format!("batch:{i}"),
            Op::PutBig(k) => format!("putbig:{}", String::from_utf8_lossy(KEYS[*k])),
            Op::PutHuge(k) => format!("puthuge:{}", String::from_utf8_lossy(KEYS[*k])),
            Op::Ingest(i) => format!("ing:{}", INGEST_MENU[*i].0),
            Op::Flush => "F".into(),
            Op::Compact => "C".into(),
            Op::CompactAll => "C*".into(),
            Op::Reopen => "R".into(),
            Op::Verify => "V".into(),
            Op::Scan(b) => format!("scan:{b}"),
            Op::Walk(i, m) => format!("walk:{i}:{}", m.name()),
        }
    }

    pub fn parse(s: &str) -> Op {
        fn key(k: &str) -> usize {
            KEYS.iter()
                .position(|x| *x == k.as_bytes())
                .unwrap_or_else(|| panic!("bad key {k}"))
        }
        match s {
            "F" => Op::Flush,
            "C" => Op::Compact,
            "C*" => Op::CompactAll,
            "R" => Op::Reopen,
            "V" => Op::Verify,
            _ => {
                let (a, b) = s.split_once(':').unwrap_or_else(|| panic!("bad op {s}"));
                match a {
                    "put" => Op::Put(key(b)),
                    "del" => Op::Del(key(b)),
                    "putbig" => Op::PutBig(key(b)),
                    "puthuge" => Op::PutHuge(key(b)),
                    "batch" => Op::Batch(b.parse().unwrap()),
                    "ing" => Op::Ingest(
                        INGEST_MENU
                            .iter()
                            .position(|m| m.0 == b)
                            .unwrap_or_else(|| panic!("bad ingest file {b}")),
                    ),
                    "scan" => Op::Scan(b.parse().unwrap()),
                    "walk" => {
                        let (i, m) = b.split_once(':').unwrap();
                        Op::Walk(i.parse().unwrap(), Move::parse(m))
                    }
                    _ => panic!("bad op {s}"),
                }
            }
        }
    }

    pub fn is_client_write(&self) -> bool {
        matches!(
            self,
            Op::Put(_) | Op::Del(_) | Op::Batch(_) | Op::PutBig(_) | Op::PutHuge(_) | Op::Ingest(_)
        )
    }
}

pub fn ops_to_json(ops: &[Op]) -> Value {
    Value::Array(ops.iter().map(|o| Value::String(o.name())).collect())
}

pub fn ops_from_json(v: &Value) -> Vec<Op> {
    v.as_array()
        .unwrap()
        .iter()
        .map(|s| Op::parse(s.as_str().unwrap()))
        .collect()
}

////////////////////////////////////////////// bounds //////////////////////////////////////////////

pub type B = Bound<&'static [u8]>;

pub fn bound_list() -> Vec<B> {
    vec![
        Bound::Unbounded,
        Bound::Included(b"a".as_slice()),
        Bound::Excluded(b"a".as_slice()),
        Bound::Included(b"b".as_slice()),
        Bound::Excluded(b"b".as_slice()),
    ]
}

/// All 25 (start, end) pairs, including inverted and empty ranges.  Index = start * 5 + end.
pub fn bound_pairs() -> &'static Vec<(B, B)> {
    static PAIRS: std::sync::OnceLock<Vec<(B, B)>> = std::sync::OnceLock::new();
    PAIRS.get_or_init(|| {
        let bl = bound_list();
        let mut v = vec![];
        for s in bl.iter() {
            for e in bl.iter() {
                v.push((*s, *e));
            }
        }
        v
    })
}

pub fn in_bounds(k: &[u8], b: &(B, B)) -> bool {
    let lo = match b.0 {
        Bound::Unbounded => true,
        Bound::Included(x) => k >= x,
        Bound::Excluded(x) => k > x,
    };
    let hi = match b.1 {
        Bound::Unbounded => true,
        Bound::Included(x) => k <= x,
        Bound::Excluded(x) => k < x,
    };
    lo && hi
}

pub fn bounds_name(b: &(B, B)) -> String {
    fn one(b: &B, open: bool) -> String {
        match b {
            Bound::Unbounded => if open { "(-inf" } else { "+inf)" }.to_string(),
            Bound::Included(x) => {
                if open {
                    format!("[{}", String::from_utf8_lossy(x))
                } else {
                    format!("{}]", String::from_utf8_lossy(x))
                }
            }
            Bound::Excluded(x) => {
                if open {
                    format!("({}", String::from_utf8_lossy(x))
                } else {
                    format!("{})", String::from_utf8_lossy(x))
                }
            }
        }
    }
    format!("{},{}", one(&b.0, true), one(&b.1, false))
}

/////////////////////////////////////////////// Model ///////////////////////////////////////////////

pub type Model = BTreeMap<Vec<u8>, Option<Vec<u8>>>;

pub fn model_entries(model: &Model, b: &(B, B)) -> Vec<Entry> {
    model
        .iter()
        .filter(|(k, v)| v.is_some() && in_bounds(k, b))
        .map(|(k, v)| Entry {
            key: k.clone(),
            ts: 0,
            value: v.clone(),
        })
        .collect()
}

////////////////////////////////////////////// Subject /////////////////////////////////////////////

pub struct KeptCursor {
    pub cursor: Box<dyn Cursor + 'static>,
    pub reference: RefCursor,
    pub bounds: usize,
    pub opened_at_step: usize,
}

pub enum StepResult {
    Ok,
    /// The step had nothing to do; the sequence is equivalent to the one without it.
    Noop,
    /// The step is not enabled in this state (e.g. a flush that would park on the stall).
    Disabled,
    Err(String),
}

pub struct Store {
    pub cfg: Cfg,
    pub dir: PathBuf,
    kvs: Option<&'static KeyValueStore>,
    /// subject "tree": a bare LsmTree fed by external ingests instead of a KeyValueStore
    bare: Option<&'static LsmTree>,
    pub model: Model,
    pub cursors: Vec<KeptCursor>,
    pub step: usize,
    pub n_flush: u64,
    pub n_compact: u64,
    pub n_reopen: u64,
    pub n_verify: u64,
    pub horizon_hit: bool,
    /// a write happened since the last flush (memtable non-empty)
    pub dirty: bool,
    /// (key, is_tombstone) of every entry written since the memtable was last emptied, in order
    pub mem_entries: Vec<(Vec<u8>, bool)>,
}

fn big_value(step: usize, len: usize) -> Vec<u8> {
    let mut v = format!("big{step}-").into_bytes();
    while v.len() < len {
        v.push(b'A' + (v.len() % 23) as u8);
    }
    v
}

impl Store {
    pub fn open(cfg: &Cfg, dir: &Path) -> Result<Store, String> {
        let opts = cfg.options(dir);
        let (kvs, bare): (Option<&'static KeyValueStore>, Option<&'static LsmTree>) = if cfg.get("verif-subject") == Some("tree") {
            let t = vcore::catch(|| LsmTree::open(opts))
                .map_err(|p| format!("panic in open: {p}"))?
                .map_err(|e| format!("open failed: {e}"))?;
            (None, Some(Box::leak(Box::new(t))))
        } else {
            let kvs = vcore::catch(|| KeyValueStore::open(opts))
                .map_err(|p| format!("panic in open: {p}"))?
                .map_err(|e| format!("open failed: {e}"))?;
            (Some(Box::leak(Box::new(kvs))), None)
        };
        Ok(Store {
            cfg: cfg.clone(),
            dir: dir.to_path_buf(),
            kvs,
            bare,
            model: Model::new(),
            cursors: vec![],
            step: 0,
            n_flush: 0,
            n_compact: 0,
            n_reopen: 0,
            n_verify: 0,
            horizon_hit: false,
            dirty: false,
            mem_entries: vec![],
        })
    }

    pub fn kvs(&self) -> &'static KeyValueStore {
        self.kvs.expect("store is closed (or the subject is a bare tree)")
    }

    pub fn is_bare_tree(&self) -> bool {
        self.cfg.get("verif-subject") == Some("tree")
    }

    /// The LsmTree: the bare one, or the one inside the KeyValueStore.
    pub fn tree(&self) -> &'static LsmTree {
        match self.bare {
            Some(t) => t,
            None => self.kvs().verif_tree(),
        }
    }

    /// (immutable memtable present, memtable bytes, imm_trigger, mem_seq_no, seq_no); a bare
    /// tree has no memtable.
    pub fn mem_state(&self) -> (bool, usize, u64, u64, u64) {
        match self.kvs {
            Some(k) => k.verif_mem_state(),
            None => (false, 0, 0, 1, 0),
        }
    }

    fn close(&mut self) {
        self.cursors.clear();
        if let Some(k) = self.kvs.take() {
            // SAFETY: created by Box::leak in open/reopen; every borrower (the kept cursors) was
            // dropped on the line above.
            unsafe {
                drop(Box::from_raw(
                    k as *const KeyValueStore as *mut KeyValueStore,
                ));
            }
        }
        if let Some(t) = self.bare.take() {
            // SAFETY: as above.
            unsafe {
                drop(Box::from_raw(t as *const LsmTree as *mut LsmTree));
            }
        }
    }

    /// Values are unique per step.  A salt changes every value (and with it every SST digest
    /// and the digest-ordered manifest listing), so that code which depends on digest order is
    /// driven down both branches.
    pub fn value_for(&self, step: usize) -> Vec<u8> {
        match self.cfg.get("verif-salt") {
            None | Some("0") => format!("v{step}").into_bytes(),
            Some(s) => format!("v{step}s{s}").into_bytes(),
        }
    }

    fn flush_step(&mut self) -> Result<bool, String> {
        let kvs = self.kvs();
        set_step_mode(StepMode::StepNoWait);
        let before = steps_completed();
        let r = vcore::catch(|| kvs.memtable_thread());
        set_step_mode(StepMode::Off);
        match r {
            Err(p) => Err(format!("panic in flush: {p}")),
            Ok(Err(e)) => Err(format!("flush failed: {e}")),
            Ok(Ok(())) => Ok(steps_completed() > before),
        }
    }

    fn compact_step(&mut self) -> Result<bool, String> {
        let tree = self.tree();
        set_step_mode(StepMode::StepNoWait);
        let before = steps_completed();
        let r = vcore::catch(|| tree.compaction_thread());
        set_step_mode(StepMode::Off);
        match r {
            Err(p) => Err(format!("panic in compaction: {p}")),
            Ok(Err(e)) => Err(format!("compaction failed: {e}")),
            Ok(Ok(())) => Ok(steps_completed() > before),
        }
    }

    pub fn would_stall(&self) -> bool {
        self.tree().verif_would_stall()
    }

    pub fn flush_pending(&self) -> bool {
        let (_imm, _sz, imm_trigger, mem_seq_no, _seq) = self.mem_state();
        imm_trigger >= mem_seq_no
    }

    pub fn apply(&mut self, op: &Op) -> StepResult {
        self.step += 1;
        let step = self.step;
        if self.is_bare_tree() {
            match op {
                Op::Ingest(_) | Op::Compact | Op::CompactAll | Op::Reopen | Op::Verify | Op::Scan(_) | Op::Walk(..) => {}
                _ => return StepResult::Disabled,
            }
        } else if matches!(op, Op::Ingest(_)) {
            return StepResult::Disabled;
        }
        match op {
            // an ingest into a full level 0 parks until a compaction thread makes room: not
            // enabled in a single-threaded history (C20 looks at these states)
            Op::Ingest(_) if self.would_stall() => StepResult::Disabled,
            Op::Ingest(i) => self.ingest(*i, step),
            _ => self.apply_kvs(op, step),
        }
    }

    /// Build an SST outside the store and hand it to `LsmTree::ingest`.
    fn ingest(&mut self, which: usize, step: usize) -> StepResult {
        let tree = self.tree();
        let ext = self.dir.with_extension(format!("ext{step}.sst"));
        let _ = std::fs::remove_file(&ext);
        let ts = (step as u64) * 4;
        let mut writes: Vec<(Vec<u8>, Option<Vec<u8>>)> = vec![];
        let built = vcore::catch(|| -> Result<(), String> {
            let mut b = sst::SstBuilder::new(sst::SstOptions::default(), &ext).map_err(|e| e.to_string())?;
            for (k, kind) in INGEST_MENU[which].1.iter() {
                let key = KEYS[*k];
                let v = match kind {
                    'h' => big_value(step, 5000),
                    _ => self.value_for(step),
                };
                match kind {
                    'p' | 'h' => {
                        b.put(key, ts + 1, &v).map_err(|e| e.to_string())?;
                        writes.push((key.to_vec(), Some(v)));
                    }
                    'd' => {
                        b.del(key, ts + 1).map_err(|e| e.to_string())?;
                        writes.push((key.to_vec(), None));
                    }
                    'v' => {
                        b.put(key, ts + 2, &v).map_err(|e| e.to_string())?;
                        b.del(key, ts + 1).map_err(|e| e.to_string())?;
                        writes.push((key.to_vec(), Some(v)));
                    }
                    'w' => {
                        b.del(key, ts + 2).map_err(|e| e.to_string())?;
                        b.put(key, ts + 1, &v).map_err(|e| e.to_string())?;
                        writes.push((key.to_vec(), None));
                    }
                    _ => unreachable!(),
                }
            }
            b.seal().map_err(|e| e.to_string())?;
            Ok(())
        });
        match built {
            Err(p) => return StepResult::Err(format!("harness could not build the external sst (panic): {p}")),
            Ok(Err(e)) => return StepResult::Err(format!("harness could not build the external sst: {e}")),
            Ok(Ok(())) => {}
        }
        let r = vcore::catch(|| tree.ingest(&ext));
        let _ = std::fs::remove_file(&ext);
        match r {
            Err(p) => StepResult::Err(format!("panic in ingest: {p}")),
            Ok(Err(e)) => StepResult::Err(format!("ingest failed: {e}")),
            Ok(Ok(())) => {
                for (k, v) in writes {
                    self.model.insert(k, v);
                }
                StepResult::Ok
            }
        }
    }

    fn apply_kvs(&mut self, op: &Op, step: usize) -> StepResult {
        if !self.is_bare_tree() {
            return self.apply_kvs_inner(op, step);
        }
        // bare tree: only the steps that do not touch a KeyValueStore reach this point
        match op {
            Op::Reopen => {
                let opts = self.cfg.options(&self.dir);
                self.close();
                match vcore::catch(|| LsmTree::open(opts)) {
                    Err(p) => StepResult::Err(format!("panic in reopen: {p}")),
                    Ok(Err(e)) => StepResult::Err(format!("reopen failed: {e}")),
                    Ok(Ok(t)) => {
                        self.bare = Some(Box::leak(Box::new(t)));
                        self.n_reopen += 1;
                        StepResult::Ok
                    }
                }
            }
            Op::Scan(b) => {
                let tree = self.tree();
                let pairs = bound_pairs();
                let (s, e) = &pairs[*b];
                match vcore::catch(|| tree.range_scan(s, e)) {
                    Err(p) => StepResult::Err(format!("panic in range_scan: {p}")),
                    Ok(Err(e)) => StepResult::Err(format!("range_scan failed: {e}")),
                    Ok(Ok(c)) => {
                        let reference = RefCursor::new(model_entries(&self.model, &pairs[*b]));
                        self.cursors.push(KeptCursor {
                            cursor: Box::new(c),
                            reference,
                            bounds: *b,
                            opened_at_step: step,
                        });
                        StepResult::Ok
                    }
                }
            }
            _ => self.apply_kvs_inner(op, step),
        }
    }

    fn apply_kvs_inner(&mut self, op: &Op, step: usize) -> StepResult {
        // a bare tree only sends Compact / CompactAll / Verify / Walk here; none of them uses kvs
        let kvs_opt = self.kvs;
        let kvs = || kvs_opt.expect("this step needs a KeyValueStore");
        match op {
            Op::Ingest(_) => StepResult::Disabled,
            Op::Put(k) | Op::PutBig(k) | Op::PutHuge(k) => {
                let v = match op {
                    Op::PutBig(_) => big_value(step, 1536),
                    Op::PutHuge(_) => big_value(step, 5000),
                    _ => self.value_for(step),
                };
                match vcore::catch(|| kvs().put(KEYS[*k], &v)) {
                    Err(p) => StepResult::Err(format!("panic in put: {p}")),
                    Ok(Err(e)) => StepResult::Err(format!("put failed: {e}")),
                    Ok(Ok(())) => {
                        self.model.insert(KEYS[*k].to_vec(), Some(v));
                        self.dirty = true;
                        self.mem_entries.push((KEYS[*k].to_vec(), false));
                        StepResult::Ok
                    }
                }
            }
            Op::Del(k) => match vcore::catch(|| kvs().del(KEYS[*k])) {
                Err(p) => StepResult::Err(format!("panic in del: {p}")),
                Ok(Err(e)) => StepResult::Err(format!("del failed: {e}")),
                Ok(Ok(())) => {
                    self.model.insert(KEYS[*k].to_vec(), None);
                    self.dirty = true;
                    self.mem_entries.push((KEYS[*k].to_vec(), true));
                    StepResult::Ok
                }
            },
            Op::Batch(i) => {
                let v = self.value_for(step);
                let mut wb = WriteBatch::with_capacity(2);
                let (p, d): (&[u8], &[u8]) = if *i == 0 {
                    (b"a", b"b")
                } else {
                    (b"ab", b"a")
                };
                if *i == 0 {
                    wb.put(p, &v);
                    wb.del(d);
                } else {
                    wb.del(d);
                    wb.put(p, &v);
                }
                match vcore::catch(|| kvs().write(wb)) {
                    Err(p) => StepResult::Err(format!("panic in write: {p}")),
                    Ok(Err(e)) => StepResult::Err(format!("write failed: {e}")),
                    Ok(Ok(())) => {
                        self.model.insert(p.to_vec(), Some(v));
                        self.model.insert(d.to_vec(), None);
                        self.dirty = true;
                        self.mem_entries.push((p.to_vec(), false));
                        self.mem_entries.push((d.to_vec(), true));
                        StepResult::Ok
                    }
                }
            }
            Op::Flush => {
                if !self.flush_pending() {
                    return StepResult::Noop;
                }
                if self.would_stall() {
                    return StepResult::Disabled;
                }
                match self.flush_step() {
                    Err(e) => StepResult::Err(e),
                    Ok(false) => StepResult::Noop,
                    Ok(true) => {
                        self.n_flush += 1;
                        self.dirty = false;
                        self.mem_entries.clear();
                        StepResult::Ok
                    }
                }
            }
            Op::Compact => match self.compact_step() {
                Err(e) => StepResult::Err(e),
                Ok(false) => StepResult::Noop,
                Ok(true) => {
                    self.n_compact += 1;
                    StepResult::Ok
                }
            },
            Op::CompactAll => {
                let mut n = 0;
                loop {
                    match self.compact_step() {
                        Err(e) => return StepResult::Err(e),
                        Ok(false) => break,
                        Ok(true) => {
                            n += 1;
                            self.n_compact += 1;
                            if n >= 64 {
                                self.horizon_hit = true;
                                break;
                            }
                        }
                    }
                }
                // C* with fewer than two compactions is covered by C / nothing.
                if n < 2 {
                    StepResult::Noop
                } else {
                    StepResult::Ok
                }
            }
            Op::Reopen => {
                let opts = self.cfg.options(&self.dir);
                self.close();
                match vcore::catch(|| KeyValueStore::open(opts)) {
                    Err(p) => StepResult::Err(format!("panic in reopen: {p}")),
                    Ok(Err(e)) => StepResult::Err(format!("reopen failed: {e}")),
                    Ok(Ok(k)) => {
                        self.kvs = Some(Box::leak(Box::new(k)));
                        self.n_reopen += 1;
                        self.dirty = false;
                        self.mem_entries.clear();
                        StepResult::Ok
                    }
                }
            }
            Op::Verify => {
                if count_fragments(&self.dir) < 2 {
                    return StepResult::Noop;
                }
                let opts = self.cfg.options(&self.dir);
                let r = vcore::catch(|| {
                    let mut v = LsmVerifier::open(opts)?;
                    v.verify()
                });
                match r {
                    Err(p) => StepResult::Err(format!("panic in verifier: {p}")),
                    Ok(Err(e)) => {
                        if lsmtk::error_code(&e) == Some(lsmtk::CODE_BACKOFF) {
                            self.n_verify += 1;
                            StepResult::Ok
                        } else {
                            StepResult::Err(format!("verifier reports: {e}"))
                        }
                    }
                    Ok(Ok(())) => {
                        self.n_verify += 1;
                        StepResult::Ok
                    }
                }
            }
            Op::Scan(b) => {
                let pairs = bound_pairs();
                let (s, e) = &pairs[*b];
                match vcore::catch(|| kvs().range_scan(s, e)) {
                    Err(p) => StepResult::Err(format!("panic in range_scan: {p}")),
                    Ok(Err(e)) => StepResult::Err(format!("range_scan failed: {e}")),
                    Ok(Ok(c)) => {
                        let reference = RefCursor::new(model_entries(&self.model, &pairs[*b]));
                        self.cursors.push(KeptCursor {
                            cursor: Box::new(c),
                            reference,
                            bounds: *b,
                            opened_at_step: step,
                        });
                        StepResult::Ok
                    }
                }
            }
            Op::Walk(i, m) => {
                if *i >= self.cursors.len() {
                    return StepResult::Disabled;
                }
                let kc = &mut self.cursors[*i];
                match vcore::catch(|| m.apply(&mut *kc.cursor)) {
                    Err(p) => StepResult::Err(format!("panic in cursor {}: {p}", m.name())),
                    Ok(Err(e)) => StepResult::Err(format!("cursor {} failed: {e}", m.name())),
                    Ok(Ok(())) => {
                        kc.reference.apply(m);
                        StepResult::Ok
                    }
                }
            }
        }
    }

    /// Point read as (value, is_tombstone).
    pub fn load(&self, key: &[u8]) -> Result<(Option<Vec<u8>>, bool), String> {
        let mut tomb = false;
        let r = match self.bare {
            Some(t) => vcore::catch(|| t.load(key, &mut tomb)),
            None => {
                let kvs = self.kvs();
                vcore::catch(|| kvs.load(key, &mut tomb))
            }
        };
        match r {
            Err(p) => Err(format!("panic in load: {p}")),
            Ok(Err(e)) => Err(format!("load failed: {e}")),
            Ok(Ok(v)) => Ok((v, tomb)),
        }
    }

    pub fn scan(&self, b: usize) -> Result<Box<dyn Cursor + 'static>, String> {
        let pairs = bound_pairs();
        let (s, e) = &pairs[b];
        if let Some(t) = self.bare {
            return match vcore::catch(|| t.range_scan(s, e)) {
                Err(p) => Err(format!("panic in range_scan: {p}")),
                Ok(Err(e)) => Err(format!("range_scan failed: {e}")),
                Ok(Ok(c)) => Ok(Box::new(c)),
            };
        }
        let kvs = self.kvs();
        match vcore::catch(|| kvs.range_scan(s, e)) {
            Err(p) => Err(format!("panic in range_scan: {p}")),
            Ok(Err(e)) => Err(format!("range_scan failed: {e}")),
            Ok(Ok(c)) => Ok(Box::new(c)),
        }
    }

    /// Abstract signature of the state: model, tree shape (per level: key ranges and entry
    /// counts by size class), memtable flags, cursor positions.  Timestamps do not appear.
    pub fn signature(&self) -> (u64, u64) {
        let levels = self.tree().verif_levels();
        let shape: Vec<(usize, Vec<(Vec<u8>, Vec<u8>, u64)>)> = levels
            .iter()
            .enumerate()
            .filter(|(_, l)| !l.is_empty())
            .map(|(i, l)| {
                (
                    i,
                    l.iter()
                        .map(|m| (m.first_key.clone(), m.last_key.clone(), m.file_size / 512))
                        .collect(),
                )
            })
            .collect();
        let (imm, memsz, _, _, _) = self.mem_state();
        let model: Vec<(&Vec<u8>, bool)> = self.model.iter().map(|(k, v)| (k, v.is_some())).collect();
        let cursors: Vec<(usize, isize)> = self
            .cursors
            .iter()
            .map(|c| (c.bounds, c.reference.idx))
            .collect();
        let occupancy: Vec<(usize, usize)> = levels
            .iter()
            .enumerate()
            .filter(|(_, l)| !l.is_empty())
            .map(|(i, l)| (i, l.len()))
            .collect();
        (
            vcore::stable_hash(&(&shape, imm, memsz > 0, &model, &cursors)),
            vcore::stable_hash(&occupancy),
        )
    }

    /// Everything a scan or point read can depend on, up to renaming of values and order-
    /// preserving renaming of timestamps: per component (each L0 file in level order, each
    /// deeper level's files, the memtable) the entries as (key, timestamp rank, tombstone?).
    /// Two states with the same read signature answer every read program identically.
    pub fn read_signature(&self) -> Result<u64, String> {
        let levels = self.tree().verif_levels();
        let mut comps: Vec<(usize, Vec<(Vec<u8>, u64, bool)>)> = vec![];
        let mut all_ts: BTreeSet<u64> = BTreeSet::new();
        for (li, l) in levels.iter().enumerate() {
            for m in l.iter() {
                let setsum = setsum::Setsum::from_digest(m.setsum);
                let path = lsmtk::SST_FILE(&self.dir, setsum);
                let es = dump_sst(&path)?;
                for e in es.iter() {
                    all_ts.insert(e.ts);
                }
                comps.push((li, es.into_iter().map(|e| (e.key, e.ts, e.value.is_none())).collect()));
            }
        }
        let rank: BTreeMap<u64, u64> = all_ts.iter().enumerate().map(|(i, t)| (*t, i as u64)).collect();
        let comps: Vec<(usize, Vec<(Vec<u8>, u64, bool)>)> = comps
            .into_iter()
            .map(|(l, es)| (l, es.into_iter().map(|(k, t, d)| (k, rank[&t], d)).collect()))
            .collect();
        let (imm, _, _, _, _) = self.mem_state();
        let model: Vec<(&Vec<u8>, bool)> = self.model.iter().map(|(k, v)| (k, v.is_some())).collect();
        Ok(vcore::stable_hash(&(&comps, &self.mem_entries, imm, &model)))
    }

    pub fn describe_tree(&self) -> String {
        let levels = self.tree().verif_levels();
        let mut s = String::new();
        for (i, l) in levels.iter().enumerate() {
            if l.is_empty() {
                continue;
            }
            s += &format!("L{i}:");
            for m in l {
                s += &format!(
                    "[{}..{} ts{}-{}]",
                    vcore::esc(&m.first_key),
                    vcore::esc(&m.last_key),
                    m.smallest_timestamp,
                    m.biggest_timestamp
                );
            }
            s += " ";
        }
        let (imm, memsz, _, _, _) = self.mem_state();
        s += &format!("mem={memsz}B imm={imm}");
        s
    }

    /// Every entry of every SST of the current version.
    pub fn dump_tree(&self) -> Result<Vec<Entry>, String> {
        let levels = self.tree().verif_levels();
        let mut out = vec![];
        for l in levels.iter() {
            for m in l.iter() {
                let setsum = setsum::Setsum::from_digest(m.setsum);
                let path = lsmtk::SST_FILE(&self.dir, setsum);
                out.extend(dump_sst(&path)?);
            }
        }
        out.sort();
        Ok(out)
    }

    pub fn level15_setsums(&self) -> BTreeSet<[u8; 32]> {
        let levels = self.tree().verif_levels();
        levels[lsmtk::NUM_LEVELS - 1]
            .iter()
            .map(|m| m.setsum)
            .collect()
    }
}

impl Drop for Store {
    fn drop(&mut self) {
        self.close();
    }
}

pub fn dump_sst(path: &Path) -> Result<Vec<Entry>, String> {
    let sst = sst::Sst::<sst::file_manager::FileHandle>::new(sst::SstOptions::default(), path)
        .map_err(|e| format!("cannot open {}: {e}", path.display()))?;
    let mut c = sst.cursor();
    c.seek_to_first().map_err(|e| e.to_string())?;
    let mut out = vec![];
    loop {
        c.next().map_err(|e| e.to_string())?;
        match c.key_value() {
            None => break,
            Some(kv) => out.push(Entry {
                key: kv.key.to_vec(),
                ts: kv.timestamp,
                value: kv.value.map(|v| v.to_vec()),
            }),
        }
    }
    Ok(out)
}

pub fn count_fragments(dir: &Path) -> usize {
    let mut n = 0;
    if let Ok(rd) = std::fs::read_dir(lsmtk::MANI_ROOT(dir)) {
        for e in rd.flatten() {
            if mani::extract_backup(e.path()).is_some() {
                n += 1;
            }
        }
    }
    n
}
