//! The real `lsmtk::KeyValueStore`, driven single-threaded through the single-step hooks, next to
//! a boring sequential model (a BTreeMap).

use std::collections::{BTreeMap, BTreeSet};
use std::ops::Bound;
use std::path::{Path, PathBuf};
use std::sync::Arc;
use std::sync::atomic::{AtomicU64, Ordering};
use std::time::{Duration, Instant};

use arrrg::CommandLine;
use lsmtk::verif::{SchedEvent, StepMode, set_step_mode, steps_completed};
use lsmtk::{KeyValueStore, LsmTree, LsmVerifier, LsmtkOptions, WriteBatch};
use sst::{Builder, Cursor};
use vcore::{Value, json};

use crate::refcursor::{Entry, Move, RefCursor};

pub const KEYS: [&[u8]; 3] = [b"a", b"ab", b"b"];
/// Keys probed by point reads: the alphabet plus keys never written (before, between, after).
pub const PROBE_KEYS: [&[u8]; 6] = [b"", b"a", b"aa", b"ab", b"b", b"c"];

/////////////////////////////////////////////// Cfg ////////////////////////////////////////////////

#[derive(Clone, Debug)]
pub struct Cfg {
    pub name: String,
    pub args: Vec<(String, String)>,
}

impl Cfg {
    pub fn new(name: &str, args: &[(&str, &str)]) -> Self {
        Cfg {
            name: name.to_string(),
            args: args
                .iter()
                .map(|(a, b)| (a.to_string(), b.to_string()))
                .collect(),
        }
    }

    pub fn get(&self, k: &str) -> Option<&str> {
        self.args
            .iter()
            .find(|(a, _)| a == k)
            .map(|(_, b)| b.as_str())
    }

    pub fn options(&self, path: &Path) -> LsmtkOptions {
        let mut argv: Vec<String> = vec!["--path".into(), path.to_string_lossy().to_string()];
        for (k, v) in self.args.iter() {
            if k.starts_with("verif-") {
                // harness-only settings (e.g. the value salt)
                continue;
            }
            argv.push(format!("--{k}"));
            argv.push(v.clone());
        }
        let refs: Vec<&str> = argv.iter().map(|s| s.as_str()).collect();
        let (opts, free) = LsmtkOptions::from_arguments_relaxed("verif", &refs);
        assert!(free.is_empty(), "free args: {free:?}");
        opts
    }

    pub fn to_json(&self) -> Value {
        json!({"name": self.name, "args": self.args})
    }

    pub fn from_json(v: &Value) -> Cfg {
        Cfg {
            name: v["name"].as_str().unwrap().to_string(),
            args: v["args"]
                .as_array()
                .unwrap()
                .iter()
                .map(|p| {
                    (
                        p[0].as_str().unwrap().to_string(),
                        p[1].as_str().unwrap().to_string(),
                    )
                })
                .collect(),
        }
    }
}

/// Configuration rows.  The first three are the "adversarial" rows used at full depth.
pub fn config_grid() -> Vec<Cfg> {
    let tiny = [
        ("sst-target-file-size", "4096"),
        ("sst-minimum-file-size", "4096"),
    ];
    let mut rows = vec![];
    // A: everything as small as it goes: flush on every write, compaction mandatory at one L0
    // file, stall at two, manifest rolls over constantly, no SST cache.
    let mut a = vec![
        ("memtable-size-bytes", "0"),
        ("l0-mandatory-compaction-threshold-files", "1"),
        ("l0-write-stall-threshold-files", "2"),
        ("mani-log-rollover-ratio", "1"),
        ("sst-cache-bytes", "0"),
    ];
    a.extend_from_slice(&tiny);
    rows.push(Cfg::new("A-min", &a));
    // B: L0 may hold files (so overlapping L0 files and multi-file compactions happen), tight
    // max_compaction_files, two retained versions.
    let mut b = vec![
        ("memtable-size-bytes", "0"),
        ("l0-mandatory-compaction-threshold-files", "2"),
        ("l0-write-stall-threshold-files", "3"),
        ("max-compaction-files", "3"),
        ("gc-policy", "versions = 2"),
    ];
    b.extend_from_slice(&tiny);
    rows.push(Cfg::new("B-l0", &b));
    // C: defaults except that the memtable rolls over by size and the manifest rolls over.
    rows.push(Cfg::new(
        "C-default",
        &[
            ("memtable-size-bytes", "40"),
            ("mani-log-rollover-ratio", "1"),
        ],
    ));
    // covering rows
    rows.push(Cfg::new(
        "D-stall12",
        &[
            ("memtable-size-bytes", "0"),
            ("l0-mandatory-compaction-threshold-files", "4"),
            ("l0-write-stall-threshold-files", "12"),
            ("sst-cache-bytes", "0"),
        ],
    ));
    rows.push(Cfg::new(
        "E-files2",
        &[
            ("memtable-size-bytes", "0"),
            ("l0-mandatory-compaction-threshold-files", "2"),
            ("l0-write-stall-threshold-files", "3"),
            ("max-compaction-files", "2"),
            ("mani-log-rollover-ratio", "1000"),
        ],
    ));
    rows.push(Cfg::new(
        "F-anygc",
        &[
            ("memtable-size-bytes", "0"),
            ("l0-mandatory-compaction-threshold-files", "1"),
            ("l0-write-stall-threshold-files", "3"),
            ("gc-policy", "any(versions = 1, ttl_micros = 1)"),
            ("sst-cache-bytes", "0"),
        ],
    ));
    rows.push(Cfg::new(
        "G-mand4-stall2",
        &[
            ("memtable-size-bytes", "0"),
            ("l0-mandatory-compaction-threshold-files", "4"),
            ("l0-write-stall-threshold-files", "2"),
            ("max-compaction-files", "3"),
        ],
    ));
    rows.push(Cfg::new(
        "H-mem64-mand1",
        &[
            ("memtable-size-bytes", "64"),
            ("l0-mandatory-compaction-threshold-files", "1"),
            ("l0-write-stall-threshold-files", "2"),
            ("sst-cache-bytes", "0"),
            ("mani-log-rollover-ratio", "2"),
        ],
    ));
    // I: a byte limit on compactions that two 1.5 KiB level-0 files already exceed (level-0
    // compactions are exempt from it; a stalled level 0 must still find its relieving compaction)
    rows.push(Cfg::new(
        "I-bytes2k",
        &[
            ("memtable-size-bytes", "0"),
            ("l0-mandatory-compaction-threshold-files", "2"),
            ("l0-write-stall-threshold-files", "4"),
            ("max-compaction-bytes", "2048"),
            ("sst-target-file-size", "4096"),
            ("sst-minimum-file-size", "4096"),
        ],
    ));
    // L: nothing is ever collected (versions = 100) and every 5 KiB entry gets an output file of
    // its own: merges write many files
    rows.push(Cfg::new(
        "L-keepall",
        &[
            ("memtable-size-bytes", "0"),
            ("l0-mandatory-compaction-threshold-files", "2"),
            ("l0-write-stall-threshold-files", "12"),
            ("gc-policy", "versions = 100"),
            ("sst-target-file-size", "4096"),
            ("sst-minimum-file-size", "4096"),
        ],
    ));
    // J: level 0 stalls and becomes mandatory by bytes, not by file count
    rows.push(Cfg::new(
        "J-stallbytes",
        &[
            ("memtable-size-bytes", "0"),
            ("l0-mandatory-compaction-threshold-bytes", "1500"),
            ("l0-write-stall-threshold-bytes", "3000"),
            ("max-compaction-files", "3"),
        ],
    ));
    rows
}

//////////////////////////////////////////////// Op ////////////////////////////////////////////////

/// What an externally built SST contains: (key index, kind) in key order, kinds: 'p' put, 'd'
/// tombstone, 'h' 5 KiB put, 'v' two versions of the key in the one file (tombstone below a put),
/// 'w' two versions (put below a tombstone), 'o' a put whose timestamp lies two steps back.  Timestamps grow with the step, so the file that is
/// ingested last holds the last write of each of its keys.
/// Keys of ingested files: the store's keys plus one that only the 'o' kind writes.
pub const INGEST_KEYS: [&[u8]; 4] = [b"a", b"ab", b"b", b"c"];

pub const INGEST_MENU: [(&str, &[(usize, char)]); 12] = [
    ("a", &[(0, 'p')]),
    ("ab", &[(1, 'p')]),
    ("b", &[(2, 'p')]),
    ("-a", &[(0, 'd')]),
    ("-ab", &[(1, 'd')]),
    ("a+b", &[(0, 'p'), (2, 'p')]),
    ("-a+ab-b", &[(0, 'd'), (1, 'p'), (2, 'd')]),
    ("AB", &[(1, 'h')]),
    ("a2", &[(0, 'v')]),
    ("a2-", &[(0, 'w')]),
    // a new version of `a` next to a version of `c` that carries an OLD timestamp (`c` is written
    // by these two shapes only, so its newest version is still the one ingested last): the file's
    // key range covers everything and its timestamp range straddles the files ingested in the two
    // steps before it -- level-0 files that neither recovery nor a trivial move can order
    ("a~c", &[(0, 'p'), (3, 'o')]),
    ("-ab~c", &[(1, 'd'), (3, 'o')]),
];

#[derive(Clone, Debug, PartialEq, Eq, Hash)]
pub enum Op {
    Put(usize),
    Del(usize),
    /// Batch 0: {put a, del b}; batch 1: {del a, put ab}
    Batch(usize),
    /// 1.5 KiB value
    PutBig(usize),
    /// 5 KiB value: larger than the minimum target file size, so it gets an output file of its own
    PutHuge(usize),
    /// External ingest of a freshly built SST into a bare `LsmTree` (subject "tree" only); the
    /// index selects the file's contents from `INGEST_MENU`.
    Ingest(usize),
    /// The same ingest started while level 0 is at the stall threshold: it runs on a helper thread,
    /// parks on the stall condition and is completed by a later compaction step.
    IngestStalled(usize),
    Flush,
    /// One iteration of the flush loop started while level 0 is at the stall threshold: it runs
    /// on a helper thread, parks on the stall condition, and is completed by whichever later
    /// compaction step makes room (store subject only).
    FlushStalled,
    Compact,
    /// One compaction-loop iteration that fails: the scratch directory for compaction outputs is
    /// moved away for its duration (a transient fault; the loop returns the error, as it would
    /// to whoever restarts it).  The store must go on working afterwards.
    CompactFail,
    CompactAll,
    Reopen,
    Verify,
    /// open a scan with bounds index b and keep it
    Scan(usize),
    /// move kept cursor i
    Walk(usize, Move),
}

impl Op {
    pub fn name(&self) -> String {
        match self {
            Op::Put(k) => format!("put:{}", String::from_utf8_lossy(KEYS[*k])),
            Op::Del(k) => format!("del:{}", String::from_utf8_lossy(KEYS[*k])),
            Op::Batch(i) => format!("batch:{i}"),
            Op::PutBig(k) => format!("putbig:{}", String::from_utf8_lossy(KEYS[*k])),
            Op::PutHuge(k) => format!("puthuge:{}", String::from_utf8_lossy(KEYS[*k])),
            Op::Ingest(i) => format!("ing:{}", INGEST_MENU[*i].0),
            Op::IngestStalled(i) => format!("ing!:{}", INGEST_MENU[*i].0),
            Op::Flush => "F".into(),
            Op::FlushStalled => "F!".into(),
            Op::Compact => "C".into(),
            Op::CompactFail => "C!".into(),
            Op::CompactAll => "C*".into(),
            Op::Reopen => "R".into(),
            Op::Verify => "V".into(),
            Op::Scan(b) => format!("scan:{b}"),
            Op::Walk(i, m) => format!("walk:{i}:{}", m.name()),
        }
    }

    pub fn parse(s: &str) -> Op {
        fn key(k: &str) -> usize {
            KEYS.iter()
                .position(|x| *x == k.as_bytes())
                .unwrap_or_else(|| panic!("bad key {k}"))
        }
        match s {
            "F" => Op::Flush,
            "F!" => Op::FlushStalled,
            "C" => Op::Compact,
            "C!" => Op::CompactFail,
            "C*" => Op::CompactAll,
            "R" => Op::Reopen,
            "V" => Op::Verify,
            _ => {
                let (a, b) = s.split_once(':').unwrap_or_else(|| panic!("bad op {s}"));
                match a {
                    "put" => Op::Put(key(b)),
                    "del" => Op::Del(key(b)),
                    "putbig" => Op::PutBig(key(b)),
                    "puthuge" => Op::PutHuge(key(b)),
                    "batch" => Op::Batch(b.parse().unwrap()),
                    "ing" | "ing!" => {
                        let i = INGEST_MENU
                            .iter()
                            .position(|m| m.0 == b)
                            .unwrap_or_else(|| panic!("bad ingest file {b}"));
                        if a == "ing" { Op::Ingest(i) } else { Op::IngestStalled(i) }
                    }
                    "scan" => Op::Scan(b.parse().unwrap()),
                    "walk" => {
                        let (i, m) = b.split_once(':').unwrap();
                        Op::Walk(i.parse().unwrap(), Move::parse(m))
                    }
                    _ => panic!("bad op {s}"),
                }
            }
        }
    }

    pub fn is_client_write(&self) -> bool {
        matches!(
            self,
            Op::Put(_) | Op::Del(_) | Op::Batch(_) | Op::PutBig(_) | Op::PutHuge(_) | Op::Ingest(_) | Op::IngestStalled(_)
        )
    }
}

pub fn ops_to_json(ops: &[Op]) -> Value {
    Value::Array(ops.iter().map(|o| Value::String(o.name())).collect())
}

pub fn ops_from_json(v: &Value) -> Vec<Op> {
    v.as_array()
        .unwrap()
        .iter()
        .map(|s| Op::parse(s.as_str().unwrap()))
        .collect()
}

////////////////////////////////////////////// bounds //////////////////////////////////////////////

pub type B = Bound<&'static [u8]>;

pub fn bound_list() -> Vec<B> {
    vec![
        Bound::Unbounded,
        Bound::Included(b"a".as_slice()),
        Bound::Excluded(b"a".as_slice()),
        Bound::Included(b"b".as_slice()),
        Bound::Excluded(b"b".as_slice()),
    ]
}

/// All 25 (start, end) pairs, including inverted and empty ranges.  Index = start * 5 + end.
pub fn bound_pairs() -> &'static Vec<(B, B)> {
    static PAIRS: std::sync::OnceLock<Vec<(B, B)>> = std::sync::OnceLock::new();
    PAIRS.get_or_init(|| {
        let bl = bound_list();
        let mut v = vec![];
        for s in bl.iter() {
            for e in bl.iter() {
                v.push((*s, *e));
            }
        }
        v
    })
}

pub fn in_bounds(k: &[u8], b: &(B, B)) -> bool {
    let lo = match b.0 {
        Bound::Unbounded => true,
        Bound::Included(x) => k >= x,
        Bound::Excluded(x) => k > x,
    };
    let hi = match b.1 {
        Bound::Unbounded => true,
        Bound::Included(x) => k <= x,
        Bound::Excluded(x) => k < x,
    };
    lo && hi
}

pub fn bounds_name(b: &(B, B)) -> String {
    fn one(b: &B, open: bool) -> String {
        match b {
            Bound::Unbounded => if open { "(-inf" } else { "+inf)" }.to_string(),
            Bound::Included(x) => {
                if open {
                    format!("[{}", String::from_utf8_lossy(x))
                } else {
                    format!("{}]", String::from_utf8_lossy(x))
                }
            }
            Bound::Excluded(x) => {
                if open {
                    format!("({}", String::from_utf8_lossy(x))
                } else {
                    format!("{})", String::from_utf8_lossy(x))
                }
            }
        }
    }
    format!("{},{}", one(&b.0, true), one(&b.1, false))
}

/////////////////////////////////////////////// Model ///////////////////////////////////////////////

pub type Model = BTreeMap<Vec<u8>, Option<Vec<u8>>>;

pub fn model_entries(model: &Model, b: &(B, B)) -> Vec<Entry> {
    model
        .iter()
        .filter(|(k, v)| v.is_some() && in_bounds(k, b))
        .map(|(k, v)| Entry {
            key: k.clone(),
            ts: 0,
            value: v.clone(),
        })
        .collect()
}

////////////////////////////////////////////// Subject /////////////////////////////////////////////

pub struct KeptCursor {
    pub cursor: Box<dyn Cursor + 'static>,
    pub reference: RefCursor,
    pub bounds: usize,
    pub opened_at_step: usize,
}

pub enum StepResult {
    Ok,
    /// The step had nothing to do; the sequence is equivalent to the one without it.
    Noop,
    /// The step is not enabled in this state (e.g. a flush that would park on the stall).
    Disabled,
    Err(String),
}

struct PendingFlush {
    handle: std::thread::JoinHandle<Result<bool, String>>,
    /// how often the helper reported that it is about to wait on the stall condition, and how
    /// often that it came back from the wait: it is parked iff stalls == wakes + 1
    stalls: Arc<AtomicU64>,
    wakes: Arc<AtomicU64>,
    kind: PendingKind,
}

enum PendingKind {
    Flush,
    /// the writes the ingested file carries (they count once the ingest has returned)
    Ingest(Vec<(Vec<u8>, Option<Vec<u8>>)>),
}

thread_local! {
    static STALL_CELL: std::cell::RefCell<Option<(Arc<AtomicU64>, Arc<AtomicU64>)>> = const { std::cell::RefCell::new(None) };
}

/// The scheduling hook of the sequential engine: it only records that the calling helper thread
/// is about to park on the level-0 stall.
pub fn stall_hook(ev: SchedEvent) {
    if ev == SchedEvent::IngestStalled || ev == SchedEvent::IngestWoke {
        STALL_CELL.with(|c| {
            if let Some((s, w)) = c.borrow().as_ref() {
                if ev == SchedEvent::IngestStalled { s } else { w }.fetch_add(1, Ordering::SeqCst);
            }
        });
    }
}

/// How long a step that must make progress may take before it is reported as hung: generous
/// for the first report of a process (a wake-up takes microseconds; the slack is for a loaded
/// machine, and every report is replayed before it counts), short once a hang has been seen, so
/// that a defect which loses every wake-up does not cost the full wait thousands of times.
static HANGS_SEEN: AtomicU64 = AtomicU64::new(0);

fn hang_limit() -> Duration {
    if HANGS_SEEN.load(Ordering::Relaxed) < 2 {
        Duration::from_secs(10)
    } else {
        Duration::from_millis(40)
    }
}

pub struct Store {
    pub cfg: Cfg,
    pub dir: PathBuf,
    kvs: Option<&'static KeyValueStore>,
    /// subject "tree": a bare LsmTree fed by external ingests instead of a KeyValueStore
    bare: Option<&'static LsmTree>,
    /// a flush parked on the level-0 stall (see Op::FlushStalled)
    pending: Option<PendingFlush>,
    pending_hung: bool,
    pub n_stalled_flushes_completed: u64,
    /// compaction steps after which the set of files at the oldest level differed (a GC ran, or
    /// a file arrived there)
    pub n_steps_rewriting_oldest_level: u64,
    pub model: Model,
    pub cursors: Vec<KeptCursor>,
    pub step: usize,
    pub n_flush: u64,
    pub n_compact: u64,
    pub n_reopen: u64,
    pub n_verify: u64,
    pub horizon_hit: bool,
    /// a write happened since the last flush (memtable non-empty)
    pub dirty: bool,
    /// (key, is_tombstone) of every entry written since the memtable was last emptied, in order
    pub mem_entries: Vec<(Vec<u8>, bool)>,
}

fn big_value(step: usize, len: usize) -> Vec<u8> {
    let mut v = format!("big{step}-").into_bytes();
    while v.len() < len {
        v.push(b'A' + (v.len() % 23) as u8);
    }
    v
}

impl Store {
    pub fn open(cfg: &Cfg, dir: &Path) -> Result<Store, String> {
        let opts = cfg.options(dir);
        let (kvs, bare): (Option<&'static KeyValueStore>, Option<&'static LsmTree>) = if cfg.get("verif-subject") == Some("tree") {
            let t = vcore::catch(|| LsmTree::open(opts))
                .map_err(|p| format!("panic in open: {p}"))?
                .map_err(|e| format!("open failed: {e}"))?;
            (None, Some(Box::leak(Box::new(t))))
        } else {
            let kvs = vcore::catch(|| KeyValueStore::open(opts))
                .map_err(|p| format!("panic in open: {p}"))?
                .map_err(|e| format!("open failed: {e}"))?;
            (Some(Box::leak(Box::new(kvs))), None)
        };
        Ok(Store {
            cfg: cfg.clone(),
            dir: dir.to_path_buf(),
            kvs,
            bare,
            pending: None,
            pending_hung: false,
            n_stalled_flushes_completed: 0,
            n_steps_rewriting_oldest_level: 0,
            model: Model::new(),
            cursors: vec![],
            step: 0,
            n_flush: 0,
            n_compact: 0,
            n_reopen: 0,
            n_verify: 0,
            horizon_hit: false,
            dirty: false,
            mem_entries: vec![],
        })
    }

    pub fn kvs(&self) -> &'static KeyValueStore {
        self.kvs.expect("store is closed (or the subject is a bare tree)")
    }

    pub fn is_bare_tree(&self) -> bool {
        self.cfg.get("verif-subject") == Some("tree")
    }

    /// The LsmTree: the bare one, or the one inside the KeyValueStore.
    pub fn tree(&self) -> &'static LsmTree {
        match self.bare {
            Some(t) => t,
            None => self.kvs().verif_tree(),
        }
    }

    /// (immutable memtable present, memtable bytes, imm_trigger, mem_seq_no, seq_no); a bare
    /// tree has no memtable.
    pub fn mem_state(&self) -> (bool, usize, u64, u64, u64) {
        match self.kvs {
            Some(k) => k.verif_mem_state(),
            None => (false, 0, 0, 1, 0),
        }
    }

    /// Start one flush-loop iteration on a helper thread and wait until it parks on the stall
    /// (or, if level 0 made room after all, until it is done).
    fn start_stalled_flush(&mut self) -> StepResult {
        let kvs = self.kvs();
        self.start_stalled(
            move || {
                set_step_mode(StepMode::StepNoWait);
                let before = steps_completed();
                let r = vcore::catch(|| kvs.memtable_thread());
                set_step_mode(StepMode::Off);
                match r {
                    Err(p) => Err(format!("panic in flush: {p}")),
                    Ok(Err(e)) => Err(format!("flush failed: {e}")),
                    Ok(Ok(())) => Ok(steps_completed() > before),
                }
            },
            PendingKind::Flush,
        )
    }

    /// Run `body` (a flush or an ingest that is expected to park on the level-0 stall) on a
    /// helper thread and wait until it parks or returns.
    fn start_stalled(
        &mut self,
        body: impl FnOnce() -> Result<bool, String> + Send + 'static,
        kind: PendingKind,
    ) -> StepResult {
        let stalls = Arc::new(AtomicU64::new(0));
        let wakes = Arc::new(AtomicU64::new(0));
        let (s2, w2) = (Arc::clone(&stalls), Arc::clone(&wakes));
        let handle = std::thread::spawn(move || {
            STALL_CELL.with(|c| *c.borrow_mut() = Some((s2, w2)));
            body()
        });
        let mut kind = Some(kind);
        // parking takes a thread spawn and a hard link: always the generous limit here
        let deadline = Instant::now() + Duration::from_secs(10);
        loop {
            if stalls.load(Ordering::SeqCst) > 0 {
                self.pending = Some(PendingFlush { handle, stalls, wakes, kind: kind.take().unwrap() });
                return StepResult::Ok;
            }
            if handle.is_finished() {
                self.pending = Some(PendingFlush { handle, stalls, wakes, kind: kind.take().unwrap() });
                return match self.finish_pending() {
                    Ok(()) => StepResult::Ok,
                    Err(e) => StepResult::Err(e),
                };
            }
            if Instant::now() > deadline {
                HANGS_SEEN.fetch_add(1, Ordering::Relaxed);
                // the helper still borrows the subject: never free it
                self.pending = Some(PendingFlush { handle, stalls, wakes, kind: kind.take().unwrap() });
                self.pending_hung = true;
                return StepResult::Err("a flush or ingest into a level 0 at the stall threshold neither parked on the stall nor returned within the hang limit".into());
            }
            std::thread::sleep(Duration::from_micros(20));
        }
    }

    fn finish_pending(&mut self) -> Result<(), String> {
        if self.pending_hung {
            return Err("the flush or ingest parked on the stall was not woken (reported at an earlier step)".into());
        }
        let p = self.pending.take().expect("pending");
        let deadline = Instant::now() + hang_limit();
        while !p.handle.is_finished() {
            if Instant::now() > deadline {
                HANGS_SEEN.fetch_add(1, Ordering::Relaxed);
                // leak the thread (and, in close(), the store it borrows)
                self.pending = Some(p);
                self.pending_hung = true;
                return Err("level 0 no longer holds back ingest, but the flush or ingest parked on the stall was not woken within the hang limit (10 s)".into());
            }
            std::thread::sleep(Duration::from_micros(20));
        }
        match p.handle.join() {
            Err(_) => Err("the flush thread panicked outside the subject".into()),
            Ok(Err(e)) => Err(e),
            Ok(Ok(_)) => {
                self.n_stalled_flushes_completed += 1;
                match p.kind {
                    PendingKind::Flush => {
                        self.n_flush += 1;
                        self.dirty = false;
                        self.mem_entries.clear();
                    }
                    PendingKind::Ingest(writes) => {
                        for (k, v) in writes {
                            self.model.insert(k, v);
                        }
                    }
                }
                Ok(())
            }
        }
    }

    /// After a successful compaction step (which notifies the stall condition): the parked writer
    /// wakes up and either goes through (level 0 has room) or parks again.  Wait until it has done
    /// one or the other, so that the next step starts from a settled state.  `wakes_before` is the
    /// wake count sampled before the step.
    fn after_compaction(&mut self, wakes_before: u64) -> Result<(), String> {
        if self.pending.is_none() {
            return Ok(());
        }
        if self.pending_hung {
            return self.finish_pending();
        }
        let deadline = Instant::now() + hang_limit();
        loop {
            let (finished, s, w) = {
                let p = self.pending.as_ref().unwrap();
                (p.handle.is_finished(), p.stalls.load(Ordering::SeqCst), p.wakes.load(Ordering::SeqCst))
            };
            if finished {
                return self.finish_pending();
            }
            if w > wakes_before && s == w + 1 {
                // woken by this step and parked again
                return Ok(());
            }
            if Instant::now() > deadline {
                if !self.would_stall() {
                    HANGS_SEEN.fetch_add(1, Ordering::Relaxed);
                    self.pending_hung = true;
                    return Err("level 0 no longer holds back ingest, but the flush or ingest parked on the stall was not woken within the hang limit (10 s)".into());
                }
                // level 0 is still full and nobody told the writer: it is parked as before
                return Ok(());
            }
            std::thread::sleep(Duration::from_micros(20));
        }
    }

    fn pending_wakes(&self) -> u64 {
        self.pending.as_ref().map(|p| p.wakes.load(Ordering::SeqCst)).unwrap_or(0)
    }

    pub fn has_pending_flush(&self) -> bool {
        self.pending.is_some()
    }

    fn close(&mut self) {
        self.cursors.clear();
        if self.pending.is_some() && self.pending_hung {
            std::mem::forget(self.pending.take());
            self.kvs = None;
            self.bare = None;
            return;
        }
        if self.pending.is_some() {
            // let the parked flush through: compact until level 0 has room
            for _ in 0..64 {
                if self.pending.is_none() {
                    break;
                }
                let w0 = self.pending_wakes();
                match self.compact_step() {
                    Ok(true) => {
                        if self.after_compaction(w0).is_err() {
                            break;
                        }
                    }
                    _ => break,
                }
            }
            if let Some(p) = self.pending.take() {
                // it cannot be released: leak the helper and the store it borrows
                std::mem::forget(p);
                self.kvs = None;
                self.bare = None;
                return;
            }
        }
        if let Some(k) = self.kvs.take() {
            // SAFETY: created by Box::leak in open/reopen; every borrower (the kept cursors) was
            // dropped on the line above.
            unsafe {
                drop(Box::from_raw(
                    k as *const KeyValueStore as *mut KeyValueStore,
                ));
            }
        }
        if let Some(t) = self.bare.take() {
            // SAFETY: as above.
            unsafe {
                drop(Box::from_raw(t as *const LsmTree as *mut LsmTree));
            }
        }
    }

    /// Values are unique per step.  A salt changes every value (and with it every SST digest
    /// and the digest-ordered manifest listing), so that code which depends on digest order is
    /// driven down both branches.
    pub fn value_for(&self, step: usize) -> Vec<u8> {
        match self.cfg.get("verif-salt") {
            None | Some("0") => format!("v{step}").into_bytes(),
            Some(s) => format!("v{step}s{s}").into_bytes(),
        }
    }

    fn flush_step(&mut self) -> Result<bool, String> {
        let kvs = self.kvs();
        set_step_mode(StepMode::StepNoWait);
        let before = steps_completed();
        let r = vcore::catch(|| kvs.memtable_thread());
        set_step_mode(StepMode::Off);
        match r {
            Err(p) => Err(format!("panic in flush: {p}")),
            Ok(Err(e)) => Err(format!("flush failed: {e}")),
            Ok(Ok(())) => Ok(steps_completed() > before),
        }
    }

    fn compact_step(&mut self) -> Result<bool, String> {
        let tree = self.tree();
        let place = |t: &LsmTree| -> BTreeSet<(usize, [u8; 32])> {
            t.verif_levels().iter().enumerate().flat_map(|(i, l)| l.iter().map(move |m| (i, m.setsum)).collect::<Vec<_>>()).collect()
        };
        let placed_before = place(tree);
        set_step_mode(StepMode::StepNoWait);
        let before = steps_completed();
        let r = vcore::catch(|| tree.compaction_thread());
        set_step_mode(StepMode::Off);
        let placed_after = place(tree);
        // the step wrote into the oldest level: files went away and whatever replaced them is at
        // the oldest level (possibly nothing, possibly a byte-identical copy of an input there)
        let gone = placed_before.difference(&placed_after).count();
        let new_above = placed_after.difference(&placed_before).filter(|(l, _)| *l + 1 < lsmtk::NUM_LEVELS).count();
        if gone > 0 && new_above == 0 {
            self.n_steps_rewriting_oldest_level += 1;
        }
        match r {
            Err(p) => Err(format!("panic in compaction: {p}")),
            Ok(Err(e)) => Err(format!("compaction failed: {e}")),
            Ok(Ok(())) => Ok(steps_completed() > before),
        }
    }

    pub fn would_stall(&self) -> bool {
        self.tree().verif_would_stall()
    }

    pub fn flush_pending(&self) -> bool {
        let (_imm, _sz, imm_trigger, mem_seq_no, _seq) = self.mem_state();
        imm_trigger >= mem_seq_no
    }

    pub fn apply(&mut self, op: &Op) -> StepResult {
        self.step += 1;
        let step = self.step;
        if self.is_bare_tree() {
            match op {
                Op::Ingest(_) | Op::IngestStalled(_) | Op::Compact | Op::CompactFail | Op::CompactAll | Op::Reopen | Op::Verify | Op::Scan(_) | Op::Walk(..) => {}
                _ => return StepResult::Disabled,
            }
        } else if matches!(op, Op::Ingest(_) | Op::IngestStalled(_)) {
            return StepResult::Disabled;
        }
        if self.pending.is_some() {
            // while a flush is parked on the stall only background steps and reads go on
            match op {
                Op::Compact | Op::CompactAll | Op::Verify | Op::Scan(_) | Op::Walk(..) => {}
                _ => return StepResult::Disabled,
            }
        }
        if *op == Op::CompactFail {
            let scratch_dir = lsmtk::COMPACTION_ROOT(&self.dir);
            let aside = self.dir.with_extension("compaction-aside");
            if std::fs::rename(&scratch_dir, &aside).is_err() {
                return StepResult::Disabled;
            }
            let r = self.compact_step();
            let _ = std::fs::remove_dir_all(&scratch_dir);
            let back = std::fs::rename(&aside, &scratch_dir);
            return match (r, back) {
                (_, Err(e)) => StepResult::Err(format!("harness could not restore the compaction directory: {e}")),
                // nothing was selectable
                (Ok(false), _) => StepResult::Noop,
                // a trivial move needs no scratch directory: an ordinary step
                (Ok(true), _) => {
                    self.n_compact += 1;
                    StepResult::Ok
                }
                // the expected failure, surfaced to the caller of the loop
                (Err(_), _) => StepResult::Ok,
            };
        }
        // A helper that is never woken cannot be freed, nor can the subject it borrows (megabytes
        // each).  After 40 such witnesses in one process the defect is established; further
        // parked writers are not started (the run is failing already, its verdict is unchanged).
        if matches!(op, Op::FlushStalled | Op::IngestStalled(_)) && HANGS_SEEN.load(Ordering::Relaxed) >= 40 {
            return StepResult::Disabled;
        }
        if *op == Op::FlushStalled {
            if self.is_bare_tree() || !self.flush_pending() || !self.would_stall() {
                return StepResult::Disabled;
            }
            return self.start_stalled_flush();
        }
        match op {
            // an ingest into a full level 0 parks until a compaction thread makes room: not
            // enabled in a single-threaded history (C20 looks at these states)
            Op::Ingest(_) if self.would_stall() => StepResult::Disabled,
            Op::Ingest(i) => self.ingest(*i, step, false),
            // ... and this is the variant that does park (covered by Ingest when there is room)
            Op::IngestStalled(_) if !self.would_stall() => StepResult::Disabled,
            Op::IngestStalled(i) => self.ingest(*i, step, true),
            _ => self.apply_kvs(op, step),
        }
    }

    /// Build an SST outside the store and hand it to `LsmTree::ingest`.
    fn ingest(&mut self, which: usize, step: usize, stalled: bool) -> StepResult {
        let tree = self.tree();
        let ext = self.dir.with_extension(format!("ext{step}.sst"));
        let _ = std::fs::remove_file(&ext);
        let ts = (step as u64) * 4;
        let mut writes: Vec<(Vec<u8>, Option<Vec<u8>>)> = vec![];
        let built = vcore::catch(|| -> Result<(), String> {
            let mut b = sst::SstBuilder::new(sst::SstOptions::default(), &ext).map_err(|e| e.to_string())?;
            for (k, kind) in INGEST_MENU[which].1.iter() {
                let key = INGEST_KEYS[*k];
                let v = match kind {
                    'h' => big_value(step, 5000),
                    _ => self.value_for(step),
                };
                match kind {
                    'p' | 'h' => {
                        b.put(key, ts + 1, &v).map_err(|e| e.to_string())?;
                        writes.push((key.to_vec(), Some(v)));
                    }
                    'd' => {
                        b.del(key, ts + 1).map_err(|e| e.to_string())?;
                        writes.push((key.to_vec(), None));
                    }
                    'v' => {
                        b.put(key, ts + 2, &v).map_err(|e| e.to_string())?;
                        b.del(key, ts + 1).map_err(|e| e.to_string())?;
                        writes.push((key.to_vec(), Some(v)));
                    }
                    'w' => {
                        b.del(key, ts + 2).map_err(|e| e.to_string())?;
                        b.put(key, ts + 1, &v).map_err(|e| e.to_string())?;
                        writes.push((key.to_vec(), None));
                    }
                    'o' => {
                        // slot 3 of the step before the previous one: unused by every other kind
                        // (steps 1, 2, 3, ... give 1, 3, 7, 11, ...: still growing with the step)
                        let old = if step >= 2 { ts - 5 } else { 1 };
                        b.put(key, old, &v).map_err(|e| e.to_string())?;
                        writes.push((key.to_vec(), Some(v)));
                    }
                    _ => unreachable!(),
                }
            }
            b.seal().map_err(|e| e.to_string())?;
            Ok(())
        });
        match built {
            Err(p) => return StepResult::Err(format!("harness could not build the external sst (panic): {p}")),
            Ok(Err(e)) => return StepResult::Err(format!("harness could not build the external sst: {e}")),
            Ok(Ok(())) => {}
        }
        if stalled {
            let ext2 = ext.clone();
            return self.start_stalled(
                move || {
                    let r = vcore::catch(|| tree.ingest(&ext2));
                    let _ = std::fs::remove_file(&ext2);
                    match r {
                        Err(p) => Err(format!("panic in ingest: {p}")),
                        Ok(Err(e)) => Err(format!("ingest failed: {e}")),
                        Ok(Ok(())) => Ok(true),
                    }
                },
                PendingKind::Ingest(writes),
            );
        }
        let r = vcore::catch(|| tree.ingest(&ext));
        let _ = std::fs::remove_file(&ext);
        match r {
            Err(p) => StepResult::Err(format!("panic in ingest: {p}")),
            Ok(Err(e)) => StepResult::Err(format!("ingest failed: {e}")),
            Ok(Ok(())) => {
                for (k, v) in writes {
                    self.model.insert(k, v);
                }
                StepResult::Ok
            }
        }
    }

    fn apply_kvs(&mut self, op: &Op, step: usize) -> StepResult {
        if !self.is_bare_tree() {
            return self.apply_kvs_inner(op, step);
        }
        // bare tree: only the steps that do not touch a KeyValueStore reach this point
        match op {
            Op::Reopen => {
                let opts = self.cfg.options(&self.dir);
                self.close();
                match vcore::catch(|| LsmTree::open(opts)) {
                    Err(p) => StepResult::Err(format!("panic in reopen: {p}")),
                    Ok(Err(e)) => StepResult::Err(format!("reopen failed: {e}")),
                    Ok(Ok(t)) => {
                        self.bare = Some(Box::leak(Box::new(t)));
                        self.n_reopen += 1;
                        StepResult::Ok
                    }
                }
            }
            Op::Scan(b) => {
                let tree = self.tree();
                let pairs = bound_pairs();
                let (s, e) = &pairs[*b];
                match vcore::catch(|| tree.range_scan(s, e)) {
                    Err(p) => StepResult::Err(format!("panic in range_scan: {p}")),
                    Ok(Err(e)) => StepResult::Err(format!("range_scan failed: {e}")),
                    Ok(Ok(c)) => {
                        let reference = RefCursor::new(model_entries(&self.model, &pairs[*b]));
                        self.cursors.push(KeptCursor {
                            cursor: Box::new(c),
                            reference,
                            bounds: *b,
                            opened_at_step: step,
                        });
                        StepResult::Ok
                    }
                }
            }
            _ => self.apply_kvs_inner(op, step),
        }
    }

    fn apply_kvs_inner(&mut self, op: &Op, step: usize) -> StepResult {
        // a bare tree only sends Compact / CompactAll / Verify / Walk here; none of them uses kvs
        let kvs_opt = self.kvs;
        let kvs = || kvs_opt.expect("this step needs a KeyValueStore");
        let mut wakes_before = 0;
        match op {
            Op::Ingest(_) | Op::IngestStalled(_) | Op::FlushStalled | Op::CompactFail => StepResult::Disabled,
            Op::Put(k) | Op::PutBig(k) | Op::PutHuge(k) => {
                let v = match op {
                    Op::PutBig(_) => big_value(step, 1536),
                    Op::PutHuge(_) => big_value(step, 5000),
                    _ => self.value_for(step),
                };
                match vcore::catch(|| kvs().put(KEYS[*k], &v)) {
                    Err(p) => StepResult::Err(format!("panic in put: {p}")),
                    Ok(Err(e)) => StepResult::Err(format!("put failed: {e}")),
                    Ok(Ok(())) => {
                        self.model.insert(KEYS[*k].to_vec(), Some(v));
                        self.dirty = true;
                        self.mem_entries.push((KEYS[*k].to_vec(), false));
                        StepResult::Ok
                    }
                }
            }
            Op::Del(k) => match vcore::catch(|| kvs().del(KEYS[*k])) {
                Err(p) => StepResult::Err(format!("panic in del: {p}")),
                Ok(Err(e)) => StepResult::Err(format!("del failed: {e}")),
                Ok(Ok(())) => {
                    self.model.insert(KEYS[*k].to_vec(), None);
                    self.dirty = true;
                    self.mem_entries.push((KEYS[*k].to_vec(), true));
                    StepResult::Ok
                }
            },
            Op::Batch(i) => {
                let v = self.value_for(step);
                let mut wb = WriteBatch::with_capacity(2);
                let (p, d): (&[u8], &[u8]) = if *i == 0 {
                    (b"a", b"b")
                } else {
                    (b"ab", b"a")
                };
                if *i == 0 {
                    wb.put(p, &v);
                    wb.del(d);
                } else {
                    wb.del(d);
                    wb.put(p, &v);
                }
                match vcore::catch(|| kvs().write(wb)) {
                    Err(p) => StepResult::Err(format!("panic in write: {p}")),
                    Ok(Err(e)) => StepResult::Err(format!("write failed: {e}")),
                    Ok(Ok(())) => {
                        self.model.insert(p.to_vec(), Some(v));
                        self.model.insert(d.to_vec(), None);
                        self.dirty = true;
                        self.mem_entries.push((p.to_vec(), false));
                        self.mem_entries.push((d.to_vec(), true));
                        StepResult::Ok
                    }
                }
            }
            Op::Flush => {
                if !self.flush_pending() {
                    return StepResult::Noop;
                }
                if self.would_stall() {
                    return StepResult::Disabled;
                }
                match self.flush_step() {
                    Err(e) => StepResult::Err(e),
                    Ok(false) => StepResult::Noop,
                    Ok(true) => {
                        self.n_flush += 1;
                        self.dirty = false;
                        self.mem_entries.clear();
                        StepResult::Ok
                    }
                }
            }
            Op::Compact => match { wakes_before = self.pending_wakes(); self.compact_step() } {
                Err(e) => StepResult::Err(e),
                Ok(false) => StepResult::Noop,
                Ok(true) => {
                    self.n_compact += 1;
                    match self.after_compaction(wakes_before) {
                        Ok(()) => StepResult::Ok,
                        Err(e) => StepResult::Err(e),
                    }
                }
            },
            Op::CompactAll => {
                let mut n = 0;
                loop {
                    wakes_before = self.pending_wakes();
                    match self.compact_step() {
                        Err(e) => return StepResult::Err(e),
                        Ok(false) => break,
                        Ok(true) => {
                            n += 1;
                            self.n_compact += 1;
                            if let Err(e) = self.after_compaction(wakes_before) {
                                return StepResult::Err(e);
                            }
                            if n >= 64 {
                                self.horizon_hit = true;
                                break;
                            }
                        }
                    }
                }
                // C* with fewer than two compactions is covered by C / nothing.
                if n < 2 {
                    StepResult::Noop
                } else {
                    StepResult::Ok
                }
            }
            Op::Reopen => {
                let opts = self.cfg.options(&self.dir);
                self.close();
                match vcore::catch(|| KeyValueStore::open(opts)) {
                    Err(p) => StepResult::Err(format!("panic in reopen: {p}")),
                    Ok(Err(e)) => StepResult::Err(format!("reopen failed: {e}")),
                    Ok(Ok(k)) => {
                        self.kvs = Some(Box::leak(Box::new(k)));
                        self.n_reopen += 1;
                        self.dirty = false;
                        self.mem_entries.clear();
                        StepResult::Ok
                    }
                }
            }
            Op::Verify => {
                if count_fragments(&self.dir) < 2 {
                    return StepResult::Noop;
                }
                let opts = self.cfg.options(&self.dir);
                let r = vcore::catch(|| {
                    let mut v = LsmVerifier::open(opts)?;
                    v.verify()
                });
                match r {
                    Err(p) => StepResult::Err(format!("panic in verifier: {p}")),
                    Ok(Err(e)) => {
                        if lsmtk::error_code(&e) == Some(lsmtk::CODE_BACKOFF) {
                            self.n_verify += 1;
                            StepResult::Ok
                        } else {
                            StepResult::Err(format!("verifier reports: {e}"))
                        }
                    }
                    Ok(Ok(())) => {
                        self.n_verify += 1;
                        StepResult::Ok
                    }
                }
            }
            Op::Scan(b) => {
                let pairs = bound_pairs();
                let (s, e) = &pairs[*b];
                match vcore::catch(|| kvs().range_scan(s, e)) {
                    Err(p) => StepResult::Err(format!("panic in range_scan: {p}")),
                    Ok(Err(e)) => StepResult::Err(format!("range_scan failed: {e}")),
                    Ok(Ok(c)) => {
                        let reference = RefCursor::new(model_entries(&self.model, &pairs[*b]));
                        self.cursors.push(KeptCursor {
                            cursor: Box::new(c),
                            reference,
                            bounds: *b,
                            opened_at_step: step,
                        });
                        StepResult::Ok
                    }
                }
            }
            Op::Walk(i, m) => {
                if *i >= self.cursors.len() {
                    return StepResult::Disabled;
                }
                let kc = &mut self.cursors[*i];
                match vcore::catch(|| m.apply(&mut *kc.cursor)) {
                    Err(p) => StepResult::Err(format!("panic in cursor {}: {p}", m.name())),
                    Ok(Err(e)) => StepResult::Err(format!("cursor {} failed: {e}", m.name())),
                    Ok(Ok(())) => {
                        kc.reference.apply(m);
                        StepResult::Ok
                    }
                }
            }
        }
    }

    /// Point read as (value, is_tombstone).
    pub fn load(&self, key: &[u8]) -> Result<(Option<Vec<u8>>, bool), String> {
        let mut tomb = false;
        let r = match self.bare {
            Some(t) => vcore::catch(|| t.load(key, &mut tomb)),
            None => {
                let kvs = self.kvs();
                vcore::catch(|| kvs.load(key, &mut tomb))
            }
        };
        match r {
            Err(p) => Err(format!("panic in load: {p}")),
            Ok(Err(e)) => Err(format!("load failed: {e}")),
            Ok(Ok(v)) => Ok((v, tomb)),
        }
    }

    pub fn scan(&self, b: usize) -> Result<Box<dyn Cursor + 'static>, String> {
        let pairs = bound_pairs();
        let (s, e) = &pairs[b];
        if let Some(t) = self.bare {
            return match vcore::catch(|| t.range_scan(s, e)) {
                Err(p) => Err(format!("panic in range_scan: {p}")),
                Ok(Err(e)) => Err(format!("range_scan failed: {e}")),
                Ok(Ok(c)) => Ok(Box::new(c)),
            };
        }
        let kvs = self.kvs();
        match vcore::catch(|| kvs.range_scan(s, e)) {
            Err(p) => Err(format!("panic in range_scan: {p}")),
            Ok(Err(e)) => Err(format!("range_scan failed: {e}")),
            Ok(Ok(c)) => Ok(Box::new(c)),
        }
    }

    /// Abstract signature of the state: model, tree shape (per level: key ranges and entry
    /// counts by size class), memtable flags, cursor positions.  Timestamps do not appear.
    pub fn signature(&self) -> (u64, u64) {
        let levels = self.tree().verif_levels();
        let shape: Vec<(usize, Vec<(Vec<u8>, Vec<u8>, u64)>)> = levels
            .iter()
            .enumerate()
            .filter(|(_, l)| !l.is_empty())
            .map(|(i, l)| {
                (
                    i,
                    l.iter()
                        .map(|m| (m.first_key.clone(), m.last_key.clone(), m.file_size / 512))
                        .collect(),
                )
            })
            .collect();
        let (imm, memsz, _, _, _) = self.mem_state();
        let model: Vec<(&Vec<u8>, bool)> = self.model.iter().map(|(k, v)| (k, v.is_some())).collect();
        let cursors: Vec<(usize, isize)> = self
            .cursors
            .iter()
            .map(|c| (c.bounds, c.reference.idx))
            .collect();
        let occupancy: Vec<(usize, usize)> = levels
            .iter()
            .enumerate()
            .filter(|(_, l)| !l.is_empty())
            .map(|(i, l)| (i, l.len()))
            .collect();
        (
            vcore::stable_hash(&(&shape, imm, memsz > 0, &model, &cursors)),
            vcore::stable_hash(&occupancy),
        )
    }

    /// Everything a scan or point read can depend on, up to renaming of values and order-
    /// preserving renaming of timestamps: per component (each L0 file in level order, each
    /// deeper level's files, the memtable) the entries as (key, timestamp rank, tombstone?).
    /// Two states with the same read signature answer every read program identically.
    pub fn read_signature(&self) -> Result<u64, String> {
        let levels = self.tree().verif_levels();
        let mut comps: Vec<(usize, Vec<(Vec<u8>, u64, bool)>)> = vec![];
        let mut all_ts: BTreeSet<u64> = BTreeSet::new();
        for (li, l) in levels.iter().enumerate() {
            for m in l.iter() {
                let setsum = setsum::Setsum::from_digest(m.setsum);
                let path = lsmtk::SST_FILE(&self.dir, setsum);
                let es = dump_sst(&path)?;
                for e in es.iter() {
                    all_ts.insert(e.ts);
                }
                comps.push((li, es.into_iter().map(|e| (e.key, e.ts, e.value.is_none())).collect()));
            }
        }
        let rank: BTreeMap<u64, u64> = all_ts.iter().enumerate().map(|(i, t)| (*t, i as u64)).collect();
        let comps: Vec<(usize, Vec<(Vec<u8>, u64, bool)>)> = comps
            .into_iter()
            .map(|(l, es)| (l, es.into_iter().map(|(k, t, d)| (k, rank[&t], d)).collect()))
            .collect();
        let (imm, _, _, _, _) = self.mem_state();
        let model: Vec<(&Vec<u8>, bool)> = self.model.iter().map(|(k, v)| (k, v.is_some())).collect();
        Ok(vcore::stable_hash(&(&comps, &self.mem_entries, imm, &model)))
    }

    pub fn describe_tree(&self) -> String {
        let levels = self.tree().verif_levels();
        let mut s = String::new();
        for (i, l) in levels.iter().enumerate() {
            if l.is_empty() {
                continue;
            }
            s += &format!("L{i}:");
            for m in l {
                s += &format!(
                    "[{}..{} ts{}-{}]",
                    vcore::esc(&m.first_key),
                    vcore::esc(&m.last_key),
                    m.smallest_timestamp,
                    m.biggest_timestamp
                );
            }
            s += " ";
        }
        let (imm, memsz, _, _, _) = self.mem_state();
        s += &format!("mem={memsz}B imm={imm}");
        s
    }

    /// Every entry of every SST of the current version.
    pub fn dump_tree(&self) -> Result<Vec<Entry>, String> {
        let levels = self.tree().verif_levels();
        let mut out = vec![];
        for l in levels.iter() {
            for m in l.iter() {
                let setsum = setsum::Setsum::from_digest(m.setsum);
                let path = lsmtk::SST_FILE(&self.dir, setsum);
                out.extend(dump_sst(&path)?);
            }
        }
        out.sort();
        Ok(out)
    }

    pub fn level15_setsums(&self) -> BTreeSet<[u8; 32]> {
        let levels = self.tree().verif_levels();
        levels[lsmtk::NUM_LEVELS - 1]
            .iter()
            .map(|m| m.setsum)
            .collect()
    }
}

impl Drop for Store {
    fn drop(&mut self) {
        self.close();
    }
}

pub fn dump_sst(path: &Path) -> Result<Vec<Entry>, String> {
    let sst = sst::Sst::<sst::file_manager::FileHandle>::new(sst::SstOptions::default(), path)
        .map_err(|e| format!("cannot open {}: {e}", path.display()))?;
    let mut c = sst.cursor();
    c.seek_to_first().map_err(|e| e.to_string())?;
    let mut out = vec![];
    loop {
        c.next().map_err(|e| e.to_string())?;
        match c.key_value() {
            None => break,
            Some(kv) => out.push(Entry {
                key: kv.key.to_vec(),
                ts: kv.timestamp,
                value: kv.value.map(|v| v.to_vec()),
            }),
        }
    }
    Ok(out)
}

pub fn count_fragments(dir: &Path) -> usize {
    let mut n = 0;
    if let Ok(rd) = std::fs::read_dir(lsmtk::MANI_ROOT(dir)) {
        for e in rd.flatten() {
            if mani::extract_backup(e.path()).is_some() {
                n += 1;
            }
        }
    }
    n
}
