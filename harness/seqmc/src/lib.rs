pub mod refcursor;
pub mod store;
pub mod storecheck;
