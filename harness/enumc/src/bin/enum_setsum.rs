//! E4 enum, property C14: bounded-exhaustive check of the setsum laws and of agreement with an
//! independent reference (SHA3-256 written in the harness, cross-checked once against CPython's
//! hashlib; column arithmetic in u64 modulo the eight largest primes below 2^32).
//!
//!   enum_setsum --tier quick --out report.json
//!   enum_setsum --replay replays/C14/....json
//!
//! Sections (all run unless --sections a,b,..):
//!   orders    every multiset of <= n items, every distinct insertion order
//!   ops       every insert/remove sequence of <= n operations (12-symbol alphabet)
//!   vectored  every split of every item into <= 3 pieces, insert_vectored / remove_vectored
//!   union     every pair of multisets (sum, difference, commutativity), triples (associativity)
//!   boundary  every value / pair / triple over per-column boundary values through
//!             from_digest and from_hexdigest, for setsum::Setsum and sst::Setsum
//!   kv        sst::Setsum put / del / insert framing against the definition
//!   hex       (observations only) from_hexdigest on malformed text
//!
//! Oracle rule (DESIGN.md section 4, C14): operands with every column below its prime demand
//! exact equality with the reference; operands outside that range, which from_digest admits,
//! demand congruence modulo the prime column-wise and no panic.

use std::cell::RefCell;
use std::collections::{BTreeMap, HashMap};
use std::sync::Mutex;

use enumc::{hex, primes, pyref, sha3, unhex};
use vcore::{Args, Report, Value, Violation, json, stable_hash};

type Cols = [u32; 8];

/// Explanations are only formatted on the replay path (hundreds of millions of cases are judged).
macro_rules! det {
    ($cx:expr, $($arg:tt)*) => {
        if $cx.verbose { format!($($arg)*) } else { String::new() }
    };
}

///////////////////////////////////////////// context /////////////////////////////////////////////

struct Ctx {
    p: [u64; 8],
    items: Vec<Vec<u8>>,
    /// reference columns (already reduced) of each item
    item_ref: Vec<[u64; 8]>,
    /// SETSUM_PRIMES as written in the subject's source text
    src_primes: Vec<u64>,
    /// format the explanations of findings
    verbose: bool,
}

fn item_alphabet() -> Vec<Vec<u8>> {
    vec![
        b"".to_vec(),
        b"a".to_vec(),
        b"b".to_vec(),
        b"ab".to_vec(),
        vec![b'z'; 64],
        (0..1024u32).map(|i| (i.wrapping_mul(131) ^ (i >> 3)) as u8).collect(),
        // "gap items": one SHA3-256 word of each lies in p..2^32 for its column (about one item in
        // 5.6 million does), so the reduction inside hash_to_state is exercised.  Found by brute
        // force once; `check_gap_items` re-verifies the claim with the harness's own Keccak.
        b"item-10585989".to_vec(),
        b"item-16336805".to_vec(),
    ]
}

/// The last two alphabet items must really have a hash word at or above the column's prime.
fn check_gap_items(items: &[Vec<u8>], p: &[u64; 8]) -> Result<(), String> {
    for it in items.iter().rev().take(2) {
        let d = sha3::sha3_256(it);
        let cols = digest_to_cols(&d);
        if !(0..8).any(|i| cols[i] as u64 >= p[i]) {
            return Err(format!("{} is not a gap item", String::from_utf8_lossy(it)));
        }
    }
    Ok(())
}

fn digest_to_cols(d: &[u8; 32]) -> Cols {
    let mut c = [0u32; 8];
    for i in 0..8 {
        c[i] = u32::from_le_bytes([d[4 * i], d[4 * i + 1], d[4 * i + 2], d[4 * i + 3]]);
    }
    c
}

fn cols_to_digest(c: &Cols) -> [u8; 32] {
    let mut d = [0u8; 32];
    for i in 0..8 {
        d[4 * i..4 * i + 4].copy_from_slice(&c[i].to_le_bytes());
    }
    d
}

impl Ctx {
    /// The published definition, item -> columns: little-endian words of SHA3-256 modulo the primes.
    fn ref_item(&self, bytes: &[u8]) -> [u64; 8] {
        let d = sha3::sha3_256(bytes);
        let c = digest_to_cols(&d);
        let mut r = [0u64; 8];
        for i in 0..8 {
            r[i] = c[i] as u64 % self.p[i];
        }
        r
    }
    fn reduce(&self, c: &Cols) -> [u64; 8] {
        let mut r = [0u64; 8];
        for i in 0..8 {
            r[i] = c[i] as u64 % self.p[i];
        }
        r
    }
    fn radd(&self, a: &[u64; 8], b: &[u64; 8]) -> [u64; 8] {
        let mut r = [0u64; 8];
        for i in 0..8 {
            r[i] = (a[i] + b[i]) % self.p[i];
        }
        r
    }
    fn rsub(&self, a: &[u64; 8], b: &[u64; 8]) -> [u64; 8] {
        let mut r = [0u64; 8];
        for i in 0..8 {
            r[i] = (a[i] + self.p[i] - b[i] % self.p[i]) % self.p[i];
        }
        r
    }
    fn canonical(&self, c: &Cols) -> bool {
        (0..8).all(|i| (c[i] as u64) < self.p[i])
    }
    fn class(&self, i: usize, v: u32) -> &'static str {
        let v = v as u64;
        if v < self.p[i] {
            "lt_p"
        } else if v == self.p[i] {
            "eq_p"
        } else {
            "gt_p"
        }
    }
    /// worst class over the columns
    fn opclass(&self, c: &Cols) -> &'static str {
        let mut w = "lt_p";
        for i in 0..8 {
            match self.class(i, c[i]) {
                "gt_p" => return "gt_p",
                "eq_p" => w = "eq_p",
                _ => {}
            }
        }
        w
    }
}

////////////////////////////////////////// subject adaptor /////////////////////////////////////////

trait SS:
    Copy
    + PartialEq
    + Default
    + std::ops::Add<Output = Self>
    + std::ops::Sub<Output = Self>
    + std::ops::AddAssign
    + std::ops::SubAssign
    + Send
    + Sync
{
    const NAME: &'static str;
    fn from_digest(d: [u8; 32]) -> Self;
    fn digest(&self) -> [u8; 32];
    fn hexdigest(&self) -> String;
    fn from_hexdigest(s: &str) -> Option<Self>;
}

impl SS for setsum::Setsum {
    const NAME: &'static str = "setsum";
    fn from_digest(d: [u8; 32]) -> Self {
        setsum::Setsum::from_digest(d)
    }
    fn digest(&self) -> [u8; 32] {
        setsum::Setsum::digest(self)
    }
    fn hexdigest(&self) -> String {
        setsum::Setsum::hexdigest(self)
    }
    fn from_hexdigest(s: &str) -> Option<Self> {
        setsum::Setsum::from_hexdigest(s)
    }
}

impl SS for sst::Setsum {
    const NAME: &'static str = "sst-setsum";
    fn from_digest(d: [u8; 32]) -> Self {
        sst::Setsum::from_digest(d)
    }
    fn digest(&self) -> [u8; 32] {
        sst::Setsum::digest(self)
    }
    fn hexdigest(&self) -> String {
        sst::Setsum::hexdigest(self)
    }
    fn from_hexdigest(s: &str) -> Option<Self> {
        sst::Setsum::from_hexdigest(s)
    }
}

/// The same types with every operand built by `from_hexdigest` on the hex text of the digest: the
/// second constructor must produce values that obey the same laws (in particular for columns in
/// p..2^32-1, which hex text can carry just as well as a digest can).
macro_rules! via_hex {
    ($w:ident, $inner:ty, $name:expr) => {
        #[derive(Clone, Copy, Debug, Default, PartialEq)]
        struct $w($inner);
        impl std::ops::Add for $w {
            type Output = Self;
            fn add(self, o: Self) -> Self {
                $w(self.0 + o.0)
            }
        }
        impl std::ops::Sub for $w {
            type Output = Self;
            fn sub(self, o: Self) -> Self {
                $w(self.0 - o.0)
            }
        }
        impl std::ops::AddAssign for $w {
            fn add_assign(&mut self, o: Self) {
                self.0 += o.0;
            }
        }
        impl std::ops::SubAssign for $w {
            fn sub_assign(&mut self, o: Self) {
                self.0 -= o.0;
            }
        }
        impl SS for $w {
            const NAME: &'static str = $name;
            fn from_digest(d: [u8; 32]) -> Self {
                $w(<$inner>::from_hexdigest(&hex(&d)).expect("from_hexdigest refuses 64 hex digits"))
            }
            fn digest(&self) -> [u8; 32] {
                self.0.digest()
            }
            fn hexdigest(&self) -> String {
                self.0.hexdigest()
            }
            fn from_hexdigest(s: &str) -> Option<Self> {
                <$inner>::from_hexdigest(s).map($w)
            }
        }
    };
}
via_hex!(SetsumViaHex, setsum::Setsum, "setsum-via-hexdigest");
via_hex!(SstSetsumViaHex, sst::Setsum, "sst-setsum-via-hexdigest");

fn mk<S: SS>(c: &Cols) -> S {
    S::from_digest(cols_to_digest(c))
}

fn cols_of<S: SS>(s: &S) -> Cols {
    digest_to_cols(&s.digest())
}

///////////////////////////////////////////// findings /////////////////////////////////////////////

#[derive(Clone, Debug)]
struct Finding {
    sig: String,
    detail: String,
}

fn norm_panic(msg: &str) -> String {
    // "attempt to subtract with overflow" -> "subtract-with-overflow"
    let m = msg.trim().trim_start_matches("attempt to ");
    let m: String = m
        .chars()
        .map(|c| if c.is_ascii_alphanumeric() { c.to_ascii_lowercase() } else { '-' })
        .collect();
    let mut out = String::new();
    for part in m.split('-').filter(|s| !s.is_empty()).take(6) {
        if !out.is_empty() {
            out.push('-');
        }
        out += part;
    }
    out
}

fn fmt_cols(c: &Cols) -> String {
    hex(&cols_to_digest(c))
}

/// Is `got` acceptable for `want` (reduced reference) given the operands' canonicity?
fn judge(cx: &Ctx, got: &Cols, want: &[u64; 8], canonical_operands: bool) -> Result<(), usize> {
    for i in 0..8 {
        if canonical_operands {
            if got[i] as u64 != want[i] {
                return Err(i);
            }
        } else if got[i] as u64 % cx.p[i] != want[i] {
            return Err(i);
        }
    }
    Ok(())
}

#[derive(Clone, Copy, PartialEq)]
enum Op {
    Add,
    Sub,
}

/// One primitive operator application on the subject, judged against the reference.
fn prim<S: SS>(cx: &Ctx, op: Op, a: &Cols, b: &Cols, calls: &mut u64) -> Result<Cols, Finding> {
    let name = if op == Op::Add { "add" } else { "sub" };
    *calls += 4;
    let got = vcore::catch(|| {
        let sa: S = mk(a);
        let sb: S = mk(b);
        let r = if op == Op::Add { sa + sb } else { sa - sb };
        cols_of(&r)
    });
    let canon = cx.canonical(a) && cx.canonical(b);
    let (ra, rb) = (cx.reduce(a), cx.reduce(b));
    let want = if op == Op::Add { cx.radd(&ra, &rb) } else { cx.rsub(&ra, &rb) };
    match got {
        Err(msg) => {
            let trigger = if canon {
                "canonical-operands".to_string()
            } else if op == Op::Sub && cx.opclass(b) == "gt_p" {
                "subtrahend-column-above-prime".to_string()
            } else {
                format!("lhs={},rhs={}", cx.opclass(a), cx.opclass(b))
            };
            Err(Finding {
                sig: format!("c14:{}:panic:{}:{}:{}", S::NAME, name, norm_panic(&msg), trigger),
                detail: det!(cx, 
                    "{}: {} {} {} panicked ({}); expected columns {:?}{}",
                    S::NAME,
                    fmt_cols(a),
                    if op == Op::Add { "+" } else { "-" },
                    fmt_cols(b),
                    msg,
                    want,
                    if canon { "" } else { " modulo the primes" }
                ),
            })
        }
        Ok(r) => match judge(cx, &r, &want, canon) {
            Ok(()) => Ok(r),
            Err(i) => {
                let how = if canon {
                    "not-equal:canonical-operands".to_string()
                } else {
                    format!("not-congruent:col:lhs={},rhs={}", cx.class(i, a[i]), cx.class(i, b[i]))
                };
                Err(Finding {
                    sig: format!("c14:{}:{}:{}", S::NAME, name, how),
                    detail: det!(cx, 
                        "{}: {} {} {}: column {} (p={}) observed {} (= {} mod p), expected {}{}; observed value {}",
                        S::NAME,
                        fmt_cols(a),
                        if op == Op::Add { "+" } else { "-" },
                        fmt_cols(b),
                        i,
                        cx.p[i],
                        r[i],
                        r[i] as u64 % cx.p[i],
                        want[i],
                        if canon { " exactly" } else { " modulo p" },
                        fmt_cols(&r)
                    ),
                })
            }
        },
    }
}

/// Two subject results that a law says are the same value.
fn same(cx: &Ctx, ty: &str, law: &str, l: &Cols, r: &Cols, canon: bool, what: &str) -> Option<Finding> {
    for i in 0..8 {
        let ok = if canon {
            l[i] == r[i]
        } else {
            l[i] as u64 % cx.p[i] == r[i] as u64 % cx.p[i]
        };
        if !ok {
            return Some(Finding {
                sig: format!(
                    "c14:{ty}:{law}:{}",
                    if canon { "not-equal:canonical-operands" } else { "not-congruent:noncanonical-operands" }
                ),
                detail: det!(cx, 
                    "{ty}: {what}: column {i} (p={}) {} vs {}; values {} vs {}",
                    cx.p[i],
                    l[i],
                    r[i],
                    fmt_cols(l),
                    fmt_cols(r)
                ),
            });
        }
    }
    None
}

fn push(v: &mut Vec<Finding>, f: Finding) {
    if !v.iter().any(|x| x.sig == f.sig) {
        v.push(f);
    }
}

/// digest / hexdigest round trips and identities of one value.
fn laws_unary<S: SS>(cx: &Ctx, a: &Cols, calls: &mut u64) -> Vec<Finding> {
    let mut out = vec![];
    let canon = cx.canonical(a);
    let d = cols_to_digest(a);
    *calls += 6;
    let r = vcore::catch(|| {
        let s: S = S::from_digest(d);
        let back = s.digest();
        let hx = s.hexdigest();
        let via_hex = S::from_hexdigest(&hx).map(|x| x.digest());
        let via_text = S::from_hexdigest(&hex(&d)).map(|x| x.digest());
        let upper = S::from_hexdigest(&hex(&d).to_uppercase()).map(|x| x.digest());
        (back, hx, via_hex, via_text, upper)
    });
    match r {
        Err(msg) => push(
            &mut out,
            Finding {
                sig: format!("c14:{}:panic:digest-roundtrip:{}:{}", S::NAME, norm_panic(&msg), cx.opclass(a)),
                detail: det!(cx, "{}: digest/hexdigest round trip of {} panicked: {msg}", S::NAME, fmt_cols(a)),
            },
        ),
        Ok((back, hx, via_hex, via_text, upper)) => {
            if let Some(f) = same(cx, S::NAME, "digest-roundtrip", &digest_to_cols(&back), a, canon, "from_digest(d).digest() vs d") {
                push(&mut out, f);
            }
            // the hex text is the lower-case hex of the digest the value reports
            if hx != hex(&back) {
                push(
                    &mut out,
                    Finding {
                        sig: format!("c14:{}:hexdigest:not-hex-of-digest", S::NAME),
                        detail: det!(cx, "{}: hexdigest() = {hx}, digest() = {}", S::NAME, hex(&back)),
                    },
                );
            }
            for (what, v) in [
                ("from_hexdigest(hexdigest())", via_hex),
                ("from_hexdigest(hex text of d)", via_text),
                ("from_hexdigest(upper-case hex text of d)", upper),
            ] {
                match v {
                    None => push(
                        &mut out,
                        Finding {
                            sig: format!("c14:{}:hexdigest-roundtrip:rejected", S::NAME),
                            detail: det!(cx, "{}: {what} returned None for {}", S::NAME, fmt_cols(a)),
                        },
                    ),
                    Some(x) => {
                        if let Some(f) = same(cx, S::NAME, "hexdigest-roundtrip", &digest_to_cols(&x), a, canon, what) {
                            push(&mut out, f);
                        }
                    }
                }
            }
        }
    }
    let zero = [0u32; 8];
    // a + 0 = a, a - 0 = a, a - a = 0, 0 - a = -a (each primitive judged by the reference)
    for (op, l, r) in [(Op::Add, a, &zero), (Op::Add, &zero, a), (Op::Sub, a, &zero), (Op::Sub, a, a), (Op::Sub, &zero, a)] {
        if let Err(f) = prim::<S>(cx, op, l, r, calls) {
            push(&mut out, f);
        }
    }
    out
}

fn laws_pair<S: SS>(cx: &Ctx, a: &Cols, b: &Cols, calls: &mut u64) -> Vec<Finding> {
    let mut out = vec![];
    let canon = cx.canonical(a) && cx.canonical(b);
    let ab = prim::<S>(cx, Op::Add, a, b, calls);
    let ba = prim::<S>(cx, Op::Add, b, a, calls);
    let amb = prim::<S>(cx, Op::Sub, a, b, calls);
    for r in [&ab, &ba, &amb] {
        if let Err(f) = r {
            push(&mut out, f.clone());
        }
    }
    // commutativity
    if let (Ok(x), Ok(y)) = (&ab, &ba) {
        if let Some(f) = same(cx, S::NAME, "commutativity", x, y, canon, "a+b vs b+a") {
            push(&mut out, f);
        }
    }
    // (a+b)-b = a
    if let Ok(x) = &ab {
        match prim::<S>(cx, Op::Sub, x, b, calls) {
            Err(f) => push(&mut out, f),
            Ok(y) => {
                if let Some(f) = same(cx, S::NAME, "add-then-sub", &y, a, canon, "(a+b)-b vs a") {
                    push(&mut out, f);
                }
            }
        }
    }
    // (a-b)+b = a
    if let Ok(x) = &amb {
        match prim::<S>(cx, Op::Add, x, b, calls) {
            Err(f) => push(&mut out, f),
            Ok(y) => {
                if let Some(f) = same(cx, S::NAME, "sub-then-add", &y, a, canon, "(a-b)+b vs a") {
                    push(&mut out, f);
                }
            }
        }
    }
    // the assigning operators are the same functions
    if let Ok(x) = &ab {
        *calls += 3;
        let r = vcore::catch(|| {
            let mut s: S = mk(a);
            s += mk::<S>(b);
            cols_of(&s)
        });
        match r {
            Ok(y) if y == *x => {}
            Ok(y) => push(
                &mut out,
                Finding {
                    sig: format!("c14:{}:add-assign:differs-from-add", S::NAME),
                    detail: det!(cx, "a += b gives {}, a + b gives {}", fmt_cols(&y), fmt_cols(x)),
                },
            ),
            Err(m) => push(
                &mut out,
                Finding {
                    sig: format!("c14:{}:panic:add-assign:{}", S::NAME, norm_panic(&m)),
                    detail: det!(cx, "a += b panicked ({m}) where a + b did not"),
                },
            ),
        }
    }
    if let Ok(x) = &amb {
        *calls += 3;
        let r = vcore::catch(|| {
            let mut s: S = mk(a);
            s -= mk::<S>(b);
            cols_of(&s)
        });
        match r {
            Ok(y) if y == *x => {}
            Ok(y) => push(
                &mut out,
                Finding {
                    sig: format!("c14:{}:sub-assign:differs-from-sub", S::NAME),
                    detail: det!(cx, "a -= b gives {}, a - b gives {}", fmt_cols(&y), fmt_cols(x)),
                },
            ),
            Err(m) => push(
                &mut out,
                Finding {
                    sig: format!("c14:{}:panic:sub-assign:{}", S::NAME, norm_panic(&m)),
                    detail: det!(cx, "a -= b panicked ({m}) where a - b did not"),
                },
            ),
        }
    }
    out
}

fn laws_triple<S: SS>(cx: &Ctx, a: &Cols, b: &Cols, c: &Cols, calls: &mut u64) -> Vec<Finding> {
    let mut out = vec![];
    let canon = cx.canonical(a) && cx.canonical(b) && cx.canonical(c);
    let l = prim::<S>(cx, Op::Add, a, b, calls).and_then(|ab| prim::<S>(cx, Op::Add, &ab, c, calls));
    let r = prim::<S>(cx, Op::Add, b, c, calls).and_then(|bc| prim::<S>(cx, Op::Add, a, &bc, calls));
    for x in [&l, &r] {
        if let Err(f) = x {
            push(&mut out, f.clone());
        }
    }
    if let (Ok(x), Ok(y)) = (&l, &r) {
        if let Some(f) = same(cx, S::NAME, "associativity", x, y, canon, "(a+b)+c vs a+(b+c)") {
            push(&mut out, f);
        }
    }
    out
}

/////////////////////////////////////// item sections (orders, ops) ///////////////////////////////

/// +1 = insert item i, -1 = remove item i
type ItemOp = (bool, usize);

fn run_ops(ops: &[ItemOp], cx: &Ctx) -> Result<(Cols, String, bool), String> {
    vcore::catch(|| {
        let mut s = setsum::Setsum::default();
        for (ins, i) in ops {
            if *ins {
                s.insert(&cx.items[*i]);
            } else {
                s.remove(&cx.items[*i]);
            }
        }
        let hx = s.hexdigest();
        let back = setsum::Setsum::from_hexdigest(&hx) == Some(s) && setsum::Setsum::from_digest(s.digest()) == s;
        (cols_of(&s), hx, back)
    })
}

/// reference value of an operation sequence; also says whether any column addition wrapped or a
/// removal took part (the non-trivial cases)
fn ref_ops(ops: &[ItemOp], cx: &Ctx) -> ([u64; 8], bool) {
    let mut acc = [0u64; 8];
    let mut nontrivial = false;
    for (ins, i) in ops {
        let h = &cx.item_ref[*i];
        for c in 0..8 {
            if *ins {
                if acc[c] + h[c] >= cx.p[c] {
                    nontrivial = true;
                }
                acc[c] = (acc[c] + h[c]) % cx.p[c];
            } else {
                nontrivial = true;
                acc[c] = (acc[c] + cx.p[c] - h[c]) % cx.p[c];
            }
        }
    }
    (acc, nontrivial)
}

fn check_ops(ops: &[ItemOp], cx: &Ctx) -> (Vec<Finding>, Option<Cols>, bool) {
    let (want, nontrivial) = ref_ops(ops, cx);
    let has_remove = ops.iter().any(|o| !o.0);
    let kind = if has_remove { "insert-remove-sequence" } else { "insert-sequence" };
    let mut out = vec![];
    match run_ops(ops, cx) {
        Err(m) => {
            out.push(Finding {
                sig: format!("c14:setsum:panic:{kind}:{}", norm_panic(&m)),
                detail: det!(cx, "sequence {} panicked: {m}", fmt_ops(ops)),
            });
            (out, None, nontrivial)
        }
        Ok((got, hx, back)) => {
            if let Err(i) = judge(cx, &got, &want, true) {
                out.push(Finding {
                    sig: format!("c14:setsum:{kind}:differs-from-definition"),
                    detail: det!(cx, 
                        "sequence {}: column {i} observed {}, the definition gives {}; observed {} expected columns {:?}",
                        fmt_ops(ops),
                        got[i],
                        want[i],
                        fmt_cols(&got),
                        want
                    ),
                });
            }
            if hx != fmt_cols(&got) || !back {
                out.push(Finding {
                    sig: format!("c14:setsum:{kind}:digest-or-hexdigest-roundtrip"),
                    detail: det!(cx, "sequence {}: hexdigest {hx}, digest {}, round trips equal: {back}", fmt_ops(ops), fmt_cols(&got)),
                });
            }
            (out, Some(got), nontrivial)
        }
    }
}

fn fmt_ops(ops: &[ItemOp]) -> String {
    let names = ["\"\"", "a", "b", "ab", "z*64", "1KiB"];
    ops.iter()
        .map(|(ins, i)| format!("{}{}", if *ins { "+" } else { "-" }, names[*i]))
        .collect::<Vec<_>>()
        .join(" ")
}

fn ops_json(ops: &[ItemOp]) -> Value {
    Value::Array(ops.iter().map(|(ins, i)| json!([if *ins { "ins" } else { "rem" }, i])).collect())
}

fn ops_from_json(v: &Value) -> Vec<ItemOp> {
    v.as_array()
        .map(|a| {
            a.iter()
                .map(|x| (x[0].as_str() == Some("ins"), x[1].as_u64().unwrap_or(0) as usize))
                .collect()
        })
        .unwrap_or_default()
}

/// all sorted index vectors (multisets) of size <= n over k items, small to large
fn multisets(k: usize, n: usize) -> Vec<Vec<usize>> {
    fn rec(k: usize, left: usize, from: usize, cur: &mut Vec<usize>, out: &mut Vec<Vec<usize>>) {
        if left == 0 {
            out.push(cur.clone());
            return;
        }
        for i in from..k {
            cur.push(i);
            rec(k, left - 1, i, cur, out);
            cur.pop();
        }
    }
    let mut out = vec![];
    for size in 0..=n {
        rec(k, size, 0, &mut vec![], &mut out);
    }
    out
}

/// all distinct permutations of a sorted multiset
fn permutations(ms: &[usize]) -> Vec<Vec<usize>> {
    fn rec(rest: &mut Vec<usize>, cur: &mut Vec<usize>, out: &mut Vec<Vec<usize>>) {
        if rest.is_empty() {
            out.push(cur.clone());
            return;
        }
        let mut last = None;
        for i in 0..rest.len() {
            if Some(rest[i]) == last {
                continue;
            }
            last = Some(rest[i]);
            let x = rest.remove(i);
            cur.push(x);
            rec(rest, cur, out);
            cur.pop();
            rest.insert(i, x);
        }
    }
    let mut out = vec![];
    rec(&mut ms.to_vec(), &mut vec![], &mut out);
    out
}

////////////////////////////////////////// boundary values /////////////////////////////////////////

fn column_values(p: u64) -> [u32; 6] {
    [0, 1, (p - 1) as u32, p as u32, (p + 1) as u32, u32::MAX]
}

/// column-wise, all-columns-equal and pairs-of-columns boundary vectors (deduplicated, in that order)
fn boundary_values(cx: &Ctx, adjacent_only: bool) -> Vec<Cols> {
    let mut out: Vec<Cols> = vec![];
    let add = |c: Cols, out: &mut Vec<Cols>| {
        if !out.contains(&c) {
            out.push(c);
        }
    };
    for k in 0..6 {
        let mut c = [0u32; 8];
        for i in 0..8 {
            c[i] = column_values(cx.p[i])[k];
        }
        add(c, &mut out);
    }
    for i in 0..8 {
        for k in 0..6 {
            let mut c = [0u32; 8];
            c[i] = column_values(cx.p[i])[k];
            add(c, &mut out);
        }
    }
    for i in 0..8 {
        for j in i + 1..8 {
            if adjacent_only && !(j == i + 1 || (i == 0 && j == 7)) {
                continue;
            }
            for k in 0..6 {
                for l in 0..6 {
                    let mut c = [0u32; 8];
                    c[i] = column_values(cx.p[i])[k];
                    c[j] = column_values(cx.p[j])[l];
                    add(c, &mut out);
                }
            }
        }
    }
    out
}

////////////////////////////////////////////// kv section //////////////////////////////////////////

#[derive(Clone, Debug)]
struct Entry {
    key: Vec<u8>,
    ts: u64,
    value: Option<Vec<u8>>,
}

/// The definition of sst/src/setsum.rs: a put is the item 0x08 | key | timestamp (8 bytes
/// little-endian) | value, a tombstone is 0x09 | key | timestamp.
fn frame(e: &Entry) -> Vec<u8> {
    let mut v = vec![if e.value.is_some() { 8u8 } else { 9u8 }];
    v.extend_from_slice(&e.key);
    v.extend_from_slice(&e.ts.to_le_bytes());
    if let Some(x) = &e.value {
        v.extend_from_slice(x);
    }
    v
}

fn kv_entries(items: &[Vec<u8>]) -> Vec<Entry> {
    let keys: Vec<Vec<u8>> = vec![b"".to_vec(), b"a".to_vec(), b"ab".to_vec(), vec![0], vec![8], vec![b'z'; 64]];
    let tss = [0u64, 1, 255, 256, 1 << 32, 1 << 63, u64::MAX];
    let values: Vec<Option<Vec<u8>>> = vec![
        None,
        Some(vec![]),
        Some(b"a".to_vec()),
        Some(vec![0]),
        Some(1u64.to_le_bytes().to_vec()),
        Some(items[5].clone()),
    ];
    let mut out = vec![];
    for k in &keys {
        for t in tss {
            for v in &values {
                out.push(Entry { key: k.clone(), ts: t, value: v.clone() });
            }
        }
    }
    out
}

fn entry_json(e: &Entry) -> Value {
    json!({"key": hex(&e.key), "ts": e.ts.to_string(), "value": e.value.as_ref().map(|v| hex(v))})
}

fn entry_from_json(v: &Value) -> Entry {
    Entry {
        key: unhex(v["key"].as_str().unwrap_or("")).unwrap_or_default(),
        ts: v["ts"].as_str().and_then(|s| s.parse().ok()).unwrap_or(0),
        value: v["value"].as_str().and_then(unhex),
    }
}

/// put/del/insert of up to two entries, every way of feeding them
fn check_kv(cx: &Ctx, es: &[Entry], calls: &mut u64) -> (Vec<Finding>, Option<Cols>) {
    let mut want = [0u64; 8];
    for e in es {
        want = cx.radd(&want, &cx.ref_item(&frame(e)));
    }
    let mut out = vec![];
    *calls += 3 * es.len() as u64 + 4;
    let r = vcore::catch(|| {
        let mut by_call = sst::Setsum::default();
        let mut by_kvr = sst::Setsum::default();
        let mut raw = setsum::Setsum::default();
        for e in es {
            match &e.value {
                Some(v) => by_call.put(&e.key, e.ts, v),
                None => by_call.del(&e.key, e.ts),
            }
            by_kvr.insert(sst::KeyValueRef { key: &e.key, timestamp: e.ts, value: e.value.as_deref() });
            raw.insert(&frame(e));
        }
        let mut summed = sst::Setsum::default();
        for e in es.iter().rev() {
            let mut one = sst::Setsum::default();
            one.insert(sst::KeyValueRef { key: &e.key, timestamp: e.ts, value: e.value.as_deref() });
            summed += one;
        }
        (
            cols_of(&by_call),
            cols_of(&by_kvr),
            digest_to_cols(&raw.digest()),
            cols_of(&summed),
            digest_to_cols(&by_call.into_inner().digest()),
        )
    });
    match r {
        Err(m) => {
            out.push(Finding {
                sig: format!("c14:sst-setsum:panic:put-del:{}", norm_panic(&m)),
                detail: det!(cx, "put/del of {} panicked: {m}", Value::Array(es.iter().map(entry_json).collect())),
            });
            (out, None)
        }
        Ok((by_call, by_kvr, raw, summed, inner)) => {
            let tomb = if es.iter().any(|e| e.value.is_none()) { "with-tombstone" } else { "puts-only" };
            let shown = Value::Array(es.iter().map(entry_json).collect()).to_string();
            // the framing itself: put/del against the definition
            if let Err(i) = judge(cx, &by_call, &want, true) {
                push(
                    &mut out,
                    Finding {
                        sig: format!("c14:sst-setsum:put-del:differs-from-definition:{tomb}"),
                        detail: det!(
                            cx,
                            "put/del of {shown}: column {i} observed {}, the definition (SHA3-256 of tag|key|ts_le|value, tag 8 = put, 9 = tombstone) gives {}",
                            by_call[i],
                            want[i]
                        ),
                    },
                );
            } else {
                // the other ways in must give the same value
                for (what, got) in [
                    ("insert-keyvalueref", &by_kvr),
                    ("sum-of-single-entry-setsums-reversed", &summed),
                    ("into-inner", &inner),
                ] {
                    if *got != by_call {
                        push(
                            &mut out,
                            Finding {
                                sig: format!("c14:sst-setsum:{what}:differs-from-put-del:{tomb}"),
                                detail: det!(cx, "{what} of {shown} gives {}, put/del gives {}", fmt_cols(got), fmt_cols(&by_call)),
                            },
                        );
                    }
                }
            }
            // setsum::Setsum::insert of the framed item (harness framing + subject hashing)
            if let Err(i) = judge(cx, &raw, &want, true) {
                push(
                    &mut out,
                    Finding {
                        sig: "c14:setsum:insert-of-framed-entry:differs-from-definition".into(),
                        detail: det!(cx, "setsum::Setsum::insert of the framed bytes of {shown}: column {i} observed {}, expected {}", raw[i], want[i]),
                    },
                );
            }
            (out, Some(by_call))
        }
    }
}

////////////////////////////////////////////// cases ///////////////////////////////////////////////

/// Re-run one recorded case; the findings it produces.
fn run_case(cx: &Ctx, case: &Value) -> Vec<Finding> {
    let mut calls = 0u64;
    let cols = |k: &str| -> Cols {
        let b = unhex(case[k].as_str().unwrap_or("")).unwrap_or_default();
        let mut d = [0u8; 32];
        if b.len() == 32 {
            d.copy_from_slice(&b);
        }
        digest_to_cols(&d)
    };
    let ty = case["ty"].as_str().unwrap_or("setsum");
    match case["section"].as_str().unwrap_or("") {
        "ops" | "orders" => check_ops(&ops_from_json(&case["ops"]), cx).0,
        "vectored" => {
            let item = case["item"].as_u64().unwrap_or(0) as usize;
            let cuts: Vec<usize> = case["cuts"].as_array().map(|a| a.iter().map(|x| x.as_u64().unwrap_or(0) as usize).collect()).unwrap_or_default();
            check_vectored(cx, item, &cuts, &mut calls).0
        }
        "union" => {
            let ms = |k: &str| -> Vec<usize> { case[k].as_array().map(|a| a.iter().map(|x| x.as_u64().unwrap_or(0) as usize).collect()).unwrap_or_default() };
            if case["C"].is_array() {
                check_union3(cx, &ms("A"), &ms("B"), &ms("C"), &mut calls)
            } else {
                check_union2(cx, &ms("A"), &ms("B"), &mut calls)
            }
        }
        "boundary" => {
            let arity = case["arity"].as_u64().unwrap_or(1);
            match (arity, ty) {
                (1, "setsum-via-hexdigest") => laws_unary::<SetsumViaHex>(cx, &cols("a"), &mut calls),
                (1, "sst-setsum-via-hexdigest") => laws_unary::<SstSetsumViaHex>(cx, &cols("a"), &mut calls),
                (2, "setsum-via-hexdigest") => laws_pair::<SetsumViaHex>(cx, &cols("a"), &cols("b"), &mut calls),
                (2, "sst-setsum-via-hexdigest") => laws_pair::<SstSetsumViaHex>(cx, &cols("a"), &cols("b"), &mut calls),
                (1, "setsum") => laws_unary::<setsum::Setsum>(cx, &cols("a"), &mut calls),
                (1, _) => laws_unary::<sst::Setsum>(cx, &cols("a"), &mut calls),
                (2, "setsum") => laws_pair::<setsum::Setsum>(cx, &cols("a"), &cols("b"), &mut calls),
                (2, _) => laws_pair::<sst::Setsum>(cx, &cols("a"), &cols("b"), &mut calls),
                (_, "setsum") => laws_triple::<setsum::Setsum>(cx, &cols("a"), &cols("b"), &cols("c"), &mut calls),
                (_, _) => laws_triple::<sst::Setsum>(cx, &cols("a"), &cols("b"), &cols("c"), &mut calls),
            }
        }
        "kv" => {
            let es: Vec<Entry> = case["entries"].as_array().map(|a| a.iter().map(entry_from_json).collect()).unwrap_or_default();
            check_kv(cx, &es, &mut calls).0
        }
        "definition" => check_definition(cx),
        other => vec![Finding { sig: format!("machinery:unknown-section:{other}"), detail: String::new() }],
    }
}

fn check_definition(cx: &Ctx) -> Vec<Finding> {
    if cx.src_primes == cx.p.to_vec() {
        return vec![];
    }
    vec![Finding {
        sig: "c14:definition:primes-in-source-differ-from-eight-largest-primes-below-2^32".into(),
        detail: det!(cx, "source text has {:?}, the published definition uses {:?}", cx.src_primes, cx.p),
    }]
}

/// the simplest recorded case of every signature (smallest metric), put first in the report
static BEST: Mutex<BTreeMap<String, (u64, Violation)>> = Mutex::new(BTreeMap::new());
thread_local! {
    static MY_BEST: RefCell<HashMap<String, u64>> = RefCell::new(HashMap::new());
}

fn nonzero(c: &Cols) -> u64 {
    c.iter().filter(|x| **x != 0).count() as u64
}

fn record_simple(cx: &Ctx, rep: &mut Report, case: Value, findings: Vec<Finding>) {
    if findings.is_empty() {
        return;
    }
    let c2 = case.clone();
    let metric = case.to_string().len() as u64;
    record(cx, rep, findings, metric, move || c2, || run_case(cx, &case));
}

/// Replay before report: a finding is recorded only when re-executing the case reproduces it.
/// While a signature still has room for kept cases the re-execution goes through the recorded
/// JSON case (exactly what --replay does, with explanations); afterwards the case is re-executed
/// directly and only counted.
fn record(
    cx: &Ctx,
    rep: &mut Report,
    findings: Vec<Finding>,
    metric: u64,
    mkcase: impl FnOnce() -> Value,
    rerun: impl FnOnce() -> Vec<Finding>,
) {
    if findings.is_empty() {
        return;
    }
    let quota = rep.max_violations_per_sig as u64;
    let room = findings
        .iter()
        .any(|f| rep.violation_sigs.get(&f.sig).copied().unwrap_or(0) < quota);
    let improves = MY_BEST.with(|m| {
        let m = m.borrow();
        findings.iter().any(|f| m.get(&f.sig).map(|b| metric < *b).unwrap_or(true))
    });
    if room || improves {
        let verbose = Ctx { verbose: true, p: cx.p, items: cx.items.clone(), item_ref: cx.item_ref.clone(), src_primes: cx.src_primes.clone() };
        let case = mkcase();
        let again = run_case(&verbose, &case);
        for f in findings {
            match again.iter().find(|g| g.sig == f.sig) {
                None => rep.count("non_reproducible_findings", 1),
                Some(g) => {
                    let v = Violation { property: "C14".into(), signature: f.sig.clone(), detail: g.detail.clone(), case: case.clone() };
                    let better = MY_BEST.with(|m| {
                        let mut m = m.borrow_mut();
                        let b = m.entry(f.sig.clone()).or_insert(u64::MAX);
                        if metric < *b {
                            *b = metric;
                            true
                        } else {
                            false
                        }
                    });
                    if better {
                        let mut gl = BEST.lock().unwrap();
                        let e = gl.entry(f.sig.clone()).or_insert((u64::MAX, v.clone()));
                        if metric < e.0 {
                            *e = (metric, v.clone());
                        }
                    }
                    rep.violation(v)
                }
            }
        }
    } else {
        let again = rerun();
        for f in findings {
            if again.iter().any(|g| g.sig == f.sig) {
                rep.violation(Violation { property: "C14".into(), signature: f.sig, detail: String::new(), case: Value::Null });
            } else {
                rep.count("non_reproducible_findings", 1);
            }
        }
    }
}

////////////////////////////////////////// vectored section ////////////////////////////////////////

/// pieces of item `i` cut at `cuts` (sorted positions; 0..=2 cuts -> 1..=3 pieces); the special
/// cut list [usize::MAX] stands for the empty piece list (only meaningful for the empty item)
fn pieces<'a>(item: &'a [u8], cuts: &[usize]) -> Vec<&'a [u8]> {
    if cuts == [usize::MAX] {
        return vec![];
    }
    let mut v = vec![];
    let mut from = 0;
    for c in cuts {
        v.push(&item[from..*c]);
        from = *c;
    }
    v.push(&item[from..]);
    v
}

fn check_vectored(cx: &Ctx, item: usize, cuts: &[usize], calls: &mut u64) -> (Vec<Finding>, Option<Cols>) {
    let it = &cx.items[item];
    let ps = pieces(it, cuts);
    let want = cx.item_ref[item];
    let mut out = vec![];
    *calls += 4;
    let r = vcore::catch(|| {
        let mut s = setsum::Setsum::default();
        s.insert_vectored(&ps);
        let after_insert = cols_of(&s);
        s.remove_vectored(&ps);
        let after_remove = cols_of(&s);
        // and on top of a non-empty set, removed through the unsplit call
        let mut t = setsum::Setsum::default();
        t.insert(b"a");
        let base = cols_of(&t);
        t.insert_vectored(&ps);
        t.remove(it);
        (after_insert, after_remove, base, cols_of(&t))
    });
    let npieces = ps.len();
    match r {
        Err(m) => {
            out.push(Finding {
                sig: format!("c14:setsum:panic:vectored:{}:{npieces}-pieces", norm_panic(&m)),
                detail: det!(cx, "insert_vectored/remove_vectored of item {item} cut at {cuts:?} panicked: {m}"),
            });
            (out, None)
        }
        Ok((ins, rem, base, t)) => {
            if let Err(i) = judge(cx, &ins, &want, true) {
                out.push(Finding {
                    sig: format!("c14:setsum:insert-vectored:differs-from-definition:{npieces}-pieces"),
                    detail: det!(cx, 
                        "insert_vectored of item {item} (len {}) cut at {cuts:?}: column {i} observed {}, SHA3-256 of the concatenation gives {}",
                        it.len(),
                        ins[i],
                        want[i]
                    ),
                });
            }
            if rem != [0u32; 8] {
                out.push(Finding {
                    sig: format!("c14:setsum:remove-vectored:does-not-undo-insert-vectored:{npieces}-pieces"),
                    detail: det!(cx, "item {item} cut at {cuts:?}: after insert_vectored and remove_vectored the value is {}", fmt_cols(&rem)),
                });
            }
            if t != base {
                out.push(Finding {
                    sig: format!("c14:setsum:remove:does-not-undo-insert-vectored:{npieces}-pieces"),
                    detail: det!(cx, "item {item} cut at {cuts:?}: {{a}} + vectored item - item = {}, expected {}", fmt_cols(&t), fmt_cols(&base)),
                });
            }
            (out, Some(ins))
        }
    }
}

/////////////////////////////////////////// union section //////////////////////////////////////////

fn setsum_of(cx: &Ctx, ms: &[usize]) -> setsum::Setsum {
    let mut s = setsum::Setsum::default();
    for i in ms {
        s.insert(&cx.items[*i]);
    }
    s
}

fn ref_of(cx: &Ctx, ms: &[usize]) -> [u64; 8] {
    let mut acc = [0u64; 8];
    for i in ms {
        acc = cx.radd(&acc, &cx.item_ref[*i]);
    }
    acc
}

fn check_union2(cx: &Ctx, a: &[usize], b: &[usize], calls: &mut u64) -> Vec<Finding> {
    let mut out = vec![];
    *calls += (a.len() + b.len()) as u64 + 8;
    let r = vcore::catch(|| {
        let sa = setsum_of(cx, a);
        let sb = setsum_of(cx, b);
        let mut both: Vec<usize> = a.to_vec();
        both.extend_from_slice(b);
        let direct = setsum_of(cx, &both);
        let mut acc = sa;
        acc += sb;
        let mut dec = acc;
        dec -= sb;
        (cols_of(&(sa + sb)), cols_of(&(sb + sa)), cols_of(&direct), cols_of(&((sa + sb) - sb)), cols_of(&sa), cols_of(&(sa - sa)), cols_of(&acc), cols_of(&dec), cols_of(&(direct - sa)), cols_of(&sb))
    });
    match r {
        Err(m) => out.push(Finding {
            sig: format!("c14:setsum:panic:union:{}", norm_panic(&m)),
            detail: det!(cx, "union laws of multisets {a:?} and {b:?} panicked: {m}"),
        }),
        Ok((ab, ba, direct, abmb, sa, zero, acc, dec, dma, sb)) => {
            let want = cx.radd(&ref_of(cx, a), &ref_of(cx, b));
            let mut chk = |law: &str, got: &Cols, want: &Cols, what: &str| {
                if got != want {
                    push(
                        &mut out,
                        Finding {
                            sig: format!("c14:setsum:union:{law}"),
                            detail: det!(cx, "multisets {a:?}, {b:?}: {what}: {} vs {}", fmt_cols(got), fmt_cols(want)),
                        },
                    );
                }
            };
            let mut w = [0u32; 8];
            for i in 0..8 {
                w[i] = want[i] as u32;
            }
            chk("sum-differs-from-definition", &ab, &w, "setsum(A)+setsum(B) vs reference of the union");
            chk("sum-differs-from-setsum-of-union", &ab, &direct, "setsum(A)+setsum(B) vs setsum(A+B) built by inserts");
            chk("not-commutative", &ab, &ba, "A+B vs B+A");
            chk("sub-does-not-undo-add", &abmb, &sa, "(A+B)-B vs A");
            chk("self-difference-not-empty", &zero, &[0u32; 8], "A-A vs empty");
            chk("add-assign-differs", &acc, &ab, "A+=B vs A+B");
            chk("sub-assign-differs", &dec, &sa, "(A+=B)-=B vs A");
            chk("union-minus-part", &dma, &sb, "setsum(A+B)-setsum(A) vs setsum(B)");
        }
    }
    out
}

fn check_union3(cx: &Ctx, a: &[usize], b: &[usize], c: &[usize], calls: &mut u64) -> Vec<Finding> {
    let mut out = vec![];
    *calls += (a.len() + b.len() + c.len()) as u64 + 4;
    let r = vcore::catch(|| {
        let (sa, sb, sc) = (setsum_of(cx, a), setsum_of(cx, b), setsum_of(cx, c));
        (cols_of(&((sa + sb) + sc)), cols_of(&(sa + (sb + sc))))
    });
    match r {
        Err(m) => out.push(Finding {
            sig: format!("c14:setsum:panic:union3:{}", norm_panic(&m)),
            detail: det!(cx, "associativity of multisets {a:?}, {b:?}, {c:?} panicked: {m}"),
        }),
        Ok((l, r)) => {
            let want = cx.radd(&cx.radd(&ref_of(cx, a), &ref_of(cx, b)), &ref_of(cx, c));
            if l != r {
                out.push(Finding {
                    sig: "c14:setsum:union:not-associative".into(),
                    detail: det!(cx, "multisets {a:?}, {b:?}, {c:?}: (A+B)+C = {}, A+(B+C) = {}", fmt_cols(&l), fmt_cols(&r)),
                });
            }
            if judge(cx, &l, &want, true).is_err() {
                out.push(Finding {
                    sig: "c14:setsum:union:sum-differs-from-definition".into(),
                    detail: det!(cx, "multisets {a:?}, {b:?}, {c:?}: (A+B)+C = {}, reference columns {:?}", fmt_cols(&l), want),
                });
            }
        }
    }
    out
}

/////////////////////////////////////////////// main ///////////////////////////////////////////////

fn build_ctx(args: &Args, notes: &mut BTreeMap<String, Value>) -> Result<Ctx, String> {
    sha3::self_test()?;
    let derived = primes::largest_below_2_32(8);
    let src = args.get("setsum-src").unwrap_or("/repo/setsum/src/lib.rs");
    let from_src = primes::from_source(src)?;
    notes.insert("primes_reference".into(), json!(derived));
    notes.insert("primes_in_source_text".into(), json!(from_src.clone()));
    let mut p = [0u64; 8];
    p.copy_from_slice(&derived);
    let items = item_alphabet();
    check_gap_items(&items, &p)?;
    // the Keccak written here against CPython's hashlib, on the alphabet and on framed entries
    let mut msgs = items.clone();
    for e in kv_entries(&items).iter().step_by(7) {
        msgs.push(frame(e));
    }
    for n in [135usize, 136, 137, 271, 272, 273] {
        msgs.push(vec![0xa5; n]);
    }
    match pyref::sha3_256_all(&msgs) {
        Some(py) => {
            for (m, d) in msgs.iter().zip(py.iter()) {
                if sha3::sha3_256(m) != *d {
                    return Err(format!("harness SHA3-256 disagrees with python hashlib on a {}-byte message", m.len()));
                }
            }
            notes.insert("python_hashlib_crosscheck".into(), json!(format!("{} messages agree", msgs.len())));
        }
        None => {
            notes.insert("python_hashlib_crosscheck".into(), json!("python3 unavailable; FIPS 202 known answers only"));
        }
    }
    let mut cx = Ctx { p, items, item_ref: vec![], src_primes: from_src, verbose: true };
    cx.item_ref = cx.items.iter().map(|i| cx.ref_item(i)).collect();
    Ok(cx)
}

fn main() {
    let args = Args::parse();
    vcore::quiet_panics();
    let mut notes = BTreeMap::new();
    let cx = match build_ctx(&args, &mut notes) {
        Ok(c) => c,
        Err(e) => {
            eprintln!("machinery error: {e}");
            std::process::exit(2);
        }
    };
    if let Some(rf) = args.replay_case() {
        replay(&cx, &rf);
        return;
    }
    let mut cx = cx;
    cx.verbose = false;
    let thorough = args.tier_thorough();
    let n = args.usize("size", if thorough { 5 } else { 4 });
    let threads = args.threads();
    let seed = args.u64("seed", 0) as usize;
    let sections: Vec<String> = args
        .get("sections")
        .unwrap_or("definition,orders,ops,vectored,union,boundary,kv,hex")
        .split(',')
        .map(|s| s.to_string())
        .collect();
    let on = |s: &str| sections.iter().any(|x| x == s);
    let mkrep = || Report::new("enum_setsum", "C14");
    let mut total = mkrep();
    let cxr = &cx;
    let rot = |len: usize| if len == 0 { 0 } else { seed % len };

    // ---- the definition itself: the primes in the source text are the published ones
    if on("definition") {
        total.evaluations += 1;
        let f = check_definition(&cx);
        record_simple(&cx, &mut total, json!({"section": "definition"}), f);
    }

    // ---- orders: every multiset, every distinct insertion order, all orders agree
    if on("orders") {
        let mss = multisets(6, n);
        total.count("multisets", mss.len() as u64);
        let mut items = mss;
        let r = rot(items.len());
        items.rotate_left(r);
        let part = vcore::parallel(items, threads, mkrep, |ms, rep| {
            let perms = permutations(ms);
            let mut first: Option<Cols> = None;
            for perm in perms.iter() {
                let ops: Vec<ItemOp> = perm.iter().map(|i| (true, *i)).collect();
                let (mut f, got, nontrivial) = check_ops(&ops, cxr);
                rep.evaluations += 1;
                rep.traces_validated += 1;
                rep.transitions += ops.len() as u64 + 4;
                rep.count("insertion_orders", 1);
                let h = stable_hash(&("orders", perm));
                rep.states.insert(h);
                if nontrivial {
                    rep.nontrivial.insert(h);
                }
                if let Some(g) = got {
                    rep.outcomes.insert(stable_hash(&("value", g)));
                    match first {
                        None => first = Some(g),
                        Some(f0) if f0 != g => f.push(Finding {
                            sig: "c14:setsum:insertion-order-changes-value".into(),
                            detail: det!(cx, "multiset {ms:?}: order {perm:?} gives {}, first order gives {}", fmt_cols(&g), fmt_cols(&f0)),
                        }),
                        _ => {}
                    }
                }
                if rep.evaluations % 211 == 5 {
                    rep.sample(json!({"section": "orders", "ops": fmt_ops(&ops), "value": got.map(|g| fmt_cols(&g))}));
                }
                record_simple(cxr, rep, json!({"section": "orders", "ops": ops_json(&ops)}), f);
            }
        });
        total.merge(part);
    }

    // ---- ops: every insert/remove sequence (first two symbols partition the work)
    if on("ops") {
        let alphabet: Vec<ItemOp> = (0..6).map(|i| (true, i)).chain((0..6).map(|i| (false, i))).collect();
        let mut prefixes: Vec<Vec<ItemOp>> = vec![vec![]];
        for a in &alphabet {
            prefixes.push(vec![*a]);
        }
        for a in &alphabet {
            for b in &alphabet {
                prefixes.push(vec![*a, *b]);
            }
        }
        let r = rot(prefixes.len());
        prefixes[1..].rotate_left(r % (alphabet.len() * alphabet.len()));
        let alpha = &alphabet;
        let part = vcore::parallel(prefixes, threads, mkrep, |prefix, rep| {
            fn go(cx: &Ctx, alpha: &[ItemOp], ops: &mut Vec<ItemOp>, n: usize, expand: bool, rep: &mut Report) {
                let (f, got, nontrivial) = check_ops(ops, cx);
                rep.evaluations += 1;
                rep.traces_validated += 1;
                rep.transitions += ops.len() as u64 + 4;
                rep.count("op_sequences", 1);
                let h = stable_hash(&("ops", &*ops));
                rep.states.insert(h);
                if nontrivial {
                    rep.nontrivial.insert(h);
                }
                if let Some(g) = got {
                    rep.outcomes.insert(stable_hash(&("value", g)));
                }
                if rep.evaluations % 4999 == 17 {
                    rep.sample(json!({"section": "ops", "ops": fmt_ops(ops), "value": got.map(|g| fmt_cols(&g))}));
                }
                record_simple(cx, rep, json!({"section": "ops", "ops": ops_json(ops)}), f);
                if expand && ops.len() < n {
                    for a in alpha {
                        ops.push(*a);
                        go(cx, alpha, ops, n, true, rep);
                        ops.pop();
                    }
                }
            }
            let mut ops = prefix.clone();
            if ops.len() > n {
                return;
            }
            // prefixes shorter than 2 are leaves of the partition; length-2 prefixes own their subtree
            let expand = ops.len() == 2;
            go(cxr, alpha, &mut ops, n, expand, rep);
        });
        total.merge(part);
    }

    // ---- vectored: every split into <= 3 pieces (first cut partitions the work)
    if on("vectored") {
        let mut work: Vec<(usize, Option<usize>)> = vec![];
        for (i, it) in cx.items.iter().enumerate() {
            work.push((i, None));
            for c in 0..=it.len() {
                work.push((i, Some(c)));
            }
        }
        let r = rot(work.len());
        work.rotate_left(r);
        let part = vcore::parallel(work, threads, mkrep, |(item, first), rep| {
            let len = cxr.items[*item].len();
            let mut cases: Vec<Vec<usize>> = vec![];
            match first {
                None => {
                    cases.push(vec![]);
                    if len == 0 {
                        cases.push(vec![usize::MAX]);
                    }
                }
                Some(c) => {
                    cases.push(vec![*c]);
                    for d in *c..=len {
                        cases.push(vec![*c, d]);
                    }
                }
            }
            for cuts in cases {
                let mut calls = 0;
                let (f, got) = check_vectored(cxr, *item, &cuts, &mut calls);
                rep.evaluations += 1;
                rep.traces_validated += 1;
                rep.transitions += calls;
                rep.count("vectored_splits", 1);
                // 1 KiB has half a million splits: keep the hash sets to the short items
                if len <= 64 {
                    let h = stable_hash(&("vectored", item, &cuts));
                    rep.states.insert(h);
                    if cuts.len() == 2 && cuts[0] != cuts[1] && cuts[0] != 0 && cuts[1] != len {
                        rep.nontrivial.insert(h);
                    }
                }
                if let Some(g) = got {
                    rep.outcomes.insert(stable_hash(&("value", g)));
                }
                if rep.evaluations % 40009 == 3 {
                    rep.sample(json!({"section": "vectored", "item": item, "cuts": cuts, "value": got.map(|g| fmt_cols(&g))}));
                }
                record_simple(cxr, rep, json!({"section": "vectored", "item": item, "cuts": cuts}), f);
            }
        });
        total.merge(part);
    }

    // ---- union: pairs and triples of multisets
    if on("union") {
        let mss = multisets(6, n);
        let small = multisets(6, if thorough { 3 } else { 2 });
        let idx: Vec<usize> = (0..mss.len()).collect();
        let (mr, sr) = (&mss, &small);
        let part = vcore::parallel(idx, threads, mkrep, |ai, rep| {
            for b in mr.iter() {
                let mut calls = 0;
                let f = check_union2(cxr, &mr[*ai], b, &mut calls);
                rep.evaluations += 1;
                rep.traces_validated += 1;
                rep.transitions += calls;
                rep.count("multiset_pairs", 1);
                let h = stable_hash(&("union2", &mr[*ai], b));
                rep.states.insert(h);
                if !mr[*ai].is_empty() && !b.is_empty() {
                    rep.nontrivial.insert(h);
                }
                rep.outcomes.insert(stable_hash(&("union-ok", f.is_empty())));
                record_simple(cxr, rep, json!({"section": "union", "A": mr[*ai], "B": b}), f);
            }
            if *ai < sr.len() {
                for b in sr.iter() {
                    for c in sr.iter() {
                        let mut calls = 0;
                        let f = check_union3(cxr, &sr[*ai], b, c, &mut calls);
                        rep.evaluations += 1;
                        rep.traces_validated += 1;
                        rep.transitions += calls;
                        rep.count("multiset_triples", 1);
                        record_simple(cxr, rep, json!({"section": "union", "A": sr[*ai], "B": b, "C": c}), f);
                    }
                }
            }
        });
        total.merge(part);
    }

    // ---- boundary values
    let mut nvalues = 0;
    let mut triple_domain = 0;
    let mut triple_shapes = "none";
    if on("boundary") {
        let vals = boundary_values(&cx, false);
        nvalues = vals.len();
        total.count("boundary_values", vals.len() as u64);
        total.count("boundary_values_noncanonical", vals.iter().filter(|v| !cx.canonical(v)).count() as u64);
        fn sweep12<S: SS>(cx: &Ctx, vals: &[Cols], ai: usize, rep: &mut Report) {
            let a = &vals[ai];
            let mut calls = 0;
            let f = laws_unary::<S>(cx, a, &mut calls);
            rep.evaluations += 1;
            rep.traces_validated += 1;
            rep.count("boundary_unary", 1);
            let h = stable_hash(&("b1", S::NAME, a));
            rep.states.insert(h);
            if !cx.canonical(a) {
                rep.nontrivial.insert(h);
            }
            rep.outcomes.insert(stable_hash(&("b1", f.iter().map(|x| x.sig.clone()).collect::<Vec<_>>())));
            record(cx, rep, f, 10000 + 100 * nonzero(a), || json!({"section": "boundary", "ty": S::NAME, "arity": 1, "a": fmt_cols(a)}), || laws_unary::<S>(cx, a, &mut 0));
            for b in vals.iter() {
                let f = laws_pair::<S>(cx, a, b, &mut calls);
                rep.evaluations += 1;
                rep.traces_validated += 1;
                rep.count("boundary_pairs", 1);
                let h = stable_hash(&("b2", S::NAME, a, b));
                rep.states.insert(h);
                if !cx.canonical(a) || !cx.canonical(b) {
                    rep.nontrivial.insert(h);
                }
                rep.outcomes.insert(stable_hash(&("b2", f.iter().map(|x| x.sig.clone()).collect::<Vec<_>>())));
                if rep.evaluations % 90001 == 11 {
                    rep.sample(json!({"section": "boundary", "ty": S::NAME, "a": fmt_cols(a), "b": fmt_cols(b), "findings": f.iter().map(|x| x.sig.clone()).collect::<Vec<_>>()}));
                }
                record(cx, rep, f, 20000 + 100 * (nonzero(a) + nonzero(b)), || json!({"section": "boundary", "ty": S::NAME, "arity": 2, "a": fmt_cols(a), "b": fmt_cols(b)}), || laws_pair::<S>(cx, a, b, &mut 0));
            }
            rep.transitions += calls;
        }
        let mut idx: Vec<(usize, usize)> = vec![];
        for t in 0..4 {
            for i in 0..vals.len() {
                idx.push((t, i));
            }
        }
        let r = rot(idx.len());
        idx.rotate_left(r);
        let vr = &vals;
        let part = vcore::parallel(idx, threads, mkrep, |(t, ai), rep| {
            match *t {
                0 => sweep12::<setsum::Setsum>(cxr, vr, *ai, rep),
                1 => sweep12::<sst::Setsum>(cxr, vr, *ai, rep),
                2 => sweep12::<SetsumViaHex>(cxr, vr, *ai, rep),
                _ => sweep12::<SstSetsumViaHex>(cxr, vr, *ai, rep),
            }
        });
        total.merge(part);

        // triples (associativity); fast path on precomputed values, law function on any suspicion
        let tmode = args.get("triples").unwrap_or(if thorough { "full" } else { "adjacent" }).to_string();
        let tvals: Vec<Cols> = match tmode.as_str() {
            "full" => vals.clone(),
            "adjacent" => boundary_values(&cx, true),
            "reduced" => vals.iter().take(6 + 8 * 5).cloned().collect(),
            "none" => vec![],
            other => {
                eprintln!("machinery error: --triples {other}");
                std::process::exit(2);
            }
        };
        triple_shapes = match tmode.as_str() {
            "full" => "all columns equal, one column, every pair of columns",
            "adjacent" => "all columns equal, one column, every pair of cyclically adjacent columns",
            "reduced" => "all columns equal, one column",
            _ => "none",
        };
        triple_domain = tvals.len();
        let subj: Vec<setsum::Setsum> = tvals.iter().map(|c| mk::<setsum::Setsum>(c)).collect();
        let red: Vec<[u64; 8]> = tvals.iter().map(|c| cx.reduce(c)).collect();
        let canon: Vec<bool> = tvals.iter().map(|c| cx.canonical(c)).collect();
        let idx: Vec<usize> = (0..tvals.len()).collect();
        let (tv, sj, rd, cn) = (&tvals, &subj, &red, &canon);
        let part = vcore::parallel(idx, threads, mkrep, |ai, rep| {
            let a = *ai;
            let mut evals = 0u64;
            let mut kinds = [0u64; 3];
            for b in 0..tv.len() {
                let rab = cxr.radd(&rd[a], &rd[b]);
                for c in 0..tv.len() {
                    evals += 1;
                    let got = vcore::catch(|| {
                        let l = (sj[a] + sj[b]) + sj[c];
                        let r = sj[a] + (sj[b] + sj[c]);
                        (cols_of(&l), cols_of(&r))
                    });
                    let all_canon = cn[a] && cn[b] && cn[c];
                    let want = cxr.radd(&rab, &rd[c]);
                    let ok = match &got {
                        Ok((l, r)) => judge(cxr, l, &want, all_canon).is_ok() && judge(cxr, r, &want, all_canon).is_ok(),
                        Err(_) => false,
                    };
                    if ok {
                        kinds[if all_canon { 0 } else { 1 }] += 1;
                        continue;
                    }
                    kinds[2] += 1;
                    let mut calls = 0;
                    let f = laws_triple::<setsum::Setsum>(cxr, &tv[a], &tv[b], &tv[c], &mut calls);
                    if f.is_empty() {
                        rep.count("fast_path_slow_path_disagreements", 1);
                    }
                    record(
                        cxr,
                        rep,
                        f,
                        30000 + 100 * (nonzero(&tv[a]) + nonzero(&tv[b]) + nonzero(&tv[c])),
                        || json!({"section": "boundary", "ty": "setsum", "arity": 3, "a": fmt_cols(&tv[a]), "b": fmt_cols(&tv[b]), "c": fmt_cols(&tv[c])}),
                        || laws_triple::<setsum::Setsum>(cxr, &tv[a], &tv[b], &tv[c], &mut 0),
                    );
                }
            }
            rep.evaluations += evals;
            rep.traces_validated += evals;
            rep.transitions += evals * 4;
            rep.count("boundary_triples", evals);
            rep.count("boundary_triples_exact", kinds[0]);
            rep.count("boundary_triples_congruent", kinds[1]);
            rep.count("boundary_triples_failing", kinds[2]);
            for (k, n) in kinds.iter().enumerate() {
                if *n > 0 {
                    rep.outcomes.insert(stable_hash(&("b3", k)));
                }
            }
        });
        total.merge(part);
    }

    // ---- kv: the sst wrapper's framing
    let mut collisions = vec![];
    if on("kv") {
        let es = kv_entries(&cx.items);
        total.count("kv_entries", es.len() as u64);
        // observation (not part of C14's statement): distinct entries with one framed item
        let mut by_frame: BTreeMap<Vec<u8>, Vec<usize>> = BTreeMap::new();
        for (i, e) in es.iter().enumerate() {
            by_frame.entry(frame(e)).or_default().push(i);
        }
        for (_, v) in by_frame.iter().filter(|(_, v)| v.len() > 1).take(3) {
            collisions.push(json!(v.iter().map(|i| entry_json(&es[*i])).collect::<Vec<_>>()));
        }
        total.count("kv_distinct_entries_sharing_a_framed_item", by_frame.values().filter(|v| v.len() > 1).map(|v| v.len() as u64).sum());
        let idx: Vec<usize> = (0..es.len()).collect();
        let er = &es;
        let part = vcore::parallel(idx, threads, mkrep, |ai, rep| {
            let one = |list: Vec<Entry>, rep: &mut Report| {
                let mut calls = 0;
                let (f, got) = check_kv(cxr, &list, &mut calls);
                rep.evaluations += 1;
                rep.traces_validated += 1;
                rep.transitions += calls;
                rep.count("kv_sequences", 1);
                let h = stable_hash(&("kv", list.iter().map(frame).collect::<Vec<_>>()));
                rep.states.insert(h);
                if list.len() > 1 {
                    rep.nontrivial.insert(h);
                }
                if let Some(g) = got {
                    rep.outcomes.insert(stable_hash(&("value", g)));
                }
                record_simple(cxr, rep, json!({"section": "kv", "entries": list.iter().map(entry_json).collect::<Vec<_>>()}), f);
            };
            one(vec![er[*ai].clone()], rep);
            for b in er.iter() {
                one(vec![er[*ai].clone(), b.clone()], rep);
            }
        });
        total.merge(part);
    }

    // ---- hex: malformed text to from_hexdigest (observations; the property does not speak of it)
    if on("hex") {
        let good = "00".repeat(32);
        let mut probes: Vec<(String, String)> = vec![
            ("63 characters".into(), "0".repeat(63)),
            ("65 characters".into(), "0".repeat(65)),
            ("empty".into(), String::new()),
            ("non-hex letter".into(), format!("g{}", &good[1..])),
            ("plus sign in a byte".into(), format!("+f{}", &good[2..])),
            ("64 bytes, two-byte character at an even offset".into(), format!("\u{e9}{}", &good[2..])),
            ("64 bytes, two-byte character at an odd offset".into(), format!("0\u{e9}0{}", &good[4..])),
        ];
        probes.push(("upper case".into(), "AB".repeat(32)));
        let mut obs = vec![];
        for (what, text) in probes {
            let r = vcore::catch(|| setsum::Setsum::from_hexdigest(&text).map(|s| s.hexdigest()));
            let o = match r {
                Ok(None) => "None".to_string(),
                Ok(Some(h)) => format!("Some({h})"),
                Err(m) => format!("PANIC: {m}"),
            };
            obs.push(json!({"input": what, "len_bytes": text.len(), "observed": o}));
        }
        notes.insert("from_hexdigest_on_malformed_text".into(), Value::Array(obs));
    }
    if !collisions.is_empty() {
        notes.insert("kv_framing_collisions_examples".into(), Value::Array(collisions));
    }

    // the simplest case of every signature first
    {
        let best = BEST.lock().unwrap();
        for (sig, (_, v)) in best.iter() {
            let other: Vec<Violation> = total.violations.iter().filter(|x| x.signature == *sig && x.case != v.case && !x.case.is_null()).take(1).cloned().collect();
            total.violations.retain(|x| x.signature != *sig);
            total.violations.push(v.clone());
            total.violations.extend(other);
        }
        total.violations.retain(|v| !v.case.is_null());
    }
    total.notes = notes;
    total.bound = json!({
        "items": ["\"\"", "a", "b", "ab", "z*64", "1 KiB of bytes"],
        "multiset_size": n,
        "op_sequence_length": n,
        "op_alphabet": 12,
        "vectored_pieces": 3,
        "union_triples_multiset_size": if thorough { 3 } else { 2 },
        "boundary_column_values": ["0", "1", "p-1", "p", "p+1", "2^32-1"],
        "boundary_shapes": ["all columns equal", "one column", "every pair of columns"],
        "boundary_values": nvalues,
        "boundary_pairs": nvalues * nvalues * 2,
        "boundary_triple_domain": triple_domain,
        "boundary_triple_shapes": triple_shapes,
        "types": ["setsum::Setsum", "sst::Setsum"],
        "kv": {"keys": 6, "timestamps": 7, "values_incl_tombstone": 6, "sequence_length": 2},
        "sections": sections,
    });
    total.rule = format!(
        "every multiset of <= {n} items over the 6-item alphabet in every distinct insertion order; every insert/remove sequence of <= {n} operations; every split of every item into <= 3 pieces; every pair of multisets and every triple of multisets of <= {} items; every value, every ordered pair (for setsum::Setsum and sst::Setsum) (both over all {nvalues} boundary vectors) and every ordered triple (setsum::Setsum, over the {triple_domain} vectors of shapes: {triple_shapes}) built through from_digest/from_hexdigest; every sequence of <= 2 of the sst put/del entries. The reference is SHA3-256 written in the harness (cross-checked against python hashlib) and u64 arithmetic modulo the eight largest primes below 2^32. Canonical operands demand equality, non-canonical operands congruence modulo p and no panic. distinct (states) = distinct inputs by content hash (the 1 KiB item's splits and the boundary triples are counted in evaluations and counters only); non-trivial = an insertion wrapped a column past its prime or a removal took part (orders/ops), both cuts strictly inside and different (vectored), both multisets non-empty (union), at least one operand non-canonical (boundary), two entries (kv); outcomes = distinct result values and distinct finding sets.",
        if thorough { 3 } else { 2 }
    );
    total.assumptions = vec![
        "SHA3-256 itself is trusted as implemented by the harness and CPython (they agree on all probes)".into(),
        "the published primes are the eight largest primes below 2^32 (equal to SETSUM_PRIMES in the source text; checked)".into(),
    ];
    if total.outcomes.len() <= 1 && total.evaluations > 1 {
        eprintln!("machinery error: one distinct outcome from {} evaluations (vacuous harness)", total.evaluations);
        total.finish(&args, "enum_setsum");
        std::process::exit(2);
    }
    total.finish(&args, "enum_setsum");
}

fn replay(cx: &Ctx, rf: &Value) {
    let case = &rf["case"];
    let want = rf["signature"].as_str().unwrap_or("");
    println!("replaying C14 case {case}");
    println!("expected: no finding (the laws hold and the value equals the reference; primes {:?})", cx.p);
    let findings = run_case(cx, case);
    for f in findings.iter() {
        println!("observed finding {}: {}", f.sig, f.detail);
    }
    if findings.is_empty() {
        println!("observed: no finding; the property holds on this case");
        std::process::exit(0);
    }
    if findings.iter().any(|f| f.sig == want) {
        println!("REPRODUCED {want}");
    }
    std::process::exit(1);
}
