//! E4 enum, property C16: tuple-key encodings sort byte-wise exactly as their tuples, extensions
//! stay contiguous, encodings decode back, and the parsers never panic on arbitrary bytes.
//! Subjects: tuple_key (field-numbered, ascending and descending elements), tuple_key2 (compact,
//! ascending only), tuple_key_derive (four derived structs).
//!
//!   enum_tuple --tier quick --out report.json
//!   enum_tuple --replay replays/C16/....json
//!
//! Sections (--sections typed,derive,bytes3,bytes4,damaged):
//!   typed    every schema of <= 3 elements over the crate's element types (x directions for
//!            tuple_key), boundary domains per length; all unordered pairs: Ord of encodings = Ord
//!            of tuples; decode(encode(t)) = t; prefix-extension contiguity for schemas of <= 2
//!   derive   the same through #[derive(TypedTupleKey)] structs
//!   bytes3   parser programs on every byte string of length <= 3           (child processes)
//!   bytes4   parser programs on every 4-symbol string over a structural alphabet (thorough)
//!   damaged  every truncation and every 1-byte mutation of valid keys, own schema (child)

use std::cell::RefCell;
use std::collections::{BTreeMap, HashMap};
use std::path::{Path, PathBuf};
use std::sync::Mutex;
use std::sync::atomic::{AtomicUsize, Ordering as AO};

use enumc::child;
use enumc::hostile::{self, HostileCtx, Obs};
use enumc::tup::*;
use enumc::tupcheck::{self, *};
use enumc::{hex, unhex};
use vcore::{Args, Report, Scratch, Value, Violation, json, stable_hash};

//////////////////////////////////////// recording violations //////////////////////////////////////

static BEST: Mutex<BTreeMap<String, (u64, Violation)>> = Mutex::new(BTreeMap::new());
thread_local! {
    static MY_BEST: RefCell<HashMap<String, u64>> = RefCell::new(HashMap::new());
    static WORKER: usize = NEXT_WORKER.fetch_add(1, AO::Relaxed);
}
static NEXT_WORKER: AtomicUsize = AtomicUsize::new(0);

/// Machinery self-test only: ENUM_TUPLE_TEST_ABORT_ON=<hex> makes the process abort when that
/// hostile input is evaluated, to exercise the dead-child path of the sweep driver.
fn test_abort_hook(s: &[u8]) {
    static ON: std::sync::OnceLock<Option<Vec<u8>>> = std::sync::OnceLock::new();
    let on = ON.get_or_init(|| std::env::var("ENUM_TUPLE_TEST_ABORT_ON").ok().and_then(|h| unhex(&h)));
    if on.as_deref() == Some(s) {
        std::process::abort();
    }
}

fn run_any_case(hcx: &HostileCtx, case: &Value) -> Vec<Finding> {
    match case["kind"].as_str().unwrap_or("") {
        "hostile" => {
            let s = unhex(case["bytes"].as_str().unwrap_or("")).unwrap_or_default();
            test_abort_hook(&s);
            let mut o = Obs::default();
            hostile::run_v1(hcx, &s, &mut o);
            hostile::run_v2(&s, &mut o);
            o.findings
        }
        "damaged" => {
            let c = crate_from_json(&case["crate"]);
            let fields = fields_from_json(&case["fields"]);
            let schema = schema_from_json(&case["schema"]).unwrap_or_default();
            let t = tuple_from_json(&schema, &case["t"]).unwrap_or_default();
            let s = unhex(case["bytes"].as_str().unwrap_or("")).unwrap_or_default();
            let mut o = Obs::default();
            hostile::run_damaged(hcx, c, &fields, &schema, &t, &s, &mut o);
            o.findings
        }
        _ => tupcheck::run_case(case),
    }
}

/// Replay before report.  `metric` orders cases of one signature (smaller = simpler); the simplest
/// case of every signature is kept in BEST and put first in the report at the end.
fn record(
    hcx: &HostileCtx,
    rep: &mut Report,
    findings: Vec<Finding>,
    metric: u64,
    mkcase: impl FnOnce() -> Value,
    rerun: impl FnOnce() -> Vec<Finding>,
) {
    if findings.is_empty() {
        return;
    }
    let quota = rep.max_violations_per_sig as u64;
    let room = findings.iter().any(|f| rep.violation_sigs.get(&f.sig).copied().unwrap_or(0) < quota);
    let improves = MY_BEST.with(|m| {
        let m = m.borrow();
        findings.iter().any(|f| m.get(&f.sig).map(|b| metric < *b).unwrap_or(true))
    });
    if room || improves {
        let case = mkcase();
        let again = run_any_case(hcx, &case);
        for f in findings {
            if !again.iter().any(|g| g.sig == f.sig) {
                rep.count("non_reproducible_findings", 1);
                continue;
            }
            let v = Violation { property: "C16".into(), signature: f.sig.clone(), detail: f.detail.clone(), case: case.clone() };
            let better = MY_BEST.with(|m| {
                let mut m = m.borrow_mut();
                let b = m.entry(f.sig.clone()).or_insert(u64::MAX);
                if metric < *b {
                    *b = metric;
                    true
                } else {
                    false
                }
            });
            if better {
                let mut g = BEST.lock().unwrap();
                let e = g.entry(f.sig.clone()).or_insert((u64::MAX, v.clone()));
                if metric < e.0 {
                    *e = (metric, v.clone());
                }
            }
            rep.violation(v);
        }
    } else {
        let again = rerun();
        for f in findings {
            if again.iter().any(|g| g.sig == f.sig) {
                rep.violation(Violation { property: "C16".into(), signature: f.sig, detail: String::new(), case: Value::Null });
            } else {
                rep.count("non_reproducible_findings", 1);
            }
        }
    }
}

fn enc_len(t: &[&[u8]]) -> u64 {
    t.iter().map(|x| x.len() as u64).sum()
}

/////////////////////////////////////////// typed section //////////////////////////////////////////

#[derive(Clone, Debug)]
struct Item {
    c: Crate,
    fields: Vec<u32>,
    ext_field: u32,
    schema: Vec<Elem>,
    level: u8,
    /// level of t/u in the contiguity check (None: not checked for this schema)
    contig: Option<u8>,
}

const LAST_FIELD: u32 = (1 << 29) - 1;

fn typed_items(thorough: bool) -> Vec<Item> {
    let mut v = vec![];
    for len in 1..=3usize {
        let (level, contig) = match (thorough, len) {
            (false, 1) => (4, Some(2)),
            (false, 2) => (2, Some(0)),
            (false, _) => (0, None),
            (true, 1) => (4, Some(3)),
            (true, 2) => (3, Some(1)),
            (true, _) => (1, None),
        };
        for c in [Crate::V1, Crate::V2] {
            let profiles: Vec<(Vec<u32>, u32)> = match c {
                Crate::V2 => vec![(vec![0, 0, 0], 0)],
                Crate::V1 => {
                    if len == 3 && !thorough {
                        vec![(vec![1, 2, 3], 4)]
                    } else {
                        vec![(vec![1, 2, 3], 4), (vec![15, 16, LAST_FIELD], 17)]
                    }
                }
            };
            for s in schemas(c, len) {
                for (f, x) in profiles.iter() {
                    v.push(Item { c, fields: f[..len].to_vec(), ext_field: *x, schema: s.clone(), level, contig });
                }
            }
        }
    }
    v
}

fn run_typed(hcx: &HostileCtx, it: &Item, rep: &mut Report) {
    let (c, fields, schema) = (it.c, &it.fields[..], &it.schema[..]);
    let ts = tuples(schema, it.level);
    let n = ts.len();
    let base = |kind: &str| case_typed(kind, c, fields, schema);
    // encode + round trip
    let mut encs: Vec<Vec<u8>> = Vec::with_capacity(n);
    for t in ts.iter() {
        rep.evaluations += 1;
        rep.traces_validated += 1;
        rep.transitions += 2;
        rep.count("roundtrips", 1);
        let e = match try_encode(c, fields, schema, t) {
            Ok(e) => e,
            Err(f) => {
                let mut cs = base("roundtrip");
                cs["t"] = tuple_json(t);
                record(hcx, rep, vec![f], 0, || cs.clone(), || tupcheck::run_case(&cs));
                vec![]
            }
        };
        let f = check_roundtrip(c, fields, schema, t, &e);
        rep.outcomes.insert(stable_hash(&("roundtrip", c, f.as_ref().map(|x| x.sig.clone()))));
        if let Some(f) = f {
            let mut cs = base("roundtrip");
            cs["t"] = tuple_json(t);
            let metric = schema.len() as u64 * 1000 + e.len() as u64;
            record(hcx, rep, vec![f], metric, || cs.clone(), || tupcheck::run_case(&cs));
        }
        encs.push(e);
    }
    // all unordered pairs
    let mut nontrivial = vec![false; n];
    let mut pairs = 0u64;
    for i in 0..n {
        for j in i..n {
            pairs += 1;
            let (want, idx) = ref_cmp(schema, &ts[i], &ts[j]);
            let got = encs[i].cmp(&encs[j]);
            if let Some(k) = idx {
                if k > 0 || relation(&ts[i][k], &ts[j][k]) == "one-is-prefix-of-other" {
                    nontrivial[i] = true;
                    nontrivial[j] = true;
                }
            }
            if want == got {
                continue;
            }
            let f = check_order(c.name(), schema, &ts[i], &ts[j], &encs[i], &encs[j]);
            rep.outcomes.insert(stable_hash(&("order", c, f.as_ref().map(|x| x.sig.clone()))));
            if let Some(f) = f {
                let metric = schema.len() as u64 * 1000 + enc_len(&[&encs[i], &encs[j]]);
                let (a, b) = (&ts[i], &ts[j]);
                record(
                    hcx,
                    rep,
                    vec![f],
                    metric,
                    || {
                        let mut cs = base("order");
                        cs["a"] = tuple_json(a);
                        cs["b"] = tuple_json(b);
                        cs
                    },
                    || match (try_encode(c, fields, schema, a), try_encode(c, fields, schema, b)) {
                        (Ok(ea), Ok(eb)) => check_order(c.name(), schema, a, b, &ea, &eb).into_iter().collect(),
                        _ => vec![],
                    },
                );
            }
        }
    }
    rep.evaluations += pairs;
    rep.traces_validated += pairs;
    rep.count("ordered_pairs_compared", pairs);
    rep.outcomes.insert(stable_hash(&("order-ok", c, schema.len())));
    for (i, t) in ts.iter().enumerate() {
        let h = stable_hash(&("tuple", c, fields, schema, t));
        rep.states.insert(h);
        if nontrivial[i] {
            rep.nontrivial.insert(h);
        }
    }
    if rep.samples.len() < rep.max_samples && n > 2 && rep.evaluations % 7 == 0 {
        rep.sample(json!({"crate": c.name(), "schema": schema_json(schema), "fields": fields, "t": tuple_json(&ts[n / 2]), "encoding": hex(&encs[n / 2])}));
    }
    // prefix-extension contiguity
    if let Some(cl) = it.contig {
        let (cts, cencs): (Vec<Vec<Val>>, Vec<Vec<u8>>) = if cl == it.level {
            (ts, encs)
        } else {
            let t2 = tuples(schema, cl);
            let e2: Vec<Vec<u8>> = t2.iter().map(|t| try_encode(c, fields, schema, t).unwrap_or_default()).collect();
            (t2, e2)
        };
        let mut s2 = schema.to_vec();
        let mut f2 = fields.to_vec();
        f2.push(it.ext_field);
        let mut checks = 0u64;
        for ext in c.elems() {
            s2.push(ext);
            let ys = domain(ext.0, 0);
            for (i, t) in cts.iter().enumerate() {
                for y in ys.iter() {
                    let mut t2 = t.clone();
                    t2.push(y.clone());
                    rep.transitions += 1;
                    let Ok(ee) = try_encode(c, &f2, &s2, &t2) else { continue };
                    let mk = |u: Option<&Vec<Val>>| {
                        let mut cs = base("contiguity");
                        cs["t"] = tuple_json(t);
                        cs["ext"] = json!([ext.0.name(), ext.1.name()]);
                        cs["ext_field"] = json!(it.ext_field);
                        cs["y"] = val_json(y);
                        if let Some(u) = u {
                            cs["u"] = tuple_json(u);
                        }
                        cs
                    };
                    checks += 1;
                    if let Some(f) = check_contiguity(c, schema, t, &cencs[i], ext, y, &ee, None) {
                        let cs = mk(None);
                        record(hcx, rep, vec![f], schema.len() as u64 * 1000 + ee.len() as u64, || cs.clone(), || tupcheck::run_case(&cs));
                        continue;
                    }
                    for (j, u) in cts.iter().enumerate() {
                        if ref_cmp(schema, t, u).0 != std::cmp::Ordering::Less {
                            continue;
                        }
                        checks += 1;
                        if ee < cencs[j] {
                            continue;
                        }
                        let f = check_contiguity(c, schema, t, &cencs[i], ext, y, &ee, Some((u, &cencs[j])));
                        rep.outcomes.insert(stable_hash(&("contig", c, f.as_ref().map(|x| x.sig.clone()))));
                        if let Some(f) = f {
                            let metric = schema.len() as u64 * 1000 + enc_len(&[&ee, &cencs[j]]);
                            record(hcx, rep, vec![f], metric, || mk(Some(u)), || tupcheck::run_case(&mk(Some(u))));
                        }
                    }
                }
            }
            s2.pop();
        }
        rep.evaluations += checks;
        rep.traces_validated += checks;
        rep.count("contiguity_checks", checks);
        rep.outcomes.insert(stable_hash(&("contig-ok", c)));
    }
}

fn run_derive<D: Derived>(hcx: &HostileCtx, level: u8, rep: &mut Report) {
    let schema = D::schema();
    let ts = tuples(&schema, level);
    let mut encs = vec![];
    for t in ts.iter() {
        let (f, e) = check_derived_one::<D>(t);
        rep.evaluations += 1;
        rep.traces_validated += 1;
        rep.transitions += 3;
        rep.count("derive_roundtrips", 1);
        rep.states.insert(stable_hash(&("derive", D::NAME, t)));
        rep.outcomes.insert(stable_hash(&("derive1", f.iter().map(|x| x.sig.clone()).collect::<Vec<_>>())));
        let cs = json!({"kind": "derive", "struct": D::NAME, "a": tuple_json(t)});
        let metric = e.as_ref().map(|e| e.len() as u64).unwrap_or(0);
        record(hcx, rep, f, metric, || cs.clone(), || tupcheck::run_case(&cs));
        encs.push(e);
    }
    let mut pairs = 0;
    for i in 0..ts.len() {
        for j in i..ts.len() {
            let (Some(ea), Some(eb)) = (&encs[i], &encs[j]) else { continue };
            pairs += 1;
            let f = check_derived_pair::<D>(&ts[i], &ts[j], ea, eb);
            if f.is_empty() {
                continue;
            }
            rep.outcomes.insert(stable_hash(&("derive2", f.iter().map(|x| x.sig.clone()).collect::<Vec<_>>())));
            let mk = || json!({"kind": "derive", "struct": D::NAME, "a": tuple_json(&ts[i]), "b": tuple_json(&ts[j])});
            record(hcx, rep, f, 3000 + enc_len(&[ea, eb]), mk, || check_derived_pair::<D>(&ts[i], &ts[j], ea, eb));
        }
    }
    rep.evaluations += pairs;
    rep.traces_validated += pairs;
    rep.count("derive_pairs_compared", pairs);
}

///////////////////////////////////////////// sweeps ///////////////////////////////////////////////

fn alphabet4() -> Vec<u8> {
    let mut a: Vec<u8> = vec![
        0x00, 0x01, 0x02, 0x7f, 0x80, 0x81, 0xfe, 0xff, // terminators, continuation bits, escapes
        0x22, 0x24, 0x26, 0x28, 0x2a, 0x2c, 0x32, 0x34, 0x36, 0x38, 0x3a, 0x3c, 0x42, // tuple_key tags of fields 1 and 2
        0x0f, 0x10, 0x11, 0x17, 0x18, 0x19, 0x1a, 0x21, 0x23, 0x29, 0x2b, // tuple_key2 integer and unit tags
        0x61, 0xc3, 0xbf, 0xf4, 0x8f, // text and UTF-8 lead/continuation bytes
    ];
    a.sort();
    a.dedup();
    a
}

fn damaged_items(thorough: bool) -> Vec<Item> {
    let mut v = vec![];
    for len in 1..=3usize {
        let level = match (thorough, len) {
            (_, 1) => 4,
            (false, 2) => 0,
            (true, 2) => 1,
            (false, _) => continue,
            (true, _) => 0,
        };
        for c in [Crate::V1, Crate::V2] {
            let profiles: Vec<Vec<u32>> = match c {
                Crate::V2 => vec![vec![0, 0, 0]],
                Crate::V1 => {
                    if len == 1 || (thorough && len == 2) {
                        vec![vec![1, 2, 3], vec![15, 16, LAST_FIELD]]
                    } else {
                        vec![vec![1, 2, 3]]
                    }
                }
            };
            for s in schemas(c, len) {
                for f in profiles.iter() {
                    v.push(Item { c, fields: f[..len].to_vec(), ext_field: 0, schema: s.clone(), level, contig: None });
                }
            }
        }
    }
    v
}

fn sweep_partitions(sweep: &str, thorough: bool) -> usize {
    match sweep {
        "bytes3" => 256,
        "bytes4" => alphabet4().len(),
        "damaged" => damaged_items(thorough).len(),
        _ => 0,
    }
}

struct Fine<'a> {
    path: Option<&'a Path>,
    part: usize,
}

impl Fine<'_> {
    fn ahead(&self, case: impl FnOnce() -> Value) {
        if let Some(p) = self.path {
            child::write_ahead(p, &format!("{} {}", self.part, case()));
        }
    }
}

thread_local! {
    static OBS: RefCell<Obs> = RefCell::new(Obs::default());
    static TALLY: RefCell<[u64; 8]> = const { RefCell::new([0; 8]) };
}

const TALLY_NAMES: [&str; 8] = [
    "hostile_inputs",
    "hostile_reencode_identical",
    "hostile_reencode_differs",
    "hostile_inputs_accepted_by_some_typed_parser",
    "damaged_keys",
    "damaged_keys_accepted",
    "damaged_reencode_differs",
    "damaged_reencode_identical",
];

fn tally(i: usize, n: u64) {
    TALLY.with(|t| t.borrow_mut()[i] += n);
}

fn flush_tally(rep: &mut Report) {
    TALLY.with(|t| {
        let mut t = t.borrow_mut();
        for i in 0..8 {
            if t[i] > 0 {
                rep.count(TALLY_NAMES[i], t[i]);
                t[i] = 0;
            }
        }
    });
}

fn eval_hostile(hcx: &HostileCtx, s: &[u8], fine: &Fine, rep: &mut Report) {
    fine.ahead(|| json!({"kind": "hostile", "bytes": hex(s)}));
    test_abort_hook(s);
    let mut o = OBS.with(|o| std::mem::take(&mut *o.borrow_mut()));
    o.reset();
    hostile::run_v1(hcx, s, &mut o);
    hostile::run_v2(s, &mut o);
    eval_hostile_tail(hcx, s, rep, &mut o);
    OBS.with(|x| *x.borrow_mut() = o);
}

fn eval_hostile_tail(hcx: &HostileCtx, s: &[u8], rep: &mut Report, o: &mut Obs) {
    rep.evaluations += 1;
    rep.traces_validated += 1;
    rep.transitions += o.calls;
    tally(0, 1);
    tally(1, o.reencode_same);
    tally(2, o.reencode_differs);
    rep.outcomes.extend(o.fresh.drain(..));
    if s.len() <= 2 || o.accepted {
        let h = stable_hash(&("bytes", s));
        rep.states.insert(h);
        if o.accepted {
            rep.nontrivial.insert(h);
            tally(3, 1);
        }
    }
    if !o.findings.is_empty() {
        let cs = json!({"kind": "hostile", "bytes": hex(s)});
        record(hcx, rep, std::mem::take(&mut o.findings), s.len() as u64, || cs.clone(), || run_any_case(hcx, &cs));
    }
}

fn run_partition(hcx: &HostileCtx, sweep: &str, part: usize, thorough: bool, fine: &Fine, rep: &mut Report) {
    match sweep {
        "bytes3" => {
            let b = part as u8;
            if part == 0 {
                eval_hostile(hcx, &[], fine, rep);
            }
            eval_hostile(hcx, &[b], fine, rep);
            for x in 0..=255u8 {
                eval_hostile(hcx, &[b, x], fine, rep);
            }
            for x in 0..=255u8 {
                for y in 0..=255u8 {
                    eval_hostile(hcx, &[b, x, y], fine, rep);
                }
            }
        }
        "bytes4" => {
            let a = alphabet4();
            for x in a.iter() {
                for y in a.iter() {
                    for z in a.iter() {
                        eval_hostile(hcx, &[a[part], *x, *y, *z], fine, rep);
                    }
                }
            }
        }
        "damaged" => {
            let items = damaged_items(thorough);
            let it = &items[part];
            let (c, fields, schema) = (it.c, &it.fields[..], &it.schema[..]);
            for t in tuples(schema, it.level) {
                let Ok(key) = try_encode(c, fields, schema, &t) else { continue };
                rep.count("valid_keys_damaged", 1);
                let one = |s: &[u8], rep: &mut Report| {
                    let mk = || {
                        let mut cs = case_typed("damaged", c, fields, schema);
                        cs["t"] = tuple_json(&t);
                        cs["bytes"] = json!(hex(s));
                        cs
                    };
                    fine.ahead(mk);
                    let mut o = OBS.with(|o| std::mem::take(&mut *o.borrow_mut()));
                    o.reset();
                    hostile::run_damaged(hcx, c, fields, schema, &t, s, &mut o);
                    rep.evaluations += 1;
                    rep.traces_validated += 1;
                    rep.transitions += o.calls;
                    tally(4, 1);
                    if o.accepted {
                        tally(5, 1);
                    }
                    tally(6, o.reencode_differs);
                    tally(7, o.reencode_same);
                    rep.outcomes.extend(o.fresh.drain(..));
                    if !o.findings.is_empty() {
                        let cs = mk();
                        record(hcx, rep, std::mem::take(&mut o.findings), s.len() as u64, || cs.clone(), || run_any_case(hcx, &cs));
                    }
                    OBS.with(|x| *x.borrow_mut() = o);
                };
                for n in 0..key.len() {
                    one(&key[..n], rep);
                }
                let mut m = key.clone();
                // keys of three elements (thorough tier only) are mutated with the structural
                // alphabet and the three bit patterns of the original byte, not all 255 values
                let structural: Vec<u8> = if schema.len() >= 3 { alphabet4() } else { vec![] };
                for pos in 0..key.len() {
                    if schema.len() >= 3 {
                        let b = key[pos];
                        let mut xs = structural.clone();
                        xs.extend([b ^ 1, b ^ 0x80, !b]);
                        xs.sort();
                        xs.dedup();
                        for x in xs {
                            if x != b {
                                m[pos] = x;
                                one(&m, rep);
                            }
                        }
                    } else {
                        for x in 0..=255u8 {
                            if x != key[pos] {
                                m[pos] = x;
                                one(&m, rep);
                            }
                        }
                    }
                    m[pos] = key[pos];
                }
                let h = stable_hash(&("damaged-key", c, fields, schema, &t));
                rep.states.insert(h);
                rep.nontrivial.insert(h);
            }
        }
        other => panic!("unknown sweep {other}"),
    }
}

fn child_main(args: &Args) {
    let sweep = args.get("child").unwrap().to_string();
    let thorough = args.tier_thorough();
    let parts: Vec<usize> = args.get("parts").unwrap_or("").split(',').filter(|s| !s.is_empty()).map(|s| s.parse().unwrap()).collect();
    let dir = PathBuf::from(args.get("progress-dir").expect("--progress-dir"));
    let fine = args.flag("fine");
    let hcx = HostileCtx::new();
    let mk = || Report::new("enum_tuple", "C16");
    let rep = vcore::parallel(parts, args.threads(), mk, |part, rep| {
        let w = WORKER.with(|w| *w);
        let path = child::progress_path(&dir, if fine { 0 } else { w });
        child::write_ahead(&path, &part.to_string());
        let f = Fine { path: if fine { Some(&path) } else { None }, part: *part };
        run_partition(&hcx, &sweep, *part, thorough, &f, rep);
        flush_tally(rep);
    });
    let mut v = child::report_to_json(&rep);
    v["best"] = Value::Array(
        BEST.lock().unwrap().iter().map(|(k, (m, viol))| json!({"sig": k, "metric": m, "detail": viol.detail, "case": viol.case})).collect(),
    );
    std::fs::write(args.get("partial").expect("--partial"), v.to_string()).expect("cannot write partial");
}

/////////////////////////////////////////////// main ///////////////////////////////////////////////

fn main() {
    let args = Args::parse();
    vcore::quiet_panics();
    if args.flag("child") {
        child_main(&args);
        return;
    }
    if let Err(e) = self_test() {
        eprintln!("machinery error: {e}");
        std::process::exit(2);
    }
    if args.flag("replay") {
        replay(&args);
        return;
    }
    let thorough = args.tier_thorough();
    let threads = args.threads();
    let seed = args.u64("seed", 0) as usize;
    let sections: Vec<String> = args
        .get("sections")
        .unwrap_or(if thorough { "typed,derive,bytes3,bytes4,damaged" } else { "typed,derive,bytes3,damaged" })
        .split(',')
        .map(|s| s.to_string())
        .collect();
    let on = |s: &str| sections.iter().any(|x| x == s);
    let hcx = HostileCtx::new();
    let mk = || Report::new("enum_tuple", "C16");
    let mut total = mk();
    let mut bound = json!({});

    if on("typed") {
        let mut items = typed_items(thorough);
        // biggest first balances the threads; seed rotates among equals only in effect
        let r = if items.is_empty() { 0 } else { seed % items.len() };
        items.rotate_left(r);
        items.sort_by_key(|i| std::cmp::Reverse(i.schema.len()));
        let mut per_len = BTreeMap::new();
        for i in items.iter() {
            *per_len.entry(format!("{}:len{}", i.c.name(), i.schema.len())).or_insert(0u64) += 1;
        }
        bound["typed_schema_runs"] = json!(per_len);
        let h = &hcx;
        let part = vcore::parallel(items, threads, mk, |it, rep| run_typed(h, it, rep));
        total.merge(part);
    }
    if on("derive") {
        let level = if thorough { 2 } else { 1 };
        let h = &hcx;
        let part = vcore::parallel(vec![0, 1, 2, 3, 4], threads.min(5), mk, |i, rep| match i {
            0 => run_derive::<DFwd>(h, level, rep),
            1 => run_derive::<DRev>(h, level, rep),
            2 => run_derive::<DUnit>(h, level.max(3), rep),
            3 => run_derive::<DRevUnit>(h, level.max(3), rep),
            _ => run_derive::<DRevFirst>(h, level, rep),
        });
        total.merge(part);
        bound["derive_structs"] = json!(DERIVED_NAMES);
    }
    let scratch = Scratch::new("enum_tuple");
    for sweep in ["bytes3", "bytes4", "damaged"] {
        if !on(sweep) {
            continue;
        }
        let parts = sweep_partitions(sweep, thorough);
        let extra = vec!["--tier".to_string(), if thorough { "thorough" } else { "quick" }.to_string()];
        match child::run_sweep(sweep, parts, threads, &extra, &scratch.path) {
            Err(e) => {
                eprintln!("machinery error: {e}");
                std::process::exit(2);
            }
            Ok(out) => {
                total.count("child_processes", out.children);
                for p in out.partials.iter() {
                    child::merge_json_into(&mut total, p);
                    if let Some(a) = p["best"].as_array() {
                        let mut g = BEST.lock().unwrap();
                        for b in a {
                            let sig = b["sig"].as_str().unwrap_or("").to_string();
                            let m = b["metric"].as_u64().unwrap_or(u64::MAX);
                            let v = Violation { property: "C16".into(), signature: sig.clone(), detail: b["detail"].as_str().unwrap_or("").to_string(), case: b["case"].clone() };
                            let e = g.entry(sig).or_insert((u64::MAX, v.clone()));
                            if m < e.0 {
                                *e = (m, v);
                            }
                        }
                    }
                }
                for (part, last, how) in out.aborts {
                    let case: Value = last.split_once(' ').and_then(|(_, j)| serde_json::from_str(j).ok()).unwrap_or(json!({"kind": "unknown", "partition": part}));
                    total.violation(Violation {
                        property: "C16".into(),
                        signature: format!("c16:parser-abort:{sweep}-sweep:{}", norm(&how)),
                        detail: format!("the child process running partition {part} of the {sweep} sweep died ({how}); the case written ahead was {last}"),
                        case,
                    });
                }
            }
        }
    }
    // the simplest case of every signature first
    let best = BEST.lock().unwrap();
    for (sig, (_, v)) in best.iter() {
        total.violations.retain(|x| !(x.signature == *sig && x.case == v.case));
        let others: Vec<Violation> = total.violations.iter().filter(|x| x.signature == *sig).take(1).cloned().collect();
        total.violations.retain(|x| x.signature != *sig);
        total.violations.push(v.clone());
        total.violations.extend(others);
    }
    drop(best);
    total.violations.retain(|v| !v.case.is_null());

    bound["element_types"] = json!({
        "tuple_key": Crate::V1.elems().iter().map(elem_name).collect::<Vec<_>>(),
        "tuple_key2": Crate::V2.elems().iter().map(elem_name).collect::<Vec<_>>(),
    });
    bound["tuple_length"] = json!(3);
    bound["domain_level_by_length"] = if thorough { json!({"1": "full", "2": "large", "3": "small+"}) } else { json!({"1": "full", "2": "medium", "3": "small"}) };
    bound["domain_sizes"] = json!({
        "u64": (0..5).map(|l| uvals(64, l).len()).collect::<Vec<_>>(),
        "i64": (0..5).map(|l| ivals(64, l).len()).collect::<Vec<_>>(),
        "u32": (0..5).map(|l| uvals(32, l).len()).collect::<Vec<_>>(),
        "i32": (0..5).map(|l| ivals(32, l).len()).collect::<Vec<_>>(),
        "string": (0..5).map(|l| strvals(l).len()).collect::<Vec<_>>(),
        "bytes": (0..5).map(|l| bytevals(l).len()).collect::<Vec<_>>(),
        "levels": ["small", "small+", "medium", "large", "full"],
    });
    bound["field_number_profiles_tuple_key"] = json!([[1, 2, 3], [15, 16, LAST_FIELD]]);
    bound["hostile"] = json!({"all_byte_strings_up_to": 3, "length4_alphabet": if on("bytes4") { alphabet4().len() } else { 0 }, "damaged_key_schema_runs": if on("damaged") { damaged_items(thorough).len() } else { 0 }});
    bound["sections"] = json!(sections);
    total.bound = bound;
    total.rule = "typed: for both crates every schema of 1..3 elements over the crate's element types (tuple_key: unit,u32,u64,i32,i64,string x ascending/descending, two field-number profiles; tuple_key2: unit,u8..u64,i8..i64,string,bytes ascending) and every tuple of the cartesian product of per-element boundary domains (level by schema length, see bound): decode(encode(t)) = t; for every unordered pair of tuples the byte order of the encodings equals the element-wise order of the tuples (native Ord per element, reversed for descending elements); for schemas of <= 2 elements and every extension by one element of any type: enc(t) < enc(t+y) < enc(u) for every u > t. derive: the same through five #[derive(TypedTupleKey)] structs (one with #[reverse] written before #[tuple_key(N)]), plus equality with the direct API. bytes3/bytes4/damaged (child processes): every byte string of length <= 3 (and length 4 over a structural alphabet in the thorough tier) is given to the iterator, every typed parser sequence of <= 3 elements, every value parser behind a valid tag, the element decoders and the schema walker of tuple_key and to every typed parser sequence and the boundary scanner of tuple_key2; every truncation and every 1-byte mutation (all 255 other values; for the three-element keys of the thorough tier the structural alphabet plus the original byte with bit 0, bit 7 or all bits flipped) of every valid key is parsed with the key's own schema; Ok and Err are both fine, a panic or a dead child is a violation. distinct (states) = distinct (schema, tuple) inputs, distinct hostile strings of length <= 2 or accepted by a typed parser, distinct damaged keys; non-trivial = tuples that took part in a comparison decided after the first element or by a prefix relation, hostile strings accepted by a typed parser; outcomes = distinct (program, result class) observations and finding signatures.".into();
    total.assumptions = vec![
        "both tuples of a pair use the same field numbers (tuple_key) -- the property compares tuples of one type sequence".into(),
        "element values outside the boundary domains are not covered".into(),
    ];
    if total.outcomes.len() <= 1 && total.evaluations > 1 {
        eprintln!("machinery error: one distinct outcome from {} evaluations (vacuous harness)", total.evaluations);
        total.finish(&args, "enum_tuple");
        std::process::exit(2);
    }
    total.finish(&args, "enum_tuple");
}

fn replay(args: &Args) {
    // the case may abort the process: run it in a child of our own
    if !args.flag("inner") {
        let exe = std::env::current_exe().expect("current_exe");
        let st = std::process::Command::new(exe).arg("--replay").arg(args.get("replay").unwrap()).arg("--inner").status().expect("cannot spawn");
        match st.code() {
            Some(c) => std::process::exit(c),
            None => {
                println!("observed: the process running the case died ({st}) -- ABORT REPRODUCED");
                std::process::exit(1);
            }
        }
    }
    let rf = args.replay_case().unwrap();
    let case = &rf["case"];
    let want = rf["signature"].as_str().unwrap_or("");
    println!("replaying C16 case {case}");
    println!("expected: no finding (order of encodings = order of tuples, round trip, contiguity, parsers return Ok or Err)");
    let hcx = HostileCtx::new();
    let findings = run_any_case(&hcx, case);
    for f in findings.iter() {
        println!("observed finding {}: {}", f.sig, f.detail);
    }
    if findings.is_empty() {
        println!("observed: no finding; the property holds on this case");
        std::process::exit(0);
    }
    if findings.iter().any(|f| f.sig == want) {
        println!("REPRODUCED {want}");
    }
    std::process::exit(1);
}
