//! Tuple-key subject adaptors, boundary domains and the reference order for enum_tuple (C16).
//!
//! The reference is deliberately boring: a tuple is a `Vec<Val>`, two tuples of one schema are
//! compared element by element with the native `Ord` of the payload type (`std::cmp::Reverse` for a
//! descending element), which is what `#[derive(Ord)]` does on a native tuple (self-checked against
//! native tuples in `self_test`).

use std::cmp::{Ordering, Reverse};

use prototk::FieldNumber;
use tuple_key as tk1;
use tuple_key2 as tk2;
use vcore::{Value, json};

#[derive(Clone, Copy, PartialEq, Eq, Hash, Debug, PartialOrd, Ord)]
pub enum Kind {
    Unit,
    U8,
    U16,
    U32,
    U64,
    I8,
    I16,
    I32,
    I64,
    Str,
    Bytes,
}

#[derive(Clone, PartialEq, Eq, Hash, Debug)]
pub enum Val {
    Unit,
    U8(u8),
    U16(u16),
    U32(u32),
    U64(u64),
    I8(i8),
    I16(i16),
    I32(i32),
    I64(i64),
    Str(String),
    Bytes(Vec<u8>),
}

#[derive(Clone, Copy, PartialEq, Eq, Hash, Debug, PartialOrd, Ord)]
pub enum Dir {
    Asc,
    Desc,
}

#[derive(Clone, Copy, PartialEq, Eq, Hash, Debug, PartialOrd, Ord)]
pub enum Crate {
    V1,
    V2,
}

pub type Elem = (Kind, Dir);

impl Kind {
    pub fn name(self) -> &'static str {
        match self {
            Kind::Unit => "unit",
            Kind::U8 => "u8",
            Kind::U16 => "u16",
            Kind::U32 => "u32",
            Kind::U64 => "u64",
            Kind::I8 => "i8",
            Kind::I16 => "i16",
            Kind::I32 => "i32",
            Kind::I64 => "i64",
            Kind::Str => "string",
            Kind::Bytes => "bytes",
        }
    }
    pub fn from_name(s: &str) -> Option<Kind> {
        ALL_KINDS.iter().copied().find(|k| k.name() == s)
    }
    pub fn is_int(self) -> bool {
        !matches!(self, Kind::Unit | Kind::Str | Kind::Bytes)
    }
}

pub const ALL_KINDS: [Kind; 11] = [
    Kind::Unit,
    Kind::U8,
    Kind::U16,
    Kind::U32,
    Kind::U64,
    Kind::I8,
    Kind::I16,
    Kind::I32,
    Kind::I64,
    Kind::Str,
    Kind::Bytes,
];

impl Dir {
    pub fn name(self) -> &'static str {
        if self == Dir::Asc { "asc" } else { "desc" }
    }
}

impl Crate {
    pub fn name(self) -> &'static str {
        if self == Crate::V1 { "tuple_key" } else { "tuple_key2" }
    }
    /// element types the crate offers
    pub fn elems(self) -> Vec<Elem> {
        match self {
            Crate::V1 => {
                let mut v = vec![];
                for d in [Dir::Asc, Dir::Desc] {
                    for k in [Kind::Unit, Kind::U32, Kind::U64, Kind::I32, Kind::I64, Kind::Str] {
                        v.push((k, d));
                    }
                }
                v
            }
            Crate::V2 => ALL_KINDS.iter().map(|k| (*k, Dir::Asc)).collect(),
        }
    }
}

pub fn elem_name(e: &Elem) -> String {
    format!("{}/{}", e.0.name(), e.1.name())
}

//////////////////////////////////////////////// JSON //////////////////////////////////////////////

pub fn val_json(v: &Val) -> Value {
    match v {
        Val::Unit => Value::Null,
        Val::U8(x) => json!(x),
        Val::U16(x) => json!(x),
        Val::U32(x) => json!(x),
        Val::U64(x) => json!(x),
        Val::I8(x) => json!(x),
        Val::I16(x) => json!(x),
        Val::I32(x) => json!(x),
        Val::I64(x) => json!(x),
        Val::Str(s) => json!(s),
        Val::Bytes(b) => json!({"hex": crate::hex(b)}),
    }
}

pub fn val_from_json(k: Kind, v: &Value) -> Option<Val> {
    Some(match k {
        Kind::Unit => Val::Unit,
        Kind::U8 => Val::U8(v.as_u64()? as u8),
        Kind::U16 => Val::U16(v.as_u64()? as u16),
        Kind::U32 => Val::U32(v.as_u64()? as u32),
        Kind::U64 => Val::U64(v.as_u64()?),
        Kind::I8 => Val::I8(v.as_i64()? as i8),
        Kind::I16 => Val::I16(v.as_i64()? as i16),
        Kind::I32 => Val::I32(v.as_i64()? as i32),
        Kind::I64 => Val::I64(v.as_i64()?),
        Kind::Str => Val::Str(v.as_str()?.to_string()),
        Kind::Bytes => Val::Bytes(crate::unhex(v["hex"].as_str()?)?),
    })
}

pub fn tuple_json(t: &[Val]) -> Value {
    Value::Array(t.iter().map(val_json).collect())
}

pub fn tuple_from_json(schema: &[Elem], v: &Value) -> Option<Vec<Val>> {
    let a = v.as_array()?;
    if a.len() != schema.len() {
        return None;
    }
    schema.iter().zip(a.iter()).map(|(e, x)| val_from_json(e.0, x)).collect()
}

pub fn schema_json(s: &[Elem]) -> Value {
    Value::Array(s.iter().map(|e| json!([e.0.name(), e.1.name()])).collect())
}

pub fn schema_from_json(v: &Value) -> Option<Vec<Elem>> {
    v.as_array()?
        .iter()
        .map(|e| {
            let k = Kind::from_name(e[0].as_str()?)?;
            let d = if e[1].as_str()? == "desc" { Dir::Desc } else { Dir::Asc };
            Some((k, d))
        })
        .collect()
}

////////////////////////////////////////////// domains /////////////////////////////////////////////

/// Boundary magnitudes of an unsigned type of `w` bits.  Levels: 0 small, 1 small+, 2 medium
/// (byte-length boundaries of the varints), 3 large (plus the 7-bit chunk boundaries of the
/// field-numbered format), 4 full (2^k-1, 2^k, 2^k+1 for every k).
pub fn uvals(w: u32, level: u8) -> Vec<u64> {
    let max = if w == 64 { u64::MAX } else { (1u64 << w) - 1 };
    let mut v: Vec<u64> = vec![0, 1, max];
    let pow = |k: u32| 1u64 << k;
    match level {
        0 => v.extend([256]),
        1 => v.extend([255, 256, 65535, 65536, pow(32)]),
        2 => {
            for k in [7u32, 8, 16, 32, 56] {
                if k < w {
                    v.extend([pow(k) - 1, pow(k)]);
                }
            }
        }
        3 => {
            for k in [4u32, 7, 8, 11, 15, 16, 18, 24, 25, 31, 32, 40, 48, 56, 57, 63] {
                if k < w {
                    v.extend([pow(k) - 1, pow(k)]);
                }
            }
            v.push(max - 1);
        }
        _ => {
            for k in 0..w {
                v.extend([pow(k) - 1, pow(k), pow(k).wrapping_add(1)]);
            }
            v.push(max - 1);
        }
    }
    v.retain(|x| *x <= max);
    v.sort();
    v.dedup();
    v
}

/// Signed boundary values: every unsigned magnitude m below the sign bit as m, -m and -m-1 (the
/// negative side changes encoded length one further down), plus type min/max, 0 and -1.
pub fn ivals(w: u32, level: u8) -> Vec<i64> {
    let max: i64 = if w == 64 { i64::MAX } else { (1i64 << (w - 1)) - 1 };
    let min: i64 = -max - 1;
    let mags: Vec<u64> = match level {
        0 => vec![0, 256],
        _ => uvals(w - 1, level),
    };
    let mut v: Vec<i64> = vec![min, max, 0, -1];
    if level >= 2 {
        v.extend([min + 1, max - 1]);
    }
    if level == 0 && w == 8 {
        v.push(1);
    }
    for m in mags {
        if m <= max as u64 {
            let m = m as i64;
            v.extend([m, -m, -m - 1]);
        }
    }
    v.retain(|x| *x >= min && *x <= max);
    v.sort();
    v.dedup();
    v
}

pub fn strvals(level: u8) -> Vec<String> {
    let l0 = ["", "\0", "a", "a\0", "\u{10ffff}"];
    let l1 = ["\0\0", "ab"];
    let l2 = ["\0\u{ff}", "a\u{1}", "\u{ff}"];
    let l3 = [
        "\0\u{1}",
        "\0a",
        "\u{1}",
        "\u{1}\0",
        "a\0\0",
        "a\0b",
        "aaaaaa",
        "aaaaaaa",
        "aaaaaaa\0",
        "aaaaaaaa",
        "b",
        "\u{7f}",
        "\u{80}",
        "\u{ff}\0",
        "\u{100}",
        "\u{7ff}",
        "\u{800}",
        "\u{ffff}",
        "\u{10000}",
        "\u{10ffff}\0",
    ];
    let mut v: Vec<String> = l0.iter().map(|s| s.to_string()).collect();
    if level >= 1 {
        v.extend(l1.iter().map(|s| s.to_string()));
    }
    if level >= 2 {
        v.extend(l2.iter().map(|s| s.to_string()));
    }
    if level >= 3 {
        v.extend(l3.iter().map(|s| s.to_string()));
    }
    v.sort();
    v.dedup();
    v
}

pub fn bytevals(level: u8) -> Vec<Vec<u8>> {
    let l0: [&[u8]; 5] = [b"", &[0], b"a", b"a\0", &[0xff]];
    let l1: [&[u8]; 2] = [&[0, 0], b"ab"];
    let l2: [&[u8]; 3] = [&[0, 0xff], &[0xff, 0], &[0x2b]];
    let l3: [&[u8]; 14] = [
        &[0, 1],
        &[0, 0xff, 0],
        &[1],
        &[1, 0],
        b"a\0\0",
        b"a\0\xff",
        b"a\x01",
        b"b",
        &[0xfe],
        &[0xff, 0xff],
        &[0x10],
        &[0x22],
        &[0x00, 0x2b],
        &[0x80],
    ];
    let mut v: Vec<Vec<u8>> = l0.iter().map(|s| s.to_vec()).collect();
    if level >= 1 {
        v.extend(l1.iter().map(|s| s.to_vec()));
    }
    if level >= 2 {
        v.extend(l2.iter().map(|s| s.to_vec()));
    }
    if level >= 3 {
        v.extend(l3.iter().map(|s| s.to_vec()));
    }
    v.sort();
    v.dedup();
    v
}

pub fn domain(k: Kind, level: u8) -> Vec<Val> {
    match k {
        Kind::Unit => vec![Val::Unit],
        Kind::U8 => uvals(8, level).into_iter().map(|x| Val::U8(x as u8)).collect(),
        Kind::U16 => uvals(16, level).into_iter().map(|x| Val::U16(x as u16)).collect(),
        Kind::U32 => uvals(32, level).into_iter().map(|x| Val::U32(x as u32)).collect(),
        Kind::U64 => uvals(64, level).into_iter().map(Val::U64).collect(),
        Kind::I8 => ivals(8, level).into_iter().map(|x| Val::I8(x as i8)).collect(),
        Kind::I16 => ivals(16, level).into_iter().map(|x| Val::I16(x as i16)).collect(),
        Kind::I32 => ivals(32, level).into_iter().map(|x| Val::I32(x as i32)).collect(),
        Kind::I64 => ivals(64, level).into_iter().map(Val::I64).collect(),
        Kind::Str => strvals(level).into_iter().map(Val::Str).collect(),
        Kind::Bytes => bytevals(level).into_iter().map(Val::Bytes).collect(),
    }
}

/// cartesian product of the element domains, first element slowest
pub fn tuples(schema: &[Elem], level: u8) -> Vec<Vec<Val>> {
    let mut out: Vec<Vec<Val>> = vec![vec![]];
    for e in schema {
        let d = domain(e.0, level);
        let mut next = Vec::with_capacity(out.len() * d.len());
        for t in out.iter() {
            for v in d.iter() {
                let mut t2 = t.clone();
                t2.push(v.clone());
                next.push(t2);
            }
        }
        out = next;
    }
    out
}

/// every schema of exactly `len` elements over the crate's element types
pub fn schemas(c: Crate, len: usize) -> Vec<Vec<Elem>> {
    let es = c.elems();
    let mut out: Vec<Vec<Elem>> = vec![vec![]];
    for _ in 0..len {
        let mut next = vec![];
        for s in out.iter() {
            for e in es.iter() {
                let mut s2 = s.clone();
                s2.push(*e);
                next.push(s2);
            }
        }
        out = next;
    }
    out
}

///////////////////////////////////////////// reference ////////////////////////////////////////////

fn native_cmp(a: &Val, b: &Val) -> Ordering {
    match (a, b) {
        (Val::Unit, Val::Unit) => ().cmp(&()),
        (Val::U8(x), Val::U8(y)) => x.cmp(y),
        (Val::U16(x), Val::U16(y)) => x.cmp(y),
        (Val::U32(x), Val::U32(y)) => x.cmp(y),
        (Val::U64(x), Val::U64(y)) => x.cmp(y),
        (Val::I8(x), Val::I8(y)) => x.cmp(y),
        (Val::I16(x), Val::I16(y)) => x.cmp(y),
        (Val::I32(x), Val::I32(y)) => x.cmp(y),
        (Val::I64(x), Val::I64(y)) => x.cmp(y),
        (Val::Str(x), Val::Str(y)) => x.cmp(y),
        (Val::Bytes(x), Val::Bytes(y)) => x.cmp(y),
        _ => panic!("machinery: elements of different kinds compared"),
    }
}

pub fn elem_cmp(a: &Val, b: &Val, d: Dir) -> Ordering {
    match d {
        Dir::Asc => native_cmp(a, b),
        Dir::Desc => {
            // Reverse<T>::cmp(a, b) is T::cmp(b, a); spelled with the std type on purpose
            struct W<'a>(&'a Val);
            impl PartialEq for W<'_> {
                fn eq(&self, o: &Self) -> bool {
                    native_cmp(self.0, o.0) == Ordering::Equal
                }
            }
            impl Eq for W<'_> {}
            impl PartialOrd for W<'_> {
                fn partial_cmp(&self, o: &Self) -> Option<Ordering> {
                    Some(self.cmp(o))
                }
            }
            impl Ord for W<'_> {
                fn cmp(&self, o: &Self) -> Ordering {
                    native_cmp(self.0, o.0)
                }
            }
            Reverse(W(a)).cmp(&Reverse(W(b)))
        }
    }
}

/// lexicographic, element by element; the index that decided (None when equal)
pub fn ref_cmp(schema: &[Elem], a: &[Val], b: &[Val]) -> (Ordering, Option<usize>) {
    for i in 0..schema.len() {
        let c = elem_cmp(&a[i], &b[i], schema[i].1);
        if c != Ordering::Equal {
            return (c, Some(i));
        }
    }
    (Ordering::Equal, None)
}

/// The comparator above against `Ord` of native tuples on two fixed shapes.
pub fn self_test() -> Result<(), String> {
    let schema = [(Kind::I64, Dir::Asc), (Kind::Str, Dir::Desc), (Kind::U32, Dir::Asc)];
    let ts = tuples(&schema, 0);
    for a in ts.iter() {
        for b in ts.iter() {
            let na = match (&a[0], &a[1], &a[2]) {
                (Val::I64(x), Val::Str(y), Val::U32(z)) => (*x, Reverse(y.clone()), *z),
                _ => unreachable!(),
            };
            let nb = match (&b[0], &b[1], &b[2]) {
                (Val::I64(x), Val::Str(y), Val::U32(z)) => (*x, Reverse(y.clone()), *z),
                _ => unreachable!(),
            };
            if na.cmp(&nb) != ref_cmp(&schema, a, b).0 {
                return Err(format!("reference comparator disagrees with native tuple Ord on {a:?} vs {b:?}"));
            }
        }
    }
    let schema = [(Kind::Bytes, Dir::Asc), (Kind::I8, Dir::Desc)];
    let ts = tuples(&schema, 2);
    for a in ts.iter() {
        for b in ts.iter() {
            let f = |t: &Vec<Val>| match (&t[0], &t[1]) {
                (Val::Bytes(x), Val::I8(y)) => (x.clone(), Reverse(*y)),
                _ => unreachable!(),
            };
            if f(a).cmp(&f(b)) != ref_cmp(&schema, a, b).0 {
                return Err(format!("reference comparator disagrees with native tuple Ord on {a:?} vs {b:?}"));
            }
        }
    }
    Ok(())
}

////////////////////////////////////////// subject adaptors ////////////////////////////////////////

pub fn d1(d: Dir) -> tk1::Direction {
    if d == Dir::Asc { tk1::Direction::Forward } else { tk1::Direction::Reverse }
}

/// tuple_key: one field number per position
pub fn v1_encode(fields: &[u32], schema: &[Elem], vals: &[Val]) -> Vec<u8> {
    let mut tk = tk1::TupleKey::default();
    for ((e, f), v) in schema.iter().zip(fields.iter()).zip(vals.iter()) {
        let f = FieldNumber::must(*f);
        let d = d1(e.1);
        match v {
            Val::Unit => {
                if e.1 == Dir::Asc {
                    tk.extend(f)
                } else {
                    tk.extend_with_key(f, (), d)
                }
            }
            Val::U32(x) => tk.extend_with_key(f, *x, d),
            Val::U64(x) => tk.extend_with_key(f, *x, d),
            Val::I32(x) => tk.extend_with_key(f, *x, d),
            Val::I64(x) => tk.extend_with_key(f, *x, d),
            Val::Str(x) => tk.extend_with_key(f, x.clone(), d),
            other => panic!("machinery: tuple_key has no element type for {other:?}"),
        }
    }
    tk.as_bytes().to_vec()
}

/// Err = (index of the element that failed, or schema length for trailing data; message)
pub fn v1_decode(fields: &[u32], schema: &[Elem], bytes: &[u8]) -> Result<Vec<Val>, (usize, String)> {
    let tk = tk1::TupleKey::from(bytes);
    let mut p = tk1::TupleKeyParser::new(&tk);
    let mut out = vec![];
    for (i, (e, f)) in schema.iter().zip(fields.iter()).enumerate() {
        let f = FieldNumber::must(*f);
        let d = d1(e.1);
        let v = match e.0 {
            Kind::Unit => p.parse_next(f, d).map(|_| Val::Unit),
            Kind::U32 => p.parse_next_with_key::<u32>(f, d).map(Val::U32),
            Kind::U64 => p.parse_next_with_key::<u64>(f, d).map(Val::U64),
            Kind::I32 => p.parse_next_with_key::<i32>(f, d).map(Val::I32),
            Kind::I64 => p.parse_next_with_key::<i64>(f, d).map(Val::I64),
            Kind::Str => p.parse_next_with_key::<String>(f, d).map(Val::Str),
            other => panic!("machinery: tuple_key has no element type {other:?}"),
        };
        out.push(v.map_err(|e| (i, e.to_string()))?);
    }
    match p.peek_next() {
        Ok(None) => Ok(out),
        Ok(Some(_)) => Err((schema.len(), "trailing elements".into())),
        Err(e) => Err((schema.len(), format!("trailing bytes: {e}"))),
    }
}

pub fn v2_encode(schema: &[Elem], vals: &[Val]) -> Vec<u8> {
    let mut b = tk2::TupleKey::builder();
    for (e, v) in schema.iter().zip(vals.iter()) {
        assert!(e.1 == Dir::Asc, "machinery: tuple_key2 has no descending marker");
        b = match v {
            Val::Unit => b.unit(),
            Val::U8(x) => b.u8(*x),
            Val::U16(x) => b.u16(*x),
            Val::U32(x) => b.u32(*x),
            Val::U64(x) => b.u64(*x),
            Val::I8(x) => b.i8(*x),
            Val::I16(x) => b.i16(*x),
            Val::I32(x) => b.i32(*x),
            Val::I64(x) => b.i64(*x),
            Val::Str(x) => b.string(x),
            Val::Bytes(x) => b.bytes(x),
        };
    }
    b.build().into_bytes()
}

pub fn v2_parse_one(p: &mut tk2::TupleKeyParser<'_>, k: Kind) -> Result<Val, tk2::Error> {
    Ok(match k {
        Kind::Unit => {
            p.unit()?;
            Val::Unit
        }
        Kind::U8 => Val::U8(p.u8()?),
        Kind::U16 => Val::U16(p.u16()?),
        Kind::U32 => Val::U32(p.u32()?),
        Kind::U64 => Val::U64(p.u64()?),
        Kind::I8 => Val::I8(p.i8()?),
        Kind::I16 => Val::I16(p.i16()?),
        Kind::I32 => Val::I32(p.i32()?),
        Kind::I64 => Val::I64(p.i64()?),
        Kind::Str => Val::Str(p.string()?),
        Kind::Bytes => Val::Bytes(p.bytes()?),
    })
}

pub fn v2_decode(schema: &[Elem], bytes: &[u8]) -> Result<Vec<Val>, (usize, String)> {
    let key = tk2::TupleKey::from_bytes(bytes.to_vec());
    let mut p = key.parser();
    let mut out = vec![];
    for (i, e) in schema.iter().enumerate() {
        out.push(v2_parse_one(&mut p, e.0).map_err(|e| (i, format!("{e:?}")))?);
    }
    p.finish().map_err(|e| (schema.len(), format!("{e:?}")))?;
    Ok(out)
}

pub fn encode(c: Crate, fields: &[u32], schema: &[Elem], vals: &[Val]) -> Vec<u8> {
    match c {
        Crate::V1 => v1_encode(fields, schema, vals),
        Crate::V2 => v2_encode(schema, vals),
    }
}

pub fn decode(c: Crate, fields: &[u32], schema: &[Elem], bytes: &[u8]) -> Result<Vec<Val>, (usize, String)> {
    match c {
        Crate::V1 => v1_decode(fields, schema, bytes),
        Crate::V2 => v2_decode(schema, bytes),
    }
}

/// structural relation of two differing elements (for signatures)
pub fn relation(a: &Val, b: &Val) -> &'static str {
    fn pre(x: &[u8], y: &[u8]) -> &'static str {
        if x.starts_with(y) || y.starts_with(x) { "one-is-prefix-of-other" } else { "diverge" }
    }
    fn sign(x: i64, y: i64) -> &'static str {
        match (x < 0, y < 0) {
            (true, true) => "both-negative",
            (false, false) => "both-nonnegative",
            _ => "signs-differ",
        }
    }
    match (a, b) {
        (Val::Str(x), Val::Str(y)) => pre(x.as_bytes(), y.as_bytes()),
        (Val::Bytes(x), Val::Bytes(y)) => pre(x, y),
        (Val::I8(x), Val::I8(y)) => sign(*x as i64, *y as i64),
        (Val::I16(x), Val::I16(y)) => sign(*x as i64, *y as i64),
        (Val::I32(x), Val::I32(y)) => sign(*x as i64, *y as i64),
        (Val::I64(x), Val::I64(y)) => sign(*x, *y),
        (Val::Unit, Val::Unit) => "unit",
        _ => "unsigned",
    }
}
