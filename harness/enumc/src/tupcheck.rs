//! The typed checks of enum_tuple (C16): order, round trip, prefix-extension contiguity, and the
//! derive macro.  Every check has a direct form (used by the explorer on precomputed encodings)
//! and is reachable from a recorded JSON case (`run_case`, used by replay-before-report and by
//! `--replay`).

use std::cmp::Ordering;

use vcore::{Value, json};

use crate::tup::*;

#[derive(Clone, Debug)]
pub struct Finding {
    pub sig: String,
    pub detail: String,
}

pub fn norm(msg: &str) -> String {
    let m: String = msg
        .chars()
        .map(|c| if c.is_ascii_alphabetic() { c.to_ascii_lowercase() } else { '-' })
        .collect();
    let mut out = String::new();
    for part in m.split('-').filter(|s| !s.is_empty()).take(7) {
        if !out.is_empty() {
            out.push('-');
        }
        out += part;
    }
    out
}

pub fn esc(b: &[u8]) -> String {
    crate::hex(b)
}

fn schema_name(s: &[Elem]) -> String {
    s.iter().map(elem_name).collect::<Vec<_>>().join(",")
}

/// encode under catch; a panic while encoding a well-formed tuple is a violation of its own
pub fn try_encode(c: Crate, fields: &[u32], schema: &[Elem], t: &[Val]) -> Result<Vec<u8>, Finding> {
    vcore::catch(|| encode(c, fields, schema, t)).map_err(|m| Finding {
        sig: format!("c16:{}:encode-panic:{}", c.name(), norm(&m)),
        detail: format!("{}: encoding {:?} as ({}) panicked: {m}", c.name(), t, schema_name(schema)),
    })
}

pub fn check_roundtrip(c: Crate, fields: &[u32], schema: &[Elem], t: &[Val], enc: &[u8]) -> Option<Finding> {
    match vcore::catch(|| decode(c, fields, schema, enc)) {
        Err(m) => Some(Finding {
            sig: format!("c16:{}:decode-panic:valid-key:{}", c.name(), norm(&m)),
            detail: format!("{}: decoding {} (encoding of {:?}) panicked: {m}", c.name(), esc(enc), t),
        }),
        Ok(Err((i, msg))) => {
            let culprit = if i < schema.len() { elem_name(&schema[i]) } else { "end-of-key".to_string() };
            Some(Finding {
                sig: format!("c16:{}:roundtrip:decode-error:{}:{}", c.name(), culprit, norm(&msg)),
                detail: format!(
                    "{}: decode(encode({:?})) with schema ({}) fails at element {i}: {msg}; encoding {}",
                    c.name(),
                    t,
                    schema_name(schema),
                    esc(enc)
                ),
            })
        }
        Ok(Ok(v)) => {
            if v == t {
                return None;
            }
            let i = (0..t.len()).find(|i| v[*i] != t[*i]).unwrap_or(0);
            Some(Finding {
                sig: format!("c16:{}:roundtrip:different-value:{}", c.name(), elem_name(&schema[i])),
                detail: format!(
                    "{}: decode(encode(t)) != t: t = {:?}, decoded {:?}, encoding {}",
                    c.name(),
                    t,
                    v,
                    esc(enc)
                ),
            })
        }
    }
}

/// Ord of encodings == Ord of tuples
pub fn check_order(cname: &str, schema: &[Elem], a: &[Val], b: &[Val], ea: &[u8], eb: &[u8]) -> Option<Finding> {
    let (want, idx) = ref_cmp(schema, a, b);
    let got = ea.cmp(eb);
    if want == got {
        return None;
    }
    let (what, rel) = match idx {
        None => ("equal-tuples".to_string(), "equal"),
        Some(i) => (elem_name(&schema[i]), relation(&a[i], &b[i])),
    };
    let observed = if got == Ordering::Equal { "encodings-equal" } else if idx.is_none() { "encodings-differ" } else { "encodings-reversed" };
    Some(Finding {
        sig: format!("c16:{cname}:order:{what}:{rel}:{observed}"),
        detail: format!(
            "{cname}: schema ({}): {:?} vs {:?}: tuples compare {:?} (decided by element {:?}), encodings {} vs {} compare {:?}",
            schema_name(schema),
            a,
            b,
            want,
            idx,
            esc(ea),
            esc(eb),
            got
        ),
    })
}

/// t extended by (ext, y) against t itself and against one u that sorts after t (if given)
#[allow(clippy::too_many_arguments)]
pub fn check_contiguity(
    c: Crate,
    schema: &[Elem],
    t: &[Val],
    et: &[u8],
    ext: Elem,
    y: &Val,
    eext: &[u8],
    u: Option<(&[Val], &[u8])>,
) -> Option<Finding> {
    if !(eext.len() > et.len() && eext.starts_with(et)) {
        return Some(Finding {
            sig: format!("c16:{}:contiguity:extension-does-not-extend-the-encoding:{}", c.name(), elem_name(&ext)),
            detail: format!("{}: encoding of {:?} is {}, of its extension by {:?} is {}", c.name(), t, esc(et), y, esc(eext)),
        });
    }
    if eext <= et {
        return Some(Finding {
            sig: format!("c16:{}:contiguity:extension-not-after-prefix:{}", c.name(), elem_name(&ext)),
            detail: format!("{}: {:?} -> {}, extended by {:?} -> {}", c.name(), t, esc(et), y, esc(eext)),
        });
    }
    if let Some((u, eu)) = u {
        let (o, idx) = ref_cmp(schema, t, u);
        if o == Ordering::Less && eext >= eu {
            let i = idx.unwrap_or(0);
            return Some(Finding {
                sig: format!(
                    "c16:{}:contiguity:extension-not-before-successor:{}:{}",
                    c.name(),
                    elem_name(&schema[i]),
                    relation(&t[i], &u[i])
                ),
                detail: format!(
                    "{}: schema ({}): t = {:?} sorts before u = {:?}, but t extended by {} {:?} encodes to {} which does not sort before u's encoding {}",
                    c.name(),
                    schema_name(schema),
                    t,
                    u,
                    elem_name(&ext),
                    y,
                    esc(eext),
                    esc(eu)
                ),
            });
        }
    }
    None
}

/////////////////////////////////////////// derive structs /////////////////////////////////////////

use tuple_key_derive::TypedTupleKey;

#[derive(Clone, Debug, PartialEq, Eq, PartialOrd, Ord, TypedTupleKey)]
pub struct DFwd {
    #[tuple_key(1)]
    a: u32,
    #[tuple_key(2)]
    b: String,
    #[tuple_key(3)]
    c: i64,
}

#[derive(Clone, Debug, PartialEq, Eq, TypedTupleKey)]
pub struct DRev {
    #[tuple_key(1)]
    #[reverse]
    a: u64,
    #[tuple_key(2)]
    #[reverse]
    b: String,
    #[tuple_key(3)]
    #[reverse]
    c: i32,
}

#[derive(Clone, Debug, PartialEq, Eq, PartialOrd, Ord, TypedTupleKey)]
pub struct DUnit {
    #[tuple_key(1)]
    u: (),
    #[tuple_key(2)]
    s: String,
}

#[derive(Clone, Debug, PartialEq, Eq, TypedTupleKey)]
pub struct DRevUnit {
    #[tuple_key(1)]
    #[reverse]
    u: (),
    #[tuple_key(2)]
    x: u32,
}

/// The attributes of a field in the other order (`#[reverse]` first): the derive must not care.
#[derive(Clone, Debug, PartialEq, Eq, TypedTupleKey)]
pub struct DRevFirst {
    #[reverse]
    #[tuple_key(1)]
    a: u32,
    #[tuple_key(2)]
    b: String,
    #[reverse]
    #[tuple_key(3)]
    c: i64,
}

pub trait Derived:
    Sized + Clone + PartialEq + std::fmt::Debug + Into<tuple_key::TupleKey> + TryFrom<tuple_key::TupleKey, Error = tuple_key::SError>
{
    const NAME: &'static str;
    fn schema() -> Vec<Elem>;
    fn from_vals(v: &[Val]) -> Self;
    /// Ord derived on the struct itself, where all fields ascend (the README's claim)
    fn native_cmp(_a: &Self, _b: &Self) -> Option<Ordering> {
        None
    }
}

impl Derived for DFwd {
    const NAME: &'static str = "DFwd";
    fn schema() -> Vec<Elem> {
        vec![(Kind::U32, Dir::Asc), (Kind::Str, Dir::Asc), (Kind::I64, Dir::Asc)]
    }
    fn from_vals(v: &[Val]) -> Self {
        match (&v[0], &v[1], &v[2]) {
            (Val::U32(a), Val::Str(b), Val::I64(c)) => DFwd { a: *a, b: b.clone(), c: *c },
            _ => panic!("machinery: DFwd"),
        }
    }
    fn native_cmp(a: &Self, b: &Self) -> Option<Ordering> {
        Some(a.cmp(b))
    }
}

impl Derived for DRev {
    const NAME: &'static str = "DRev";
    fn schema() -> Vec<Elem> {
        vec![(Kind::U64, Dir::Desc), (Kind::Str, Dir::Desc), (Kind::I32, Dir::Desc)]
    }
    fn from_vals(v: &[Val]) -> Self {
        match (&v[0], &v[1], &v[2]) {
            (Val::U64(a), Val::Str(b), Val::I32(c)) => DRev { a: *a, b: b.clone(), c: *c },
            _ => panic!("machinery: DRev"),
        }
    }
}

impl Derived for DUnit {
    const NAME: &'static str = "DUnit";
    fn schema() -> Vec<Elem> {
        vec![(Kind::Unit, Dir::Asc), (Kind::Str, Dir::Asc)]
    }
    fn from_vals(v: &[Val]) -> Self {
        match (&v[0], &v[1]) {
            (Val::Unit, Val::Str(s)) => DUnit { u: (), s: s.clone() },
            _ => panic!("machinery: DUnit"),
        }
    }
    fn native_cmp(a: &Self, b: &Self) -> Option<Ordering> {
        Some(a.cmp(b))
    }
}

impl Derived for DRevUnit {
    const NAME: &'static str = "DRevUnit";
    fn schema() -> Vec<Elem> {
        vec![(Kind::Unit, Dir::Desc), (Kind::U32, Dir::Asc)]
    }
    fn from_vals(v: &[Val]) -> Self {
        match (&v[0], &v[1]) {
            (Val::Unit, Val::U32(x)) => DRevUnit { u: (), x: *x },
            _ => panic!("machinery: DRevUnit"),
        }
    }
}

impl Derived for DRevFirst {
    const NAME: &'static str = "DRevFirst";
    fn schema() -> Vec<Elem> {
        vec![(Kind::U32, Dir::Desc), (Kind::Str, Dir::Asc), (Kind::I64, Dir::Desc)]
    }
    fn from_vals(v: &[Val]) -> Self {
        match (&v[0], &v[1], &v[2]) {
            (Val::U32(a), Val::Str(b), Val::I64(c)) => DRevFirst { a: *a, b: b.clone(), c: *c },
            _ => panic!("machinery: DRevFirst"),
        }
    }
}

pub const DERIVED_NAMES: [&str; 5] = ["DFwd", "DRev", "DUnit", "DRevUnit", "DRevFirst"];

pub fn derived_schema(name: &str) -> Vec<Elem> {
    match name {
        "DFwd" => DFwd::schema(),
        "DRev" => DRev::schema(),
        "DUnit" => DUnit::schema(),
        "DRevFirst" => DRevFirst::schema(),
        _ => DRevUnit::schema(),
    }
}

pub fn derived_encode<D: Derived>(t: &[Val]) -> Result<Vec<u8>, String> {
    vcore::catch(|| {
        let k: tuple_key::TupleKey = D::from_vals(t).into();
        k.as_bytes().to_vec()
    })
}

fn serror_cause(e: &str) -> String {
    // the s-expression carries (cause "...") from the parser
    match e.find("cause") {
        Some(i) => norm(&e[i + 5..(i + 60).min(e.len())]),
        None => norm(&e[..e.len().min(60)]),
    }
}

/// one value: the derived Into equals the direct API, and TryFrom gives the value back
pub fn check_derived_one<D: Derived>(t: &[Val]) -> (Vec<Finding>, Option<Vec<u8>>) {
    let schema = D::schema();
    let fields: Vec<u32> = (1..=schema.len() as u32).collect();
    let mut out = vec![];
    let enc = match derived_encode::<D>(t) {
        Ok(e) => e,
        Err(m) => {
            out.push(Finding {
                sig: format!("c16:tuple_key_derive:encode-panic:{}", norm(&m)),
                detail: format!("{}: Into<TupleKey> of {:?} panicked: {m}", D::NAME, t),
            });
            return (out, None);
        }
    };
    // not demanded by the property, but it explains a failing round trip: does the derived Into
    // write what extend/extend_with_key write for the declared directions?
    let mut differs = String::new();
    if let Ok(direct) = try_encode(Crate::V1, &fields, &schema, t) {
        if direct != enc {
            for n in 1..=schema.len() {
                let p = encode(Crate::V1, &fields[..n], &schema[..n], &t[..n]);
                if !enc.starts_with(&p) {
                    differs = format!(
                        "; the derived Into<TupleKey> differs from extend_with_key at field {n} ({}): derived {}, direct {}",
                        elem_name(&schema[n - 1]),
                        esc(&enc),
                        esc(&direct)
                    );
                    break;
                }
            }
        }
    }
    let e2 = enc.clone();
    match vcore::catch(move || D::try_from(tuple_key::TupleKey::from(&e2[..]))) {
        Err(m) => out.push(Finding {
            sig: format!("c16:tuple_key_derive:decode-panic:valid-key:{}", norm(&m)),
            detail: format!("{}: TryFrom<TupleKey> of {} panicked: {m}", D::NAME, esc(&enc)),
        }),
        Ok(Err(e)) => {
            let text = e.to_string();
            let mut culprit = "unknown-field".to_string();
            for (i, el) in schema.iter().enumerate() {
                if text.contains(&format!("field_number {}", i + 1)) {
                    culprit = elem_name(el);
                }
            }
            out.push(Finding {
                sig: format!("c16:tuple_key_derive:roundtrip:decode-error:{culprit}:{}", serror_cause(&text)),
                detail: format!("{}: TryFrom(Into({:?})) fails: {text}; encoding {}{differs}", D::NAME, t, esc(&enc)),
            })
        }
        Ok(Ok(v)) => {
            if v != D::from_vals(t) {
                out.push(Finding {
                    sig: "c16:tuple_key_derive:roundtrip:different-value".into(),
                    detail: format!("{}: TryFrom(Into({:?})) = {:?}", D::NAME, t, v),
                });
            }
        }
    }
    (out, Some(enc))
}

pub fn check_derived_pair<D: Derived>(a: &[Val], b: &[Val], ea: &[u8], eb: &[u8]) -> Vec<Finding> {
    let mut out = vec![];
    let schema = D::schema();
    if let Some(f) = check_order("tuple_key_derive", &schema, a, b, ea, eb) {
        out.push(f);
    }
    if let Some(o) = D::native_cmp(&D::from_vals(a), &D::from_vals(b)) {
        if o != ea.cmp(eb) && out.is_empty() {
            out.push(Finding {
                sig: "c16:tuple_key_derive:order:differs-from-derived-ord-of-the-struct".into(),
                detail: format!("{}: {:?} vs {:?}: #[derive(Ord)] says {:?}, encodings say {:?}", D::NAME, a, b, o, ea.cmp(eb)),
            });
        }
    }
    out
}

/////////////////////////////////////////////// cases //////////////////////////////////////////////

pub fn crate_from_json(v: &Value) -> Crate {
    if v.as_str() == Some("tuple_key2") { Crate::V2 } else { Crate::V1 }
}

pub fn fields_from_json(v: &Value) -> Vec<u32> {
    v.as_array().map(|a| a.iter().map(|x| x.as_u64().unwrap_or(1) as u32).collect()).unwrap_or_default()
}

pub fn case_typed(kind: &str, c: Crate, fields: &[u32], schema: &[Elem]) -> Value {
    json!({"kind": kind, "crate": c.name(), "fields": fields, "schema": schema_json(schema)})
}

/// Re-run one recorded typed case from scratch.
pub fn run_case(case: &Value) -> Vec<Finding> {
    let bad = |what: &str| vec![Finding { sig: format!("machinery:bad-case:{what}"), detail: case.to_string() }];
    let kind = case["kind"].as_str().unwrap_or("");
    if kind == "derive" {
        let name = case["struct"].as_str().unwrap_or("");
        let schema = derived_schema(name);
        let Some(a) = tuple_from_json(&schema, &case["a"]) else { return bad("a") };
        let b = tuple_from_json(&schema, &case["b"]);
        fn go<D: Derived>(a: &[Val], b: Option<&[Val]>) -> Vec<Finding> {
            let (mut f, ea) = check_derived_one::<D>(a);
            if let (Some(b), Some(ea)) = (b, ea) {
                let (_, eb) = check_derived_one::<D>(b);
                if let Some(eb) = eb {
                    f.extend(check_derived_pair::<D>(a, b, &ea, &eb));
                }
            }
            f
        }
        return match name {
            "DFwd" => go::<DFwd>(&a, b.as_deref()),
            "DRev" => go::<DRev>(&a, b.as_deref()),
            "DUnit" => go::<DUnit>(&a, b.as_deref()),
            "DRevUnit" => go::<DRevUnit>(&a, b.as_deref()),
            "DRevFirst" => go::<DRevFirst>(&a, b.as_deref()),
            _ => bad("struct"),
        };
    }
    let c = crate_from_json(&case["crate"]);
    let fields = fields_from_json(&case["fields"]);
    let Some(schema) = schema_from_json(&case["schema"]) else { return bad("schema") };
    match kind {
        "roundtrip" => {
            let Some(t) = tuple_from_json(&schema, &case["t"]) else { return bad("t") };
            match try_encode(c, &fields, &schema, &t) {
                Err(f) => vec![f],
                Ok(e) => check_roundtrip(c, &fields, &schema, &t, &e).into_iter().collect(),
            }
        }
        "order" => {
            let (Some(a), Some(b)) = (tuple_from_json(&schema, &case["a"]), tuple_from_json(&schema, &case["b"])) else {
                return bad("a/b");
            };
            match (try_encode(c, &fields, &schema, &a), try_encode(c, &fields, &schema, &b)) {
                (Ok(ea), Ok(eb)) => check_order(c.name(), &schema, &a, &b, &ea, &eb).into_iter().collect(),
                (Err(f), _) | (_, Err(f)) => vec![f],
            }
        }
        "contiguity" => {
            let Some(t) = tuple_from_json(&schema, &case["t"]) else { return bad("t") };
            let Some(exts) = schema_from_json(&json!([case["ext"].clone()])) else { return bad("ext") };
            let ext = exts[0];
            let Some(y) = val_from_json(ext.0, &case["y"]) else { return bad("y") };
            let u = tuple_from_json(&schema, &case["u"]);
            let mut s2 = schema.clone();
            s2.push(ext);
            let mut f2 = fields.clone();
            f2.push(case["ext_field"].as_u64().unwrap_or(9) as u32);
            let mut t2 = t.clone();
            t2.push(y.clone());
            let et = match try_encode(c, &fields, &schema, &t) {
                Ok(e) => e,
                Err(f) => return vec![f],
            };
            let ee = match try_encode(c, &f2, &s2, &t2) {
                Ok(e) => e,
                Err(f) => return vec![f],
            };
            let eu = match &u {
                Some(u) => match try_encode(c, &fields, &schema, u) {
                    Ok(e) => Some(e),
                    Err(f) => return vec![f],
                },
                None => None,
            };
            let uu = match (&u, &eu) {
                (Some(u), Some(eu)) => Some((&u[..], &eu[..])),
                _ => None,
            };
            check_contiguity(c, &schema, &t, &et, ext, &y, &ee, uu).into_iter().collect()
        }
        _ => bad("kind"),
    }
}
