//! Shared helpers for the enumc harness binaries (E4: bounded-exhaustive input spaces against
//! independent references).
//!
//! * `sha3`   -- an independent SHA3-256 (Keccak-f[1600], FIPS 202) written here, so that the
//!               setsum reference does not reuse the `sha3` crate the subject links against.
//! * `primes` -- the eight largest primes below 2^32 by trial division, plus a reader for the
//!               `SETSUM_PRIMES` literal in the subject's source text (cross-check only).
//! * `pyref`  -- one `python3 -c` call to `hashlib.sha3_256` to cross-check the Keccak above.
//! * `child`  -- run a sweep over hostile inputs in child processes (re-exec of the same binary)
//!               so that an abort (allocation failure, stack overflow) is observed, not suffered.
//! * `tup`, `tupcheck`, `hostile` -- enum_tuple (C16): subject adaptors, boundary domains and the
//!               reference order; the typed checks; the parser programs run on hostile bytes.

pub mod tup;
pub mod tupcheck;
pub mod hostile;

pub mod sha3 {
    /// Keccak-f[1600], the compact formulation of the Keccak team's reference code: round
    /// constants from the degree-8 LFSR, rotation offsets from the (t+1)(t+2)/2 walk.
    pub fn keccak_f1600(a: &mut [u64; 25]) {
        let mut lfsr: u8 = 0x01;
        for _round in 0..24 {
            // theta
            let mut c = [0u64; 5];
            for x in 0..5 {
                c[x] = a[x] ^ a[x + 5] ^ a[x + 10] ^ a[x + 15] ^ a[x + 20];
            }
            for x in 0..5 {
                let d = c[(x + 4) % 5] ^ c[(x + 1) % 5].rotate_left(1);
                for y in 0..5 {
                    a[x + 5 * y] ^= d;
                }
            }
            // rho and pi
            let (mut x, mut y) = (1usize, 0usize);
            let mut cur = a[1];
            let mut r = 0u32;
            for j in 0..24u32 {
                r += j + 1;
                let ny = (2 * x + 3 * y) % 5;
                x = y;
                y = ny;
                let tmp = a[x + 5 * y];
                a[x + 5 * y] = cur.rotate_left(r % 64);
                cur = tmp;
            }
            // chi
            for y in 0..5 {
                let row = [a[5 * y], a[5 * y + 1], a[5 * y + 2], a[5 * y + 3], a[5 * y + 4]];
                for x in 0..5 {
                    a[x + 5 * y] = row[x] ^ (!row[(x + 1) % 5] & row[(x + 2) % 5]);
                }
            }
            // iota
            for j in 0..7 {
                let hi = lfsr & 0x80 != 0;
                lfsr <<= 1;
                if hi {
                    lfsr ^= 0x71;
                }
                if lfsr & 2 != 0 {
                    a[0] ^= 1u64 << ((1u32 << j) - 1);
                }
            }
        }
    }

    /// SHA3-256: rate 136 bytes, domain suffix 0x06, final bit 0x80.
    pub fn sha3_256(data: &[u8]) -> [u8; 32] {
        const RATE: usize = 136;
        let mut st = [0u64; 25];
        let absorb = |st: &mut [u64; 25], block: &[u8]| {
            for (i, chunk) in block.chunks(8).enumerate() {
                let mut w = [0u8; 8];
                w[..chunk.len()].copy_from_slice(chunk);
                st[i] ^= u64::from_le_bytes(w);
            }
            keccak_f1600(st);
        };
        let mut off = 0;
        while data.len() - off >= RATE {
            absorb(&mut st, &data[off..off + RATE]);
            off += RATE;
        }
        let mut last = [0u8; RATE];
        let rem = data.len() - off;
        last[..rem].copy_from_slice(&data[off..]);
        last[rem] ^= 0x06;
        last[RATE - 1] ^= 0x80;
        absorb(&mut st, &last);
        let mut out = [0u8; 32];
        for i in 0..4 {
            out[8 * i..8 * i + 8].copy_from_slice(&st[i].to_le_bytes());
        }
        out
    }

    /// The two FIPS 202 example digests everybody knows (empty message, "abc").  Machinery
    /// self-test: a wrong Keccak must never become a verdict about the subject.
    pub fn self_test() -> Result<(), String> {
        let kats: [(&[u8], &str); 2] = [
            (b"", "a7ffc6f8bf1ed76651c14756a061d662f580ff4de43b49fa82d80a4b80f8434a"),
            (b"abc", "3a985da74fe225b2045c172d6bd390bd855f086e3e9d525b46bfe24511431532"),
        ];
        for (m, want) in kats {
            let got = super::hex(&sha3_256(m));
            if got != want {
                return Err(format!("harness SHA3-256 of {m:?} = {got}, FIPS 202 says {want}"));
            }
        }
        Ok(())
    }
}

pub fn hex(bytes: &[u8]) -> String {
    let mut s = String::with_capacity(bytes.len() * 2);
    for b in bytes {
        s.push(char::from_digit((*b >> 4) as u32, 16).unwrap());
        s.push(char::from_digit((*b & 15) as u32, 16).unwrap());
    }
    s
}

pub fn unhex(s: &str) -> Option<Vec<u8>> {
    if s.len() % 2 != 0 || !s.is_ascii() {
        return None;
    }
    let b = s.as_bytes();
    let mut out = Vec::with_capacity(b.len() / 2);
    for i in (0..b.len()).step_by(2) {
        let hi = (b[i] as char).to_digit(16)?;
        let lo = (b[i + 1] as char).to_digit(16)?;
        out.push((hi * 16 + lo) as u8);
    }
    Some(out)
}

pub mod primes {
    fn is_prime(n: u64) -> bool {
        if n < 2 {
            return false;
        }
        let mut d = 2u64;
        while d * d <= n {
            if n % d == 0 {
                return false;
            }
            d += 1;
        }
        true
    }

    /// The `n` largest primes below 2^32, largest first (trial division; 2^16 divisors each).
    pub fn largest_below_2_32(n: usize) -> Vec<u64> {
        let mut v = vec![];
        let mut c = (1u64 << 32) - 1;
        while v.len() < n {
            if is_prime(c) {
                v.push(c);
            }
            c -= 1;
        }
        v
    }

    /// The integer literals of `const SETSUM_PRIMES ... = [ ... ];` in the subject's source text.
    pub fn from_source(path: &str) -> Result<Vec<u64>, String> {
        let text = std::fs::read_to_string(path).map_err(|e| format!("{path}: {e}"))?;
        let start = text
            .find("const SETSUM_PRIMES")
            .ok_or_else(|| format!("{path}: no SETSUM_PRIMES"))?;
        let rest = &text[start..];
        let eq = rest.find('=').ok_or("no = after SETSUM_PRIMES")?;
        let rest = &rest[eq..];
        let open = rest.find('[').ok_or("no [ after SETSUM_PRIMES =")?;
        let close = rest.find(']').ok_or("no ] after SETSUM_PRIMES =")?;
        let mut v = vec![];
        for tok in rest[open + 1..close].split(',') {
            let tok = tok.trim().replace('_', "");
            if tok.is_empty() {
                continue;
            }
            v.push(tok.parse::<u64>().map_err(|e| format!("prime literal {tok:?}: {e}"))?);
        }
        Ok(v)
    }
}

pub mod pyref {
    /// SHA3-256 of each message by CPython's hashlib, one process for all messages.  `None` when
    /// python3 (or its sha3) is unavailable.
    pub fn sha3_256_all(msgs: &[Vec<u8>]) -> Option<Vec<[u8; 32]>> {
        use std::io::Write;
        use std::process::{Command, Stdio};
        let prog = "import sys,hashlib\nfor l in sys.stdin:\n    print(hashlib.sha3_256(bytes.fromhex(l.strip())).hexdigest())\n";
        let mut ch = Command::new("python3")
            .arg("-c")
            .arg(prog)
            .stdin(Stdio::piped())
            .stdout(Stdio::piped())
            .stderr(Stdio::null())
            .spawn()
            .ok()?;
        {
            let mut si = ch.stdin.take()?;
            for m in msgs {
                writeln!(si, "{}", super::hex(m)).ok()?;
            }
        }
        let out = ch.wait_with_output().ok()?;
        if !out.status.success() {
            return None;
        }
        let text = String::from_utf8(out.stdout).ok()?;
        let mut v = vec![];
        for l in text.lines() {
            let b = super::unhex(l.trim())?;
            if b.len() != 32 {
                return None;
            }
            let mut d = [0u8; 32];
            d.copy_from_slice(&b);
            v.push(d);
        }
        if v.len() == msgs.len() { Some(v) } else { None }
    }
}

pub mod child {
    //! Hostile-input sweeps run in re-executed children.  A sweep is a list of numbered
    //! partitions; a child runs a set of partitions on worker threads, each worker writes the id
    //! of the partition it is about to run into its own progress file, and the child finally
    //! writes a `Partial` as JSON.  When a child dies, the parent re-runs each in-flight partition
    //! alone in "fine" mode, where the single worker writes every case id ahead, so that the
    //! aborting input is identified exactly.

    use std::collections::BTreeSet;
    use std::path::{Path, PathBuf};
    use std::process::Command;

    use vcore::{Report, Value, Violation, json};

    /// What a child hands back: a Report as JSON, the hash sets as lists.
    pub fn report_to_json(r: &Report) -> Value {
        json!({
            "evaluations": r.evaluations,
            "transitions": r.transitions,
            "traces_validated": r.traces_validated,
            "states": r.states.iter().collect::<Vec<_>>(),
            "nontrivial": r.nontrivial.iter().collect::<Vec<_>>(),
            "outcomes": r.outcomes.iter().collect::<Vec<_>>(),
            "counters": r.counters,
            "violations": r.violations.iter().map(|v| json!({
                "property": v.property, "signature": v.signature, "detail": v.detail, "case": v.case,
            })).collect::<Vec<_>>(),
            "violation_sigs": r.violation_sigs,
            "samples": r.samples,
        })
    }

    pub fn merge_json_into(r: &mut Report, v: &Value) {
        let u = |k: &str| v[k].as_u64().unwrap_or(0);
        r.evaluations += u("evaluations");
        r.transitions += u("transitions");
        r.traces_validated += u("traces_validated");
        for (k, set) in [("states", 0), ("nontrivial", 1), ("outcomes", 2)] {
            if let Some(a) = v[k].as_array() {
                for h in a {
                    if let Some(h) = h.as_u64() {
                        match set {
                            0 => r.states.insert(h),
                            1 => r.nontrivial.insert(h),
                            _ => r.outcomes.insert(h),
                        };
                    }
                }
            }
        }
        if let Some(m) = v["counters"].as_object() {
            for (k, n) in m {
                r.count(k, n.as_u64().unwrap_or(0));
            }
        }
        // occurrences first (Report::violation counts one per call), then the kept cases
        let mut kept: std::collections::BTreeMap<String, u64> = Default::default();
        if let Some(a) = v["violations"].as_array() {
            for x in a {
                let sig = x["signature"].as_str().unwrap_or("").to_string();
                *kept.entry(sig.clone()).or_insert(0) += 1;
                r.violation(Violation {
                    property: x["property"].as_str().unwrap_or("").to_string(),
                    signature: sig,
                    detail: x["detail"].as_str().unwrap_or("").to_string(),
                    case: x["case"].clone(),
                });
            }
        }
        if let Some(m) = v["violation_sigs"].as_object() {
            for (k, n) in m {
                let n = n.as_u64().unwrap_or(0);
                let already = kept.get(k).copied().unwrap_or(0);
                if n > already {
                    *r.violation_sigs.entry(k.clone()).or_insert(0) += n - already;
                }
            }
        }
        if let Some(a) = v["samples"].as_array() {
            for s in a {
                r.sample(s.clone());
            }
        }
    }

    pub fn progress_path(dir: &Path, worker: usize) -> PathBuf {
        dir.join(format!("progress-{worker}"))
    }

    /// Worker side: note what is about to run (kernel buffers survive an abort of the process).
    pub fn write_ahead(path: &Path, what: &str) {
        let _ = std::fs::write(path, what);
    }

    pub struct Outcome {
        /// merged JSON partials of the children that completed
        pub partials: Vec<Value>,
        /// (partition, last case id written ahead in fine mode, how the child died)
        pub aborts: Vec<(usize, String, String)>,
        pub children: u64,
    }

    /// Parent side.  `extra` are passed through to every child (tier, sweep name ...).
    pub fn run_sweep(
        sweep: &str,
        partitions: usize,
        threads: usize,
        extra: &[String],
        scratch: &Path,
    ) -> Result<Outcome, String> {
        let exe = std::env::current_exe().map_err(|e| e.to_string())?;
        let mut todo: BTreeSet<usize> = (0..partitions).collect();
        let mut out = Outcome {
            partials: vec![],
            aborts: vec![],
            children: 0,
        };
        let mut round = 0;
        while !todo.is_empty() {
            round += 1;
            if round > partitions + 2 {
                return Err("child sweep does not converge".into());
            }
            let dir = scratch.join(format!("{sweep}-round{round}"));
            std::fs::create_dir_all(&dir).map_err(|e| e.to_string())?;
            let list: Vec<String> = todo.iter().map(|p| p.to_string()).collect();
            let partial = dir.join("partial.json");
            let st = Command::new(&exe)
                .arg("--child")
                .arg(sweep)
                .arg("--parts")
                .arg(list.join(","))
                .arg("--threads")
                .arg(threads.to_string())
                .arg("--progress-dir")
                .arg(&dir)
                .arg("--partial")
                .arg(&partial)
                .args(extra)
                .status()
                .map_err(|e| format!("cannot spawn child: {e}"))?;
            out.children += 1;
            if st.success() && partial.exists() {
                let text = std::fs::read_to_string(&partial).map_err(|e| e.to_string())?;
                out.partials
                    .push(serde_json::from_str(&text).map_err(|e| e.to_string())?);
                break;
            }
            // the child died: which partitions were in flight?
            let mut inflight = BTreeSet::new();
            for w in 0..threads.max(1) {
                if let Ok(s) = std::fs::read_to_string(progress_path(&dir, w)) {
                    if let Some(p) = s.split_whitespace().next().and_then(|x| x.parse::<usize>().ok()) {
                        if todo.contains(&p) {
                            inflight.insert(p);
                        }
                    }
                }
            }
            if inflight.is_empty() {
                return Err(format!(
                    "child for sweep {sweep} died ({st}) without progress information"
                ));
            }
            for p in inflight {
                let fdir = scratch.join(format!("{sweep}-fine{p}"));
                std::fs::create_dir_all(&fdir).map_err(|e| e.to_string())?;
                let fpartial = fdir.join("partial.json");
                let fst = Command::new(&exe)
                    .arg("--child")
                    .arg(sweep)
                    .arg("--parts")
                    .arg(p.to_string())
                    .arg("--threads")
                    .arg("1")
                    .arg("--fine")
                    .arg("--progress-dir")
                    .arg(&fdir)
                    .arg("--partial")
                    .arg(&fpartial)
                    .args(extra)
                    .status()
                    .map_err(|e| format!("cannot spawn child: {e}"))?;
                out.children += 1;
                if fst.success() && fpartial.exists() {
                    // did not die alone: keep its result
                    let text = std::fs::read_to_string(&fpartial).map_err(|e| e.to_string())?;
                    out.partials
                        .push(serde_json::from_str(&text).map_err(|e| e.to_string())?);
                } else {
                    let last = std::fs::read_to_string(progress_path(&fdir, 0)).unwrap_or_default();
                    out.aborts.push((p, last, format!("{fst}")));
                }
                todo.remove(&p);
            }
        }
        Ok(out)
    }
}
