// shared helpers for the enumc harness binaries
