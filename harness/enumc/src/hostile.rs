//! Parser programs run on hostile bytes (C16: "decoding arbitrary bytes returns an error rather
//! than panicking").  Each group of calls runs under `vcore::catch`; the caller runs all of this in
//! a child process so that an abort is observed too.

use prototk::FieldNumber;
use tuple_key as tk1;
use tuple_key::Element;
use tuple_key2 as tk2;

use crate::tup::*;
use crate::tupcheck::{Finding, esc, norm};

pub struct HostileCtx {
    /// (element type, field number, tag bytes) of the field-numbered format
    pub v1_tags: Vec<(Elem, u32, Vec<u8>)>,
    pub v1_schema: tk1::Schema<u8>,
    pub v1_elems: Vec<Elem>,
}

fn build_schema(depth: u8) -> tk1::Schema<u8> {
    if depth == 0 {
        tk1::Schema::new(0, std::iter::empty())
    } else {
        tk1::Schema::new(
            depth,
            [1u32, 2].into_iter().map(|f| ((FieldNumber::must(f), format!("f{f}")), build_schema(depth - 1))),
        )
    }
}

fn sample(k: Kind) -> (Val, usize) {
    match k {
        Kind::Unit => (Val::Unit, 1),
        Kind::U32 => (Val::U32(0), 5),
        Kind::U64 => (Val::U64(0), 10),
        Kind::I32 => (Val::I32(0), 5),
        Kind::I64 => (Val::I64(0), 10),
        _ => (Val::Str(String::new()), 1),
    }
}

impl HostileCtx {
    pub fn new() -> Self {
        let v1_elems = Crate::V1.elems();
        let mut v1_tags = vec![];
        for e in v1_elems.iter() {
            for f in [1u32, 15] {
                let (v, n) = sample(e.0);
                let full = v1_encode(&[f], &[*e], &[v]);
                v1_tags.push((*e, f, full[..full.len() - n].to_vec()));
            }
        }
        HostileCtx { v1_tags, v1_schema: build_schema(3), v1_elems }
    }
}

impl Default for HostileCtx {
    fn default() -> Self {
        Self::new()
    }
}

pub struct Obs {
    pub calls: u64,
    /// a typed parser (not a mere iterator, not a bare value decoder) accepted the raw bytes
    pub accepted: bool,
    /// observation classes not seen before by this Obs (drained by the caller into the outcomes)
    pub fresh: Vec<u64>,
    pub findings: Vec<Finding>,
    pub reencode_same: u64,
    pub reencode_differs: u64,
    cache: Vec<u64>,
}

impl Default for Obs {
    fn default() -> Self {
        Obs { calls: 0, accepted: false, fresh: vec![], findings: vec![], reencode_same: 0, reencode_differs: 0, cache: Vec::new() }
    }
}

/// a cheap, process-independent identity of a static message
fn msg_id(m: &str) -> u64 {
    let b = m.as_bytes();
    ((b.len() as u64) << 16) | ((*b.first().unwrap_or(&0) as u64) << 8) | (*b.last().unwrap_or(&0) as u64)
}

impl Obs {
    /// start the next input: counters cleared, the class cache kept
    pub fn reset(&mut self) {
        self.calls = 0;
        self.accepted = false;
        self.findings.clear();
        self.reencode_same = 0;
        self.reencode_differs = 0;
    }

    /// program, depth, kind, dir and a small result id make one class
    fn class(&mut self, prog: u8, a: u8, b: u8, c: u8, id: u64) {
        let key = ((prog as u64) << 56) | ((a as u64) << 50) | ((b as u64) << 44) | ((c as u64) << 40) | (id & 0xff_ffff_ffff);
        let key = key | 1 << 63;
        if self.cache.is_empty() {
            self.cache = vec![0; 4096];
        }
        let slot = (key.wrapping_mul(0x9e37_79b9_7f4a_7c15) >> 52) as usize;
        if self.cache[slot] != key {
            self.cache[slot] = key;
            self.fresh.push(key);
        }
    }
}

/// parse a type sequence without demanding the end of the key; says whether more follows
fn v1_parse_seq(tk: &tk1::TupleKey, fields: &[u32], schema: &[Elem]) -> Result<(Vec<Val>, bool), (usize, &'static str)> {
    let mut p = tk1::TupleKeyParser::new(tk);
    let mut out = vec![];
    for (i, (e, f)) in schema.iter().zip(fields.iter()).enumerate() {
        let f = FieldNumber::must(*f);
        let d = d1(e.1);
        let v = match e.0 {
            Kind::Unit => p.parse_next(f, d).map(|_| Val::Unit),
            Kind::U32 => p.parse_next_with_key::<u32>(f, d).map(Val::U32),
            Kind::U64 => p.parse_next_with_key::<u64>(f, d).map(Val::U64),
            Kind::I32 => p.parse_next_with_key::<i32>(f, d).map(Val::I32),
            Kind::I64 => p.parse_next_with_key::<i64>(f, d).map(Val::I64),
            _ => p.parse_next_with_key::<String>(f, d).map(Val::Str),
        };
        out.push(v.map_err(|e| (i, e))?);
    }
    let more = !matches!(p.peek_next(), Ok(None));
    Ok((out, more))
}

fn v1_tree(cx: &HostileCtx, tk: &tk1::TupleKey, s: &[u8], fields: &mut Vec<u32>, schema: &mut Vec<Elem>, obs: &mut Obs) {
    let depth = schema.len();
    for e in cx.v1_elems.iter() {
        for f in [depth as u32 + 1] {
            schema.push(*e);
            fields.push(f);
            obs.calls += 1;
            match v1_parse_seq(tk, fields, schema) {
                Ok((vals, more)) => {
                    obs.accepted = true;
                    obs.class(1, depth as u8, e.0 as u8, e.1 as u8, more as u64);
                    if !more {
                        if v1_encode(fields, schema, &vals) == s {
                            obs.reencode_same += 1;
                        } else {
                            obs.reencode_differs += 1;
                        }
                    } else if depth < 2 {
                        v1_tree(cx, tk, s, fields, schema, obs);
                    }
                }
                Err((i, m)) => {
                    if i == depth {
                        obs.class(1, depth as u8, e.0 as u8, e.1 as u8, 2 + msg_id(m));
                    }
                }
            }
            schema.pop();
            fields.pop();
        }
    }
}

fn guard(obs: &mut Obs, cname: &str, group: &str, s: &[u8], r: Result<(), String>) {
    if let Err(m) = r {
        obs.findings.push(Finding {
            sig: format!("c16:{cname}:parser-panic:{group}:{}", norm(&m)),
            detail: format!("{cname}: {group} on bytes {} panicked: {m}", esc(s)),
        });
    }
}

pub fn run_v1(cx: &HostileCtx, s: &[u8], obs: &mut Obs) {
    let tk = tk1::TupleKey::from(s);
    // 1. iterator, common prefix, peek
    let mut o = std::mem::take(obs);
    let r = vcore::catch(|| {
        let n = tk.iter().count();
        let c = tk1::TupleKeyIterator::number_of_elements_in_common_prefix(tk.iter(), tk.iter());
        let p = tk1::TupleKeyParser::new(&tk);
        let peek = p.peek_next();
        o.calls += 3;
        let pk = match peek {
            Err(_) => 1u64,
            Ok(None) => 2,
            Ok(Some(x)) => 3 + ((x.1 as u64) << 4) + ((x.2 as u64) << 8),
        };
        o.class(2, n.min(4) as u8, c.min(4) as u8, 0, pk);
    });
    guard(&mut o, "tuple_key", "iterator-and-peek", s, r);
    // 2. typed parser programs on the raw bytes
    let r = vcore::catch(|| {
        v1_tree(cx, &tk, s, &mut vec![], &mut vec![], &mut o);
    });
    guard(&mut o, "tuple_key", "typed-parser", s, r);
    // 3. a matching tag in front, so that the value parsers see the hostile bytes
    let r = vcore::catch(|| {
        for (e, f, tag) in cx.v1_tags.iter() {
            if *f != 1 || !matches!(e.0, Kind::Unit | Kind::Str) {
                continue;
            }
            let mut key = tag.clone();
            key.extend_from_slice(s);
            let tk = tk1::TupleKey::from(&key[..]);
            o.calls += 1;
            match v1_parse_seq(&tk, &[*f], &[*e]) {
                Ok((vals, more)) => {
                    o.class(3, 0, e.0 as u8, e.1 as u8, more as u64);
                    if !more {
                        if v1_encode(&[*f], &[*e], &vals) == key {
                            o.reencode_same += 1;
                        } else {
                            o.reencode_differs += 1;
                        }
                    }
                }
                Err((_, m)) => o.class(3, 0, e.0 as u8, e.1 as u8, 2 + msg_id(m)),
            }
        }
    });
    guard(&mut o, "tuple_key", "typed-parser-after-valid-tag", s, r);
    // 4. the element decoders directly
    let r = vcore::catch(|| {
        o.calls += 6;
        let a = <() as Element>::parse_from(s).is_ok();
        let b = <u32 as Element>::parse_from(s).is_ok();
        let c = <u64 as Element>::parse_from(s).is_ok();
        let d = <i32 as Element>::parse_from(s).is_ok();
        let e = <i64 as Element>::parse_from(s).is_ok();
        let f = <String as Element>::parse_from(s).is_ok();
        o.class(4, 0, 0, 0, (a as u64) | (b as u64) << 1 | (c as u64) << 2 | (d as u64) << 3 | (e as u64) << 4 | (f as u64) << 5);
    });
    guard(&mut o, "tuple_key", "element-parse-from", s, r);
    // 5. the schema walker, which decodes by the type written in each tag
    let r = vcore::catch(|| {
        o.calls += 1;
        let l = cx.v1_schema.lookup(&tk).map(|x| *x);
        // the other entry points walk the same recursion; they are asked when it got anywhere
        let (a, t, c) = if l.is_ok() || s.len() <= 2 {
            o.calls += 3;
            (cx.v1_schema.args_for_key(&tk).map(|v| v.len()), cx.v1_schema.is_terminal(&tk).ok(), tk.conforms_to(&cx.v1_schema))
        } else {
            (Ok(99), None, false)
        };
        if l.is_ok() && !s.is_empty() {
            o.accepted = true;
        }
        o.class(5, l.ok().unwrap_or(9), a.ok().unwrap_or(99).min(60) as u8, t.map(|x| x as u8).unwrap_or(2), c as u64);
    });
    guard(&mut o, "tuple_key", "schema-lookup", s, r);
    *obs = o;
}

fn v2_err_id(e: &tk2::Error) -> u64 {
    match e {
        tk2::Error::UnexpectedEnd => 1,
        tk2::Error::InvalidIntegerTag { .. } => 2,
        tk2::Error::InvalidUnitTag { .. } => 3,
        tk2::Error::NonCanonicalInteger => 4,
        tk2::Error::ValueOutOfRange { .. } => 5,
        tk2::Error::InvalidBytesEscape { .. } => 6,
        tk2::Error::UnterminatedBytes => 7,
        tk2::Error::InvalidUtf8 => 8,
        tk2::Error::TrailingBytes { .. } => 9,
    }
}

fn v2_tree(p: &tk2::TupleKeyParser<'_>, s: &[u8], schema: &mut Vec<Elem>, vals: &mut Vec<Val>, obs: &mut Obs) {
    let depth = schema.len();
    for k in ALL_KINDS {
        let mut q = p.clone();
        obs.calls += 1;
        match v2_parse_one(&mut q, k) {
            Ok(v) => {
                obs.accepted = true;
                schema.push((k, Dir::Asc));
                vals.push(v);
                let done = q.is_empty();
                obs.class(6, depth as u8, k as u8, 0, 100 + done as u64);
                if done {
                    obs.calls += 1;
                    let fin = q.clone().finish().is_ok();
                    if fin && v2_encode(schema, vals) == s {
                        obs.reencode_same += 1;
                    } else {
                        obs.reencode_differs += 1;
                    }
                } else if depth < 2 {
                    v2_tree(&q, s, schema, vals, obs);
                } else {
                    obs.calls += 1;
                    let fin = q.clone().finish();
                    obs.class(7, 0, 0, 0, fin.is_ok() as u64);
                }
                schema.pop();
                vals.pop();
            }
            Err(e) => {
                obs.class(6, depth as u8, k as u8, 0, v2_err_id(&e));
                // a parser that reported an error is still an object one can ask things
                obs.calls += 3;
                let _ = q.offset();
                let _ = q.remaining().len();
                let _ = q.is_empty();
            }
        }
    }
}

pub fn run_v2(s: &[u8], obs: &mut Obs) {
    let mut o = std::mem::take(obs);
    let r = vcore::catch(|| {
        o.calls += 3;
        let key = tk2::TupleKey::from_bytes(s.to_vec());
        let c = key.boundary_candidates();
        let c2 = tk2::boundary_candidates(s);
        let mut w = [0u8; 8];
        w[..s.len().min(8)].copy_from_slice(&s[..s.len().min(8)]);
        let z = tk2::zero_byte_mask(u64::from_le_bytes(w));
        let b = tk2::broad_tag_candidate_mask(u64::from_le_bytes(w));
        o.class(8, c.len().min(9) as u8, (c2.len() == c.len()) as u8, z.count_ones() as u8, b.count_ones() as u64);
    });
    guard(&mut o, "tuple_key2", "boundary-candidates", s, r);
    let r = vcore::catch(|| {
        let p = tk2::TupleKeyParser::new(s);
        v2_tree(&p, s, &mut vec![], &mut vec![], &mut o);
    });
    guard(&mut o, "tuple_key2", "typed-parser", s, r);
    *obs = o;
}

fn v2_decode_lean(schema: &[Elem], bytes: &[u8]) -> Result<Vec<Val>, (usize, u64)> {
    let mut p = tk2::TupleKeyParser::new(bytes);
    let mut out = Vec::with_capacity(schema.len());
    for (i, e) in schema.iter().enumerate() {
        out.push(v2_parse_one(&mut p, e.0).map_err(|e| (i, v2_err_id(&e)))?);
    }
    p.finish().map_err(|e| (schema.len(), v2_err_id(&e)))?;
    Ok(out)
}

/// A damaged valid key, parsed with the key's own type sequence (and the walkers).
pub fn run_damaged(cx: &HostileCtx, c: Crate, fields: &[u32], schema: &[Elem], original: &[Val], s: &[u8], obs: &mut Obs) {
    let mut o = std::mem::take(obs);
    let r = vcore::catch(|| {
        o.calls += 1;
        let res: Result<Vec<Val>, (usize, u64)> = match c {
            Crate::V1 => {
                let tk = tk1::TupleKey::from(s);
                match v1_parse_seq(&tk, fields, schema) {
                    Ok((v, false)) => Ok(v),
                    Ok((_, true)) => Err((schema.len(), 0)),
                    Err((i, m)) => Err((i, msg_id(m))),
                }
            }
            Crate::V2 => v2_decode_lean(schema, s),
        };
        match res {
            Ok(v) => {
                o.accepted = true;
                let same = v == original;
                o.class(9, c as u8, 0, 0, same as u64);
                if encode(c, fields, schema, &v) == s {
                    o.reencode_same += 1;
                } else {
                    o.reencode_differs += 1;
                }
            }
            Err((i, id)) => o.class(9, c as u8, 1 + i.min(3) as u8, 0, id),
        }
        match c {
            Crate::V1 => {
                o.calls += 2;
                let tk = tk1::TupleKey::from(s);
                let _ = tk.iter().count();
                let _ = cx.v1_schema.lookup(&tk).is_ok();
            }
            Crate::V2 => {
                o.calls += 1;
                let _ = tk2::boundary_candidates(s).len();
            }
        }
    });
    guard(&mut o, c.name(), "own-schema-on-damaged-key", s, r);
    *obs = o;
}
