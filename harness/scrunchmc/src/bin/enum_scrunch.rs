//! E4 enum on /repo/scrunch (property C19): bounded-exhaustive documents and bit vectors against a
//! naive scan and a Vec<bool>.
//!
//!   enum_scrunch --tier quick|thorough --out report.json --replay-dir DIR --seed N
//!                [--only docs|long|bv-small|bv-runs|invalid] [--threads N]
//!                [--sigma-n 1:8,2:8,3:6,4:5] [--bset-n 6] [--bv-len 16]
//!   enum_scrunch --replay replays/C19/....json

use std::collections::HashSet;

use buffertk::Unpackable;
use scrunch::Document;
use scrunchmc::*;
use vcore::{Args, Value, json};

#[derive(Clone, Debug)]
struct Family {
    name: &'static str,
    symbols: Vec<u32>,
    /// the pattern symbol that never occurs in a text of this family
    absent: u32,
    nmax: usize,
}

enum Item {
    /// one text; all its record-boundary sets; all patterns on every boundary set when `full`,
    /// else all patterns on the three canonical boundary sets and the reduced set on the others
    Doc {
        fam: usize,
        text: Vec<u32>,
        full: bool,
    },
    /// a long structured text with its boundary sets and pattern list
    Long {
        name: String,
        text: Vec<u32>,
        absent: u32,
    },
    /// inputs outside the API domain
    Invalid,
    /// all bit patterns of one length in a value range
    BvSmall { len: usize, from: u64, to: u64 },
    /// one run-structured vector
    BvRuns { first: bool, lens: Vec<usize> },
}

fn describe(it: &Item) -> String {
    match it {
        Item::Doc { fam, text, .. } => format!("doc family {fam} text {text:?}"),
        Item::Long { name, text, .. } => format!("long text {name} ({} symbols)", text.len()),
        Item::Invalid => "invalid inputs".into(),
        Item::BvSmall { len, from, to } => format!("bit patterns len {len} values {from}..{to}"),
        Item::BvRuns { first, lens } => {
            if lens.len() > 8 {
                format!("runs first={first} {} runs of {}", lens.len(), lens[0])
            } else {
                format!("runs first={first} {lens:?}")
            }
        }
    }
}

fn all_texts(symbols: &[u32], n: usize) -> Vec<Vec<u32>> {
    let mut out = vec![];
    let plan = PatPlan::All {
        symbols: symbols.to_vec(),
        max_len: n,
        extra: vec![],
    };
    for_each_pattern(&plan, |p| {
        if p.len() == n {
            out.push(p.to_vec());
        }
    });
    out
}

fn boundary_sets(n: usize, all: bool) -> Vec<Vec<usize>> {
    let mut out: Vec<Vec<usize>> = vec![];
    if all {
        for mask in 0u64..(1u64 << (n - 1)) {
            let mut b = vec![0usize];
            for i in 1..n {
                if mask & (1 << (i - 1)) != 0 {
                    b.push(i);
                }
            }
            out.push(b);
        }
    } else {
        out.push(vec![0]);
        let every: Vec<usize> = (0..n).collect();
        if !out.contains(&every) {
            out.push(every);
        }
        if n >= 2 && !out.contains(&vec![0, n / 2]) {
            out.push(vec![0, n / 2]);
        }
    }
    out
}

/// de Bruijn sequence B(k, n) (FKM algorithm), made linear by appending its first n-1 symbols.
fn de_bruijn(k: usize, n: usize) -> Vec<usize> {
    fn db(t: usize, p: usize, k: usize, n: usize, a: &mut Vec<usize>, seq: &mut Vec<usize>) {
        if t > n {
            if n % p == 0 {
                seq.extend_from_slice(&a[1..=p]);
            }
        } else {
            a[t] = a[t - p];
            db(t + 1, p, k, n, a, seq);
            for j in a[t - p] + 1..k {
                a[t] = j;
                db(t + 1, t, k, n, a, seq);
            }
        }
    }
    let mut a = vec![0usize; k * n + 1];
    let mut seq = vec![];
    db(1, 1, k, n, &mut a, &mut seq);
    let wrap: Vec<usize> = seq[..n - 1].to_vec();
    seq.extend(wrap);
    seq
}

fn long_texts(thorough: bool) -> Vec<(String, Vec<u32>, u32)> {
    let mut out = vec![];
    let mut units: Vec<Vec<u32>> = vec![];
    for m in 1..=3 {
        units.extend(all_texts(&[10, 20], m));
    }
    units.push(vec![10, 20, 30]);
    units.push(vec![30, 20, 10]);
    units.push(vec![0x10ffff, 0xff]);
    let mut lens = vec![63usize, 64, 65, 66, 127, 128, 129, 130];
    if thorough {
        lens.extend([191, 192, 193, 255, 256, 257, 511, 512, 513]);
    }
    for u in units.iter() {
        for l in lens.iter() {
            let text: Vec<u32> = (0..*l).map(|i| u[i % u.len()]).collect();
            out.push((format!("({u:?})^ to {l}"), text, 15));
        }
    }
    let mut dbs = vec![(2usize, 6usize), (2, 7), (3, 4), (4, 3)];
    if thorough {
        dbs.extend([(2, 8), (2, 9), (3, 5), (4, 4), (5, 3)]);
    }
    for (k, n) in dbs {
        let text: Vec<u32> = de_bruijn(k, n).into_iter().map(|s| 10 * (s as u32 + 1)).collect();
        out.push((format!("deBruijn({k},{n})"), text, 15));
    }
    // large alphabets: every symbol once (ascending, descending) and the ascending one twice;
    // the sizes sit on the crate's switches between 8-, 16- and 32-bit symbol codes
    let mut ks = vec![254usize, 255, 256, 257];
    if thorough {
        ks.extend([65534, 65535, 65536, 65537]);
    }
    for k in ks {
        let asc: Vec<u32> = (0..k as u32).map(|i| 1000 + 3 * i).collect();
        let desc: Vec<u32> = asc.iter().rev().copied().collect();
        let mut twice = asc.clone();
        twice.extend_from_slice(&asc);
        out.push((format!("alphabet({k}) ascending"), asc, 1001));
        out.push((format!("alphabet({k}) descending"), desc, 1001));
        out.push((format!("alphabet({k}) ascending twice"), twice, 1001));
    }
    out
}

fn long_boundary_sets(n: usize) -> Vec<Vec<usize>> {
    let mut out = vec![vec![0usize], (0..n).collect()];
    for b in [63usize, 64, 65] {
        if b < n {
            out.push(vec![0, b]);
        }
    }
    out.push((0..n).step_by(64).collect());
    out.push((0..n).step_by(7).collect());
    out.sort();
    out.dedup();
    out
}

fn long_patterns(text: &[u32], absent: u32) -> Vec<Vec<u32>> {
    let n = text.len();
    let mut symbols: Vec<u32> = text.to_vec();
    symbols.sort();
    symbols.dedup();
    let mut out = vec![];
    if symbols.len() <= 4 {
        symbols.push(absent);
        for_each_pattern(
            &PatPlan::All {
                symbols,
                max_len: 4,
                extra: vec![],
            },
            |p| out.push(p.to_vec()),
        );
    } else {
        // a large alphabet: single symbols (all, or the 300 smallest and largest), the absent
        // symbol, and neighbouring pairs in both orders
        let k = symbols.len();
        let picked: Vec<u32> = if k <= 600 {
            symbols.clone()
        } else {
            symbols[..300].iter().chain(symbols[k - 300..].iter()).copied().collect()
        };
        out.push(vec![]);
        out.push(vec![absent]);
        for s in picked.iter() {
            out.push(vec![*s]);
            out.push(vec![*s, absent]);
        }
        let step = (n / 600).max(1);
        for i in (0..n - 1).step_by(step) {
            out.push(vec![text[i], text[i + 1]]);
            out.push(vec![text[i + 1], text[i]]);
        }
    }
    let starts = [0usize, 1, 2, 61, 62, 63, 64, 65, 66, 126, 127, 128, 129];
    // on very long texts a pattern of (almost) the whole text costs seconds per call on the
    // subject (backward search is ~30 us per symbol with 65k symbols): 2048 symbols there
    let whole: Vec<usize> = if n > 2048 { vec![2048] } else { vec![n.saturating_sub(1), n] };
    for m in [5usize, 8, 62, 63, 64, 65, 66].into_iter().chain(whole) {
        if m == 0 || m > n {
            continue;
        }
        let mut ss: Vec<usize> = starts.iter().copied().filter(|s| s + m <= n).collect();
        ss.push(n - m);
        if n - m >= 1 {
            ss.push(n - m - 1);
        }
        ss.sort();
        ss.dedup();
        for s in ss {
            let p = text[s..s + m].to_vec();
            if m <= 2048 {
                // the same with its first / last symbol replaced by the absent one
                let mut q = p.clone();
                q[0] = absent;
                let mut r = p.clone();
                r[m - 1] = absent;
                out.push(q);
                out.push(r);
            }
            out.push(p);
        }
    }
    let mut longer = text.to_vec();
    longer.push(text[0]);
    if n <= 2048 {
        out.push(longer);
    }
    out.sort();
    out.dedup();
    out
}

fn run_specs(thorough: bool) -> Vec<(bool, Vec<usize>)> {
    let s: Vec<usize> = vec![1, 62, 63, 64, 65, 66];
    let m: Vec<usize> = vec![4095, 4096, 4097];
    let l: Vec<usize> = vec![65535, 65536, 65537];
    let sm: Vec<usize> = s.iter().chain(m.iter()).copied().collect();
    let sml: Vec<usize> = sm.iter().chain(l.iter()).copied().collect();
    let mut specs: Vec<Vec<usize>> = vec![];
    let seqs = |vals: &[usize], k: usize| -> Vec<Vec<usize>> {
        let mut out: Vec<Vec<usize>> = vec![vec![]];
        for _ in 0..k {
            let mut next = vec![];
            for p in out.iter() {
                for v in vals {
                    let mut q = p.clone();
                    q.push(*v);
                    next.push(q);
                }
            }
            out = next;
        }
        out
    };
    if thorough {
        for k in 1..=3 {
            specs.extend(seqs(&sml, k));
        }
    } else {
        for k in 1..=3 {
            specs.extend(seqs(&s, k));
        }
        for k in 1..=2 {
            specs.extend(seqs(&sm, k));
        }
        for a in [1usize, 63, 64] {
            for b in [1usize, 63, 64] {
                for x in m.iter() {
                    specs.push(vec![a, *x, b]);
                }
            }
        }
        for x in l.iter() {
            specs.push(vec![*x]);
            for a in [1usize, 63, 64] {
                specs.push(vec![a, *x]);
                specs.push(vec![*x, a]);
            }
        }
    }
    // periodic: one run length repeated past two of the largest blocks
    let (vals, total) = if thorough {
        (sml.clone(), 2 * 65537)
    } else {
        (sm.clone(), 2 * 4097)
    };
    for r in vals {
        let k = (total + r) / r + 1;
        specs.push(vec![r; k]);
    }
    specs.sort_by_key(|q| (q.iter().sum::<usize>(), q.clone()));
    specs.dedup();
    let mut out = vec![];
    for q in specs {
        out.push((false, q.clone()));
        out.push((true, q));
    }
    out
}

fn parse_sigma_n(s: &str) -> Vec<(usize, usize)> {
    s.split(',')
        .map(|p| {
            let (a, b) = p.split_once(':').expect("--sigma-n wants s:n,s:n");
            (a.parse().unwrap(), b.parse().unwrap())
        })
        .collect()
}

/// Replay before report: a finding is kept only if re-running its single case reports the same
/// signature again.
fn confirm(acc: &mut Acc, findings: Vec<Finding>) {
    for f in findings {
        let seen = acc.sig_counts.get(&f.sig).copied().unwrap_or(0);
        if seen >= 16 {
            // the defect is established; count further hits without re-running them
            *acc.sig_counts.get_mut(&f.sig).unwrap() += 1;
            continue;
        }
        let again = run_case(&f.case);
        if again.iter().any(|g| g.sig == f.sig) {
            acc.add(f);
        } else {
            acc.non_reproducible += 1;
            acc.report.count(&format!("non_reproducible:{}", f.sig), 1);
        }
    }
}

fn main() {
    let args = Args::parse();
    vcore::quiet_panics();
    if let Some(rf) = args.replay_case() {
        replay(&rf);
        return;
    }
    let thorough = args.tier_thorough();
    let sigma_n = parse_sigma_n(args.get("sigma-n").unwrap_or(if thorough {
        "1:12,2:10,3:7,4:6"
    } else {
        "1:8,2:8,3:6,4:5"
    }));
    let bset_n = args.usize("bset-n", if thorough { 8 } else { 6 });
    let bv_len = args.usize("bv-len", if thorough { 20 } else { 16 });
    let only = args.get("only").map(|s| s.to_string());
    let want = |k: &str| only.as_deref().map(|o| o == k).unwrap_or(true);
    let seed = args.u64("seed", 0);
    if let Some(i) = args.get("impl") {
        let _ = ONLY_IMPL.set(i.to_string());
    }

    let base_symbols = [10u32, 20, 30, 40];
    let mut families: Vec<Family> = vec![];
    for (s, n) in sigma_n.iter() {
        families.push(Family {
            name: match s {
                1 => "sigma1",
                2 => "sigma2",
                3 => "sigma3",
                _ => "sigma4",
            },
            symbols: base_symbols[..*s].to_vec(),
            absent: 25,
            nmax: *n,
        });
    }
    families.push(Family {
        name: "large-code-points",
        symbols: vec![0xff, 0xffff, 0x10ffff],
        absent: 0x100,
        nmax: args.usize("large-n", 5),
    });
    families.push(Family {
        name: "extreme-symbols",
        symbols: vec![0, 0x100000, 0xffff_ffff],
        absent: 1,
        nmax: args.usize("extreme-n", if thorough { 5 } else { 4 }),
    });

    let mut items: Vec<Item> = vec![];
    if want("invalid") {
        items.push(Item::Invalid);
    }
    if want("bv-small") {
        for len in 0..=bv_len {
            let total = 1u64 << len;
            let step = 2048u64;
            let mut from = 0;
            while from < total {
                let to = (from + step).min(total);
                items.push(Item::BvSmall { len, from, to });
                from = to;
            }
        }
    }
    let budget = args.u64("level-budget", if thorough { 1_000_000_000 } else { 20_000_000 });
    // over budget: on how many of the canonical boundary sets (one record, one symbol per record,
    // split at n/2 -- in this order) every pattern is still asked
    let canon_full = args.usize("canon-full", if thorough { 3 } else { 1 });
    let mut levels: Vec<Value> = vec![];
    if want("docs") {
        let nmax = families.iter().map(|f| f.nmax).max().unwrap_or(0);
        for n in 1..=nmax {
            // texts over k symbols are texts over k+1 symbols too, and the pattern alphabet of the
            // larger family contains that of the smaller.  A smaller plain alphabet is therefore
            // skipped at a length where a larger one already gets the full product, or where both
            // would get the reduced pattern sets; it is kept where it still fits the full product
            // and the larger one does not.
            let level = |f: &Family| -> (u64, u64, u64, bool) {
                let k = f.symbols.len() as u64;
                let texts = k.pow(n as u32);
                let bsets = if n <= bset_n {
                    1u64 << (n - 1)
                } else {
                    boundary_sets(n, false).len() as u64
                };
                let k1 = k + 1;
                let patterns = (k1.pow(n as u32 + 2) - 1) / (k1 - 1);
                let product = texts.saturating_mul(bsets).saturating_mul(patterns);
                (texts, bsets, patterns, product <= budget || n > bset_n)
            };
            let mut plain: Vec<usize> = families
                .iter()
                .enumerate()
                .filter(|(_, f)| f.name.starts_with("sigma") && n <= f.nmax)
                .map(|(i, _)| i)
                .collect();
            plain.sort_by_key(|i| std::cmp::Reverse(families[*i].symbols.len()));
            let mut keep: Vec<usize> = vec![];
            let mut larger_full = false;
            for (rank, i) in plain.iter().enumerate() {
                let full = level(&families[*i]).3;
                if larger_full || (rank > 0 && !full) {
                    continue;
                }
                keep.push(*i);
                larger_full |= full;
            }
            for (fi, f) in families.iter().enumerate() {
                if n > f.nmax {
                    continue;
                }
                if f.name.starts_with("sigma") && !keep.contains(&fi) {
                    continue;
                }
                let (texts, bsets, patterns, full) = level(f);
                levels.push(json!({
                    "family": f.name, "n": n, "texts": texts, "boundary_sets_per_text": bsets,
                    "patterns_per_document": patterns,
                    "all_patterns_on": if full { "every boundary set".to_string() } else { format!("the first {canon_full} of [one record, one symbol per record, split at n/2]; reduced pattern set on the other boundary sets") },
                }));
                for t in all_texts(&f.symbols, n) {
                    items.push(Item::Doc { fam: fi, text: t, full });
                }
            }
        }
    }
    let runs = run_specs(thorough);
    let n_run_specs = runs.len();
    let longs = long_texts(thorough);
    let n_longs = longs.len();
    if want("long") {
        for (name, text, absent) in longs {
            if let Some(f) = args.get("long-filter") {
                if !name.contains(f) {
                    continue;
                }
            }
            items.push(Item::Long { name, text, absent });
        }
    }
    if want("bv-runs") {
        for (first, lens) in runs {
            items.push(Item::BvRuns { first, lens });
        }
    }
    // nothing is sampled and the enumeration order is fixed (small cases first): the seed is
    // only recorded

    let job = "enum_scrunch";
    let fams = &families;
    let total = run_parallel(
        &items,
        args.threads(),
        job,
        args.u64("stall-secs", 900),
        describe,
        |item, acc| match item {
            Item::Invalid => {
                let mut st = DocStats::default();
                let texts: Vec<Vec<u32>> =
                    vec![vec![], vec![10], vec![10, 20], vec![10, 20, 30], vec![10, 10, 10, 10]];
                for text in texts.iter() {
                    let n = text.len();
                    let mut bsets: Vec<Vec<usize>> = vec![
                        vec![],
                        vec![0],
                        vec![1],
                        vec![0, 0],
                        vec![0, n],
                        vec![0, n + 1],
                        vec![0, 2, 1],
                        vec![0, 1, 1],
                        vec![0, 1, 1, 2],
                        vec![0, usize::MAX],
                    ];
                    bsets.retain(|b| {
                        // keep only those outside the API domain
                        !(b.first() == Some(&0)
                            && b.windows(2).all(|w| w[0] < w[1])
                            && b.last().map(|l| *l < n).unwrap_or(false))
                    });
                    for b in bsets {
                        let mut out = vec![];
                        let (ra, ca) = check_rejection(text, &b, &mut st, &mut out);
                        // The constructor's documented domain excludes the empty text and empty
                        // records (boundaries must start at 0, strictly increase and stay below
                        // the length); both document types refuse them with an explicit error.
                        // A refusal is not an answer that differs from the plain scan, so it is
                        // counted, not reported (DESIGN.md 9).
                        for f in domain_findings(text, &b) {
                            acc.report.count(&format!("note:{}", f.sig), 1);
                        }
                        acc.report.evaluations += 1;
                        acc.report.traces_validated += 1;
                        acc.report.count("invalid_inputs", 1);
                        if !ra && !ca {
                            acc.report.count("invalid_inputs_refused_by_both", 1);
                        }
                        acc.report
                            .outcomes
                            .insert(vcore::stable_hash(&("reject", ra, ca)));
                        acc.report
                            .states
                            .insert(vcore::stable_hash(&("invalid", text, &b)));
                        for f in out.iter_mut() {
                            f.case["invalid"] = json!(true);
                        }
                        confirm(acc, out);
                    }
                }
                acc.report.transitions += st.calls;
            }
            Item::Doc { fam, text, full } => {
                let f = &fams[*fam];
                let n = text.len();
                let mut symbols = f.symbols.clone();
                symbols.push(f.absent);
                let mut extra: Vec<Vec<u32>> = vec![];
                for s in [
                    0u32,
                    1,
                    f.symbols[0].wrapping_sub(1),
                    f.symbols[f.symbols.len() - 1].wrapping_add(1),
                    0xff,
                    0x100,
                    0xffff,
                    0x10000,
                    0xfffff,
                    0x100000,
                    0x100001,
                    0x10ffff,
                    u32::MAX - 1,
                    u32::MAX,
                ] {
                    extra.push(vec![s]);
                    extra.push(vec![text[0], s]);
                    extra.push(vec![s, text[n - 1]]);
                }
                let reduced = if *full {
                    PatPlan::None
                } else {
                    PatPlan::List(reduced_patterns(text, &symbols, &extra))
                };
                let plan = PatPlan::All {
                    symbols,
                    max_len: n + 1,
                    extra,
                };
                let mut distinct = text.clone();
                distinct.sort();
                distinct.dedup();
                let mut first = true;
                let all_canonical = boundary_sets(n, false);
                let canonical: Vec<Vec<usize>> = if n <= bset_n {
                    all_canonical.iter().take(canon_full).cloned().collect()
                } else {
                    all_canonical.clone()
                };
                // the canonical sets first: the reference document is asked the full pattern set
                let mut bsets = all_canonical.clone();
                for b in boundary_sets(n, n <= bset_n) {
                    if !all_canonical.contains(&b) {
                        bsets.push(b);
                    }
                }
                for bounds in bsets {
                    let mut st = DocStats::default();
                    let mut out = vec![];
                    let use_full = *full || canonical.contains(&bounds);
                    if !use_full {
                        acc.report.count("documents_with_reduced_pattern_set", 1);
                    }
                    check_doc(
                        text,
                        &bounds,
                        if use_full { &plan } else { &reduced },
                        first,
                        false,
                        &mut st,
                        &mut acc.report.outcomes,
                        &mut out,
                    );
                    first = false;
                    account_doc(acc, f.name, text, &bounds, &st, distinct.len());
                    confirm(acc, out);
                }
            }
            Item::Long { name, text, absent } => {
                let pats = long_patterns(text, *absent);
                let plan = PatPlan::List(pats);
                let mut distinct = text.clone();
                distinct.sort();
                distinct.dedup();
                let mut first = true;
                for bounds in long_boundary_sets(text.len()) {
                    let mut st = DocStats::default();
                    let mut out = vec![];
                    check_doc(
                        text,
                        &bounds,
                        &plan,
                        first,
                        false,
                        &mut st,
                        &mut acc.report.outcomes,
                        &mut out,
                    );
                    first = false;
                    let _ = name;
                    account_doc(acc, "long-structured", text, &bounds, &st, distinct.len());
                    confirm(acc, out);
                }
            }
            Item::BvSmall { len, from, to } => {
                for v in *from..*to {
                    let bits: Vec<bool> = (0..*len).map(|i| v & (1 << i) != 0).collect();
                    bv_case(acc, bits, true);
                }
            }
            Item::BvRuns { first, lens } => {
                bv_case(acc, from_runs(*first, lens), false);
                acc.report.count("bv_run_structured_vectors", 1);
            }
        },
    );

    let non_repro = total.non_reproducible;
    let mut report = total.seal();
    report.bound = json!({
        "documents": {
            "families": families.iter().map(|f| json!({
                "name": f.name,
                "symbols": f.symbols,
                "absent_pattern_symbol": f.absent,
                "all_texts_of_length": [1, f.nmax],
                "patterns": "all of length 0..=n+1 over symbols+absent, plus 42 probes with out-of-alphabet symbols",
            })).collect::<Vec<_>>(),
            "levels": levels,
            "reduced_pattern_set": "all patterns of length <= 2 over symbols+absent, every substring of the text, every substring extended by one symbol on either side, the 42 out-of-alphabet probes",
            "level_budget_texts_x_bsets_x_patterns": budget,
            "all_boundary_sets_up_to_n": bset_n,
            "boundary_sets_above": ["one record", "one symbol per record", "split at n/2"],
            "long_structured_texts": n_longs,
            "long_text_lengths": "63..66, 127..130 (thorough: +191..193, 255..257, 511..513); units of length <= 3 over 2 symbols, abc, cba, two large code points; linearised de Bruijn sequences; alphabets of 254..257 (thorough: +65534..65537) distinct symbols, each symbol once ascending / descending / ascending twice",
            "invalid_inputs": "5 texts (incl. empty) x 10 boundary vectors outside the API domain",
        },
        "bit_vectors": {
            "implementations": IMPLS,
            "all_patterns_up_to_len": bv_len,
            "run_structured_vectors": n_run_specs,
            "run_lengths": [1, 62, 63, 64, 65, 66, 4095, 4096, 4097, 65535, 65536, 65537],
            "run_structure": if thorough {
                "all sequences of 1..3 runs over the 12 lengths, both starting bits; each length repeated past 2*65537 bits"
            } else {
                "all sequences of 1..3 runs over {1,62..66}, all of 1..2 runs over the 9 lengths <= 4097, (a, m, b) with a,b in {1,63,64} and m in 4095..4097, (x), (a, x), (x, a) with x in 65535..65537, both starting bits; each length <= 4097 repeated past 2*4097 bits"
            },
            "arguments": "every index 0..=len for access/rank/rank0/access_rank, every k 0..=count for select/select0, 8 arguments just past the range, and an ascending ladder of 21 arguments from 2^16 to usize::MAX (stopped at the first call slower than 100 ms twice in a row, which is a finding)",
        },
    });
    report.rule = "Every case of the stated finite spaces is run on the real scrunch code; nothing is sampled. \
Documents: a case is one (text, record-boundary set); each is built with CompressedDocument::construct and queried after unpack (the only way the crate offers: a document exists only as serialised bytes), a second unpack of a copy of the bytes at another address must answer the same, and a second construct must give identical bytes. \
Deciding oracle = naive scan of the original Vec<u32> written in the harness: len, records, lookup(offset) for every offset < len, offset_of/retrieve for every record (byte for byte), search as a sorted set and count for every pattern; the empty pattern follows the crate's stated convention (every offset 0..len). Record indexes past the end must give Err (asked just past the end and on an ascending ladder of 21 values from 2^16 to usize::MAX; a call slower than 100 ms twice in a row is reported as 'time grows with the argument' and ends the ladder, so the harness never sends the magnitudes at which such a call would not return); offsets >= len must merely not panic. Where texts x boundary sets x patterns of one length exceeds the level budget (see bound.documents.levels) every pattern is asked on the canonical boundary sets only and the other boundary sets get the reduced pattern set (all patterns of length <= 2, every substring of the text, every substring extended by one symbol on either side). The crate's ReferenceDocument is run through the same oracle and reported under refdoc:* signatures (its search ignores boundaries by construction, so it is asked the patterns once per text). \
The API admits only boundaries that start at 0, strictly increase and stay < len, so empty records and the empty text cannot be built: that explicit refusal is counted under note:doc:construct:refuses:* and is not a violation. \
Bit vectors (semantics taken from ReferenceBitVector, the crate's test tables and the default methods; the trait doc for select only says 'Select the x'th bit from this set. An index.'): access(i)=bit i for i<len else None; rank(i)=#ones at positions < i (exclusive) for i<=len else None; rank0(i)=i-rank(i); select(k)=smallest p with rank(p)=k, i.e. select(0)=0 and select(k)=index of the k-th one (1-based k, 0-based index) + 1, None for k>#ones; select0 likewise over zeros; access_rank(i)=(access,rank) for i<len, at i=len None or (false,rank(len)) (the crate's implementations differ there and the trait is silent), None beyond. A panic is a violation everywhere. \
distinct = hash of the input (text+boundaries, or the bit vector); non-trivial = documents with >= 2 distinct symbols or >= 2 records, vectors containing both a 0 and a 1; outcomes = distinct observed answers.".to_string();
    report.assumptions = vec![
        "single-threaded subject calls; the crate has no global state".into(),
        "overflow checks and debug assertions are on in the harness profile: an arithmetic overflow in the subject surfaces as a panic".into(),
    ];
    if non_repro > 0 {
        report.notes.insert(
            "non_reproducible".into(),
            json!("some findings did not reproduce on their second run and were dropped"),
        );
    }
    report.notes.insert("seed".into(), json!(seed));
    report.notes.insert(
        "lookup_past_end".into(),
        json!("CompressedDocument::lookup answers the last record for offset == len and Err beyond; ReferenceDocument answers the last record for every offset >= len; the property is silent there, so both are admitted"),
    );
    let all = only.is_none();
    if !all {
        report.notes.insert("only".into(), json!(only));
    }
    if all && report.outcomes.len() <= 1 && report.evaluations > 1 {
        eprintln!("MACHINERY: {} evaluations produced {} distinct outcomes -- the harness is vacuous", report.evaluations, report.outcomes.len());
        report.finish(&args, job);
        std::process::exit(2);
    }
    eprintln!(
        "enum_scrunch: {} cases, {} subject calls, {} distinct inputs, {} outcomes, {} violation signatures, {:.1} s",
        report.evaluations,
        report.transitions,
        report.states.len(),
        report.outcomes.len(),
        report.violation_sigs.len(),
        report.started.elapsed().as_secs_f64()
    );
    for (sig, n) in report.violation_sigs.iter() {
        eprintln!("  {n:>10} x {sig}");
    }
    report.finish(&args, job);
}

static ONLY_IMPL: std::sync::OnceLock<String> = std::sync::OnceLock::new();

fn account_doc(
    acc: &mut Acc,
    family: &str,
    text: &[u32],
    bounds: &[usize],
    st: &DocStats,
    distinct_symbols: usize,
) {
    let r = &mut acc.report;
    r.evaluations += 1;
    r.traces_validated += 1;
    r.transitions += st.calls;
    let h = vcore::stable_hash(&("doc", text, bounds));
    r.states.insert(h);
    if distinct_symbols >= 2 || bounds.len() >= 2 {
        r.nontrivial.insert(h);
    }
    r.count("documents", 1);
    r.count(&format!("documents_{family}"), 1);
    r.count("patterns_asked", st.patterns);
    r.count("patterns_with_occurrences", st.patterns_present);
    r.count("occurrences_expected", st.occurrences);
    r.count(
        "occurrences_crossing_a_record_boundary",
        st.occurrences_crossing_boundary,
    );
    r.count("reference_document_pattern_checks", st.ref_pattern_checks);
    r.count("lookup_past_end_answered_ok", st.oob_lookup_ok);
    r.count("lookup_past_end_answered_err", st.oob_lookup_err);
    if bounds.len() == text.len() && text.len() > 1 {
        r.count("documents_one_symbol_per_record", 1);
    }
    if r.evaluations % 4999 == 1 {
        r.sample(json!({
            "kind": "doc",
            "family": family,
            "text": text,
            "bounds": bounds,
            "patterns_asked": st.patterns,
            "patterns_with_occurrences": st.patterns_present,
            "subject_calls": st.calls,
        }));
    }
}

fn bv_case(acc: &mut Acc, bits: Vec<bool>, reparse: bool) {
    let oracle = BitOracle::new(bits);
    let h = {
        let (first, lens) = to_runs(&oracle.bits);
        vcore::stable_hash(&("bv", first, lens))
    };
    acc.report.states.insert(h);
    if !oracle.ones.is_empty() && !oracle.zeros.is_empty() {
        acc.report.nontrivial.insert(h);
    }
    for name in IMPLS {
        if let Some(only) = ONLY_IMPL.get() {
            if only != name {
                continue;
            }
        }
        let mut st = BvStats::default();
        let mut out = vec![];
        check_bv_named(
            name,
            &oracle,
            &Probe::Every,
            reparse,
            &mut st,
            &mut acc.report.outcomes,
            &mut out,
        );
        acc.report.evaluations += 1;
        acc.report.traces_validated += 1;
        acc.report.transitions += st.calls;
        acc.report.count("bv_cases", 1);
        acc.report.count("bv_out_of_range_calls", st.out_of_range_calls);
        acc.report.count("bv_far_argument_ladders_stopped_at_slow_call", st.far_ladders_stopped);
        if acc.report.evaluations % 49999 == 2 {
            let (first, lens) = to_runs(&oracle.bits);
            acc.report.sample(json!({
                "kind": "bv",
                "impl": name,
                "len": oracle.len(),
                "first": first,
                "runs": lens,
                "subject_calls": st.calls,
            }));
        }
        confirm(acc, out);
    }
}

fn replay(rf: &Value) {
    let case = &rf["case"];
    let want = rf["signature"].as_str().unwrap_or("");
    println!("replaying case {case}");
    // show the observation next to the expectation even when they agree
    match case["kind"].as_str() {
        Some("doc") if case["invalid"].as_bool() != Some(true) => {
            let text: Vec<u32> = case["text"]
                .as_array()
                .unwrap()
                .iter()
                .map(|x| x.as_u64().unwrap() as u32)
                .collect();
            let bounds: Vec<usize> = case["bounds"]
                .as_array()
                .unwrap()
                .iter()
                .map(|x| x.as_u64().unwrap() as usize)
                .collect();
            let obs = vcore::catch(|| {
                let mut buf = Vec::new();
                let mut b = scrunch::builder::Builder::new(&mut buf);
                scrunch::CompressedDocument::construct(text.clone(), bounds.clone(), &mut b)
                    .map_err(|e| format!("construct: {e:?}"))?;
                drop(b);
                let doc = scrunch::CompressedDocument::unpack(&buf)
                    .map_err(|e| format!("unpack: {e:?}"))?
                    .0;
                let mut s = format!("len={} records={}", doc.len(), doc.records());
                if let Some(p) = case["pattern"].as_array() {
                    let p: Vec<u32> = p.iter().map(|x| x.as_u64().unwrap() as u32).collect();
                    let found = doc
                        .search(&p)
                        .map(|it| it.map(|t| t.0).collect::<Vec<_>>());
                    s += &format!(" search={:?} count={:?}", found, doc.count(&p));
                }
                Ok::<String, String>(s)
            });
            println!("observed (CompressedDocument): {obs:?}");
            let mut exp = vec![];
            if let Some(p) = case["pattern"].as_array() {
                let p: Vec<u32> = p.iter().map(|x| x.as_u64().unwrap() as u32).collect();
                naive_search(&text, &p, &mut exp);
                println!(
                    "expected (naive scan): len={} records={} search={:?} count={}",
                    text.len(),
                    bounds.len(),
                    exp,
                    exp.len()
                );
            } else {
                println!(
                    "expected (naive scan): len={} records={}",
                    text.len(),
                    bounds.len()
                );
            }
        }
        Some("bv") => {
            let first = case["first"].as_bool().unwrap_or(false);
            let lens: Vec<usize> = case["runs"]
                .as_array()
                .unwrap()
                .iter()
                .map(|x| x.as_u64().unwrap() as usize)
                .collect();
            let oracle = BitOracle::new(from_runs(first, &lens));
            if let (Some(op), Some(x)) = (case["op"].as_str(), case["arg"].as_u64()) {
                let op = Op::from_name(op).expect("op");
                println!(
                    "expected (Vec<bool> of {} bits): {}({x}) = {:?}",
                    oracle.len(),
                    op.name(),
                    oracle.expect(op, x as usize)
                );
            }
        }
        _ => {}
    }
    let findings = run_case(case);
    let mut hit = false;
    for f in findings.iter() {
        println!("finding {}: {}", f.sig, f.detail);
        if f.sig == want {
            hit = true;
        }
    }
    if findings.is_empty() {
        println!("no finding: the property holds on this case");
    }
    if hit {
        println!("REPRODUCED {want}");
        std::process::exit(1);
    }
    if want.is_empty() && !findings.is_empty() {
        std::process::exit(1);
    }
    let _: HashSet<u8> = HashSet::new();
    std::process::exit(0);
}
