// shared helpers for the scrunchmc harness binaries
