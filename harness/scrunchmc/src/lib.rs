//! C19 -- bounded-exhaustive checks of /repo/scrunch against boring oracles written here.
//!
//! Two subjects:
//!   * documents: `scrunch::CompressedDocument` (and, reported separately, the crate's own
//!     `ReferenceDocument`) against a naive scan of the original text (`naive_*` below);
//!   * bit vectors: every `scrunch::bit_vector::BitVector` implementation against a `Vec<bool>`
//!     (`BitOracle` below).
//!
//! Semantics the oracles encode (worked out from the crate; see the report's rule):
//!   access(i)  = Some(bit i)                      for i <  len, None otherwise
//!   rank(i)    = Some(#ones at positions < i)     for i <= len, None otherwise   (exclusive)
//!   rank0(i)   = Some(i - rank(i))                for i <= len, None otherwise
//!   select(k)  = Some(min{p : rank(p) = k})       i.e. select(0) = 0 and, for 1 <= k <= #ones,
//!                (0-based index of the k-th one) + 1; None for k > #ones
//!   select0(k) = the same over zeros.
//! The trait documentation only says "Select the x'th bit from this set.  An index."; the
//! position-plus-one convention comes from `ReferenceBitVector`, the crate's test tables and the
//! default implementation (binary search for the smallest p with rank(p) = k).

use std::collections::{BTreeMap, HashSet};

use buffertk::Unpackable;
use scrunch::bit_vector::BitVector;
use scrunch::builder::Builder;
use scrunch::{CompressedDocument, Document, Error, RecordOffset, ReferenceDocument, TextOffset};
use vcore::{Report, Value, Violation, json};

pub const PROPERTY: &str = "C19";

////////////////////////////////////////////// Finding /////////////////////////////////////////////

/// One failed comparison.  `size` orders findings of one signature so that the smallest case is
/// the one that is kept.
#[derive(Clone, Debug)]
pub struct Finding {
    pub sig: String,
    pub detail: String,
    pub case: Value,
    pub size: (usize, usize, usize),
}

/// Normalise a panic message: digits collapse so that one defect is one signature.
pub fn norm_panic(msg: &str) -> String {
    let mut out = String::new();
    let mut in_digits = false;
    for c in msg.chars() {
        if c.is_ascii_digit() {
            if !in_digits {
                out.push('N');
            }
            in_digits = true;
        } else {
            in_digits = false;
            out.push(c);
        }
    }
    if out.len() > 90 {
        let mut cut = 90;
        while !out.is_char_boundary(cut) {
            cut -= 1;
        }
        out.truncate(cut);
    }
    out
}

fn err_variant(e: &Error) -> String {
    let s = format!("{e:?}");
    s.split('(').next().unwrap_or("").to_string()
}

/////////////////////////////////////////// accumulation ///////////////////////////////////////////

/// Per-thread accumulator: a vcore::Report for the counters plus the smallest case per signature.
pub struct Acc {
    pub report: Report,
    pub best: BTreeMap<String, Vec<Finding>>,
    pub sig_counts: BTreeMap<String, u64>,
    pub non_reproducible: u64,
}

impl Acc {
    pub fn new(job: &str) -> Self {
        Acc {
            report: Report::new(job, PROPERTY),
            best: BTreeMap::new(),
            sig_counts: BTreeMap::new(),
            non_reproducible: 0,
        }
    }

    pub fn add(&mut self, f: Finding) {
        *self.sig_counts.entry(f.sig.clone()).or_insert(0) += 1;
        let v = self.best.entry(f.sig.clone()).or_default();
        v.push(f);
        v.sort_by_key(|f| f.size);
        v.truncate(2);
    }

    pub fn merge(&mut self, other: Acc) {
        self.report.merge(other.report);
        for (k, n) in other.sig_counts {
            *self.sig_counts.entry(k).or_insert(0) += n;
        }
        for (k, fs) in other.best {
            let v = self.best.entry(k).or_default();
            v.extend(fs);
            v.sort_by_key(|f| f.size);
            v.truncate(2);
        }
        self.non_reproducible += other.non_reproducible;
    }

    /// Move the kept findings into the report.
    pub fn seal(mut self) -> Report {
        for (sig, fs) in std::mem::take(&mut self.best) {
            for f in fs {
                self.report.violations.push(Violation {
                    property: PROPERTY.to_string(),
                    signature: sig.clone(),
                    detail: f.detail,
                    case: f.case,
                });
            }
        }
        self.report.violation_sigs = self.sig_counts.clone();
        if self.non_reproducible > 0 {
            self.report
                .count("non_reproducible_findings", self.non_reproducible);
        }
        self.report
    }
}

/// Run `work(item, acc)` over the items on `threads` threads, in item order (small first).  A
/// watchdog turns a hung subject call into a machinery exit (code 2) naming the item.
pub fn run_parallel<T: Sync>(
    items: &[T],
    threads: usize,
    job: &str,
    stall_secs: u64,
    describe: impl Fn(&T) -> String + Sync,
    work: impl Fn(&T, &mut Acc) + Sync,
) -> Acc {
    use std::sync::atomic::{AtomicBool, AtomicU64, AtomicUsize, Ordering};
    let threads = threads.max(1);
    let next = AtomicUsize::new(0);
    let done = AtomicBool::new(false);
    // per thread: item index + 1 (0 = idle/finished)
    let current: Vec<AtomicU64> = (0..threads).map(|_| AtomicU64::new(0)).collect();
    let mut total = Acc::new(job);
    let accs: Vec<Acc> = std::thread::scope(|s| {
        let mut hs = vec![];
        for t in 0..threads {
            let next = &next;
            let current = &current;
            let work = &work;
            hs.push(s.spawn(move || {
                let mut acc = Acc::new(job);
                loop {
                    let i = next.fetch_add(1, Ordering::Relaxed);
                    if i >= items.len() {
                        break;
                    }
                    current[t].store(i as u64 + 1, Ordering::Relaxed);
                    work(&items[i], &mut acc);
                }
                current[t].store(0, Ordering::Relaxed);
                acc
            }));
        }
        let current = &current;
        let done_ref = &done;
        let describe = &describe;
        s.spawn(move || {
            let mut last: Vec<(u64, std::time::Instant)> = (0..threads)
                .map(|_| (0, std::time::Instant::now()))
                .collect();
            while !done_ref.load(Ordering::Relaxed) {
                std::thread::sleep(std::time::Duration::from_millis(200));
                for t in 0..threads {
                    let c = current[t].load(Ordering::Relaxed);
                    if c != last[t].0 {
                        last[t] = (c, std::time::Instant::now());
                    } else if c != 0 && last[t].1.elapsed().as_secs() >= stall_secs {
                        eprintln!(
                            "MACHINERY: no progress for {stall_secs} s on item {}",
                            describe(&items[c as usize - 1])
                        );
                        std::process::exit(2);
                    }
                }
            }
        });
        let out: Vec<Acc> = hs
            .into_iter()
            .map(|h| h.join().expect("worker panicked"))
            .collect();
        done.store(true, Ordering::Relaxed);
        out
    });
    for a in accs {
        total.merge(a);
    }
    total
}

//////////////////////////////////////// far-out arguments ////////////////////////////////////////

/// A subject call that takes longer than this, twice in a row, on an argument that names nothing
/// is reported as taking time that grows with the argument (the ladder below then stops, so the
/// harness never reaches the magnitudes at which such a call would not return).
pub const SLOW: std::time::Duration = std::time::Duration::from_millis(100);

/// Arguments far past any valid range, ascending: every call must fail fast.
pub fn far_ladder() -> Vec<usize> {
    let mut v: Vec<usize> = vec![1 << 16, 1 << 20];
    for k in 22..=26 {
        v.push(1 << k);
    }
    v.extend([
        1 << 28,
        1 << 30,
        u32::MAX as usize,
        u32::MAX as usize + 1,
        1 << 40,
        1 << 48,
        usize::MAX / 64,
        (1 << 62) + 2,
        (1 << 62) + 3,
        usize::MAX / 2,
        (1 << 63) + 2,
        (1 << 63) + 3,
        usize::MAX - 1,
        usize::MAX,
    ]);
    v
}

/// Run `f` and say how long it took; a slow call is measured a second time and the smaller time
/// counts (a descheduled thread is not a slow subject).
pub fn timed<R>(mut f: impl FnMut() -> R) -> (R, std::time::Duration) {
    let t0 = ticks();
    let r = f();
    let d1 = ticks_to_duration(ticks().wrapping_sub(t0));
    if d1 <= SLOW {
        return (r, d1);
    }
    let t1 = std::time::Instant::now();
    let r2 = f();
    let d2 = t1.elapsed();
    let _ = r;
    (r2, d1.min(d2))
}

/// A cheap monotonic tick counter (the time-stamp counter where there is one).
#[cfg(target_arch = "x86_64")]
fn ticks() -> u64 {
    // SAFETY: rdtsc has no preconditions.
    unsafe { core::arch::x86_64::_rdtsc() }
}

#[cfg(not(target_arch = "x86_64"))]
fn ticks() -> u64 {
    static START: std::sync::OnceLock<std::time::Instant> = std::sync::OnceLock::new();
    START.get_or_init(std::time::Instant::now).elapsed().as_nanos() as u64
}

fn ticks_to_duration(t: u64) -> std::time::Duration {
    static PER_US: std::sync::OnceLock<f64> = std::sync::OnceLock::new();
    let per_us = *PER_US.get_or_init(|| {
        let t0 = ticks();
        let i0 = std::time::Instant::now();
        while i0.elapsed() < std::time::Duration::from_millis(5) {
            std::hint::spin_loop();
        }
        let dt = ticks().wrapping_sub(t0) as f64;
        (dt / (i0.elapsed().as_secs_f64() * 1e6)).max(1e-3)
    });
    std::time::Duration::from_nanos((t as f64 / per_us * 1e3) as u64)
}

///////////////////////////////////////////// documents ////////////////////////////////////////////

/// The naive scan: positions at which `pat` occurs in `text`.  The empty pattern follows the
/// crate's stated convention ("everything except the artificial end marker"): every offset
/// 0..len, not len itself.
pub fn naive_search(text: &[u32], pat: &[u32], out: &mut Vec<usize>) {
    out.clear();
    let n = text.len();
    let m = pat.len();
    if m == 0 {
        out.extend(0..n);
        return;
    }
    if m > n {
        return;
    }
    let mut i = 0;
    while i + m <= n {
        let mut j = 0;
        while j < m && text[i + j] == pat[j] {
            j += 1;
        }
        if j == m {
            out.push(i);
        }
        i += 1;
    }
}

/// The record that holds `offset` (offset < len), by walking the boundaries.
pub fn naive_lookup(bounds: &[usize], offset: usize) -> usize {
    let mut rec = 0;
    for (r, b) in bounds.iter().enumerate() {
        if *b <= offset {
            rec = r;
        }
    }
    rec
}

pub fn naive_record<'a>(text: &'a [u32], bounds: &[usize], r: usize) -> &'a [u32] {
    let start = bounds[r];
    let limit = if r + 1 < bounds.len() {
        bounds[r + 1]
    } else {
        text.len()
    };
    &text[start..limit]
}

/// Which patterns a document is asked.
#[derive(Clone, Debug)]
pub enum PatPlan {
    /// every pattern of length 0..=max_len over `symbols`, then the `extra` patterns
    All {
        symbols: Vec<u32>,
        max_len: usize,
        extra: Vec<Vec<u32>>,
    },
    /// an explicit list (long structured texts)
    List(Vec<Vec<u32>>),
    /// a single pattern (replay)
    Single(Vec<u32>),
    None,
}

pub fn for_each_pattern(plan: &PatPlan, mut f: impl FnMut(&[u32])) {
    match plan {
        PatPlan::None => {}
        PatPlan::Single(p) => f(p),
        PatPlan::List(ps) => {
            for p in ps {
                f(p);
            }
        }
        PatPlan::All {
            symbols,
            max_len,
            extra,
        } => {
            let k = symbols.len();
            let mut pat: Vec<u32> = vec![];
            f(&pat);
            for m in 1..=*max_len {
                let mut digits = vec![0usize; m];
                pat.clear();
                pat.resize(m, symbols[0]);
                loop {
                    f(&pat);
                    // increment the odometer
                    let mut pos = m;
                    let mut carried_out = true;
                    while pos > 0 {
                        pos -= 1;
                        digits[pos] += 1;
                        if digits[pos] < k {
                            pat[pos] = symbols[digits[pos]];
                            carried_out = false;
                            break;
                        }
                        digits[pos] = 0;
                        pat[pos] = symbols[0];
                    }
                    if carried_out {
                        break;
                    }
                }
            }
            for p in extra {
                f(p);
            }
        }
    }
}

/// The reduced pattern set used where the full product (texts x boundary sets x patterns) is
/// over budget: every pattern of length <= 2 over `symbols`, every substring of the text (so
/// every occurrence that crosses a record boundary is asked for), and every substring extended by
/// one symbol of `symbols` on either side (the shortest absent patterns), plus `extra`.
pub fn reduced_patterns(text: &[u32], symbols: &[u32], extra: &[Vec<u32>]) -> Vec<Vec<u32>> {
    let mut out: Vec<Vec<u32>> = vec![];
    for_each_pattern(
        &PatPlan::All {
            symbols: symbols.to_vec(),
            max_len: 2,
            extra: vec![],
        },
        |p| out.push(p.to_vec()),
    );
    let n = text.len();
    for i in 0..n {
        for j in i + 1..=n {
            let sub = &text[i..j];
            out.push(sub.to_vec());
            for s in symbols {
                let mut a = vec![*s];
                a.extend_from_slice(sub);
                out.push(a);
                let mut b = sub.to_vec();
                b.push(*s);
                out.push(b);
            }
        }
    }
    out.extend(extra.iter().cloned());
    out.sort();
    out.dedup();
    out
}

#[derive(Default, Clone, Debug)]
pub struct DocStats {
    pub calls: u64,
    pub patterns: u64,
    pub patterns_present: u64,
    pub occurrences: u64,
    pub occurrences_crossing_boundary: u64,
    pub oob_lookup_ok: u64,
    pub oob_lookup_err: u64,
    pub ref_pattern_checks: u64,
}

fn doc_case(text: &[u32], bounds: &[usize], pat: Option<&[u32]>) -> Value {
    json!({
        "kind": "doc",
        "text": text,
        "bounds": bounds,
        "pattern": pat,
    })
}

/// A slice for a message: whole when short, else its head and length (the replay case holds
/// everything).
fn show<T: std::fmt::Debug>(v: &[T]) -> String {
    if v.len() <= 48 {
        format!("{v:?}")
    } else {
        format!("{:?}..({} items)", &v[..24], v.len())
    }
}

struct DocCtx<'a> {
    text: &'a [u32],
    bounds: &'a [usize],
    distinct: Vec<u32>,
}

impl DocCtx<'_> {
    fn finding(&self, sig: String, detail: String, pat: Option<&[u32]>) -> Finding {
        Finding {
            sig,
            detail: format!(
                "{detail}; text={} bounds={}{}",
                show(self.text),
                show(self.bounds),
                match pat {
                    Some(p) => format!(" pattern={}", show(p)),
                    None => String::new(),
                }
            ),
            case: doc_case(self.text, self.bounds, pat),
            size: (
                self.text.len(),
                self.bounds.len(),
                pat.map(|p| p.len()).unwrap_or(0),
            ),
        }
    }

    fn pat_class(&self, pat: &[u32], expected: &[usize]) -> &'static str {
        if pat.is_empty() {
            "empty-pattern"
        } else if pat.len() > self.text.len() {
            "pattern-longer-than-text"
        } else if pat.iter().any(|s| self.distinct.binary_search(s).is_err()) {
            "pattern-with-absent-symbol"
        } else if expected.is_empty() {
            "pattern-absent"
        } else {
            "pattern-present"
        }
    }
}

/// Compare one `Result`-returning call with its expectation; the signature carries the operation,
/// the way it failed and the class of the argument.
fn judge<T: PartialEq + std::fmt::Debug>(
    subj: &str,
    op: &str,
    class: &str,
    observed: Result<Result<T, Error>, String>,
    expected: Option<&T>, // None: an error is expected (anything but a panic or Ok)
) -> Option<(String, String)> {
    match (observed, expected) {
        (Err(p), _) => Some((
            format!("{subj}:{op}:panic({}):{class}", norm_panic(&p)),
            format!("{op} panicked: {p}; expected {expected:?}"),
        )),
        (Ok(Err(e)), Some(x)) => Some((
            format!("{subj}:{op}:err({}):{class}", err_variant(&e)),
            format!("{op} returned Err({e:?}); expected {x:?}"),
        )),
        (Ok(Ok(got)), Some(x)) => {
            if &got == x {
                None
            } else {
                Some((
                    format!("{subj}:{op}:wrong-answer:{class}"),
                    format!("{op} returned {got:?}; expected {x:?}"),
                ))
            }
        }
        (Ok(Err(_)), None) => None,
        (Ok(Ok(got)), None) => Some((
            format!("{subj}:{op}:accepted-out-of-range:{class}"),
            format!("{op} returned Ok({got:?}) for an argument that names nothing; expected an error"),
        )),
    }
}

fn check_structure<D: Document>(
    subj: &str,
    d: &D,
    cx: &DocCtx,
    st: &mut DocStats,
    outcomes: &mut HashSet<u64>,
    out: &mut Vec<Finding>,
) {
    let text = cx.text;
    let bounds = cx.bounds;
    let n = text.len();
    // len / is_empty / records
    st.calls += 3;
    match vcore::catch(|| (d.len(), d.is_empty(), d.records())) {
        Err(p) => out.push(cx.finding(
            format!("{subj}:len-records:panic({})", norm_panic(&p)),
            format!("len/is_empty/records panicked: {p}"),
            None,
        )),
        Ok((l, e, r)) => {
            outcomes.insert(vcore::stable_hash(&("len", l, e, r)));
            if l != n {
                out.push(cx.finding(
                    format!("{subj}:len:wrong-answer"),
                    format!("len() = {l}; expected {n}"),
                    None,
                ));
            }
            if e != (n == 0) {
                out.push(cx.finding(
                    format!("{subj}:is_empty:wrong-answer"),
                    format!("is_empty() = {e}; expected {}", n == 0),
                    None,
                ));
            }
            if r != bounds.len() {
                out.push(cx.finding(
                    format!("{subj}:records:wrong-answer"),
                    format!("records() = {r}; expected {}", bounds.len()),
                    None,
                ));
            }
        }
    }
    // lookup at every offset; the expectation is one sweep over the records
    let mut record_of = vec![0usize; n];
    let mut starts = vec![false; n + 2];
    for (r, b) in bounds.iter().enumerate() {
        let limit = if r + 1 < bounds.len() { bounds[r + 1] } else { n };
        for slot in record_of.iter_mut().take(limit).skip(*b) {
            *slot = r;
        }
        starts[*b] = true;
    }
    if n <= 16 {
        for (off, r) in record_of.iter().enumerate() {
            assert_eq!(*r, naive_lookup(bounds, off), "the two naive lookups disagree");
        }
    }
    for off in 0..n {
        st.calls += 1;
        let obs = vcore::catch(|| d.lookup(TextOffset(off)).map(|r| r.0));
        if let Ok(Ok(r)) = &obs {
            if off < 256 {
                outcomes.insert(vcore::stable_hash(&("lookup", off, *r)));
            }
        }
        let exp = record_of[off];
        let class = if starts[off] {
            "offset-is-record-start"
        } else if starts[off + 1] {
            "offset-is-record-end"
        } else {
            "offset-inside-record"
        };
        if let Some((sig, detail)) = judge(subj, "lookup", class, obs, Some(&exp)) {
            out.push(cx.finding(sig, format!("offset {off}: {detail}"), None));
        }
    }
    // offsets that name no symbol: anything but a panic is admitted (the property is silent)
    for off in [n, n + 1, usize::MAX] {
        st.calls += 1;
        match vcore::catch(|| d.lookup(TextOffset(off)).map(|r| r.0)) {
            Err(p) => out.push(cx.finding(
                format!("{subj}:lookup:panic({}):offset-past-end", norm_panic(&p)),
                format!("lookup({off}) panicked: {p}; expected an error or a record"),
                None,
            )),
            Ok(Ok(_)) => {
                if subj == "doc" {
                    st.oob_lookup_ok += 1
                }
            }
            Ok(Err(_)) => {
                if subj == "doc" {
                    st.oob_lookup_err += 1
                }
            }
        }
    }
    // offset_of and retrieve of every record, and of records that do not exist
    for r in 0..bounds.len() {
        st.calls += 2;
        let obs = vcore::catch(|| d.offset_of(RecordOffset(r)).map(|t| t.0));
        let class = if r == 0 {
            "first-record"
        } else if r + 1 == bounds.len() {
            "last-record"
        } else {
            "middle-record"
        };
        if let Some((sig, detail)) = judge(subj, "offset_of", class, obs, Some(&bounds[r])) {
            out.push(cx.finding(sig, format!("record {r}: {detail}"), None));
        }
        let obs = vcore::catch(|| d.retrieve(RecordOffset(r)));
        if let Ok(Ok(v)) = &obs {
            if r < 256 && v.len() <= 256 {
                outcomes.insert(vcore::stable_hash(&("retrieve", v)));
            }
        }
        let exp = naive_record(text, bounds, r).to_vec();
        if let Some((sig, detail)) = judge(subj, "retrieve", class, obs, Some(&exp)) {
            out.push(cx.finding(sig, format!("record {r}: {detail}"), None));
        }
    }
    for r in [bounds.len(), bounds.len() + 1, bounds.len() + 16, 2 * n + 1] {
        st.calls += 2;
        let obs = vcore::catch(|| d.offset_of(RecordOffset(r)).map(|t| t.0));
        if let Some((sig, detail)) = judge(subj, "offset_of", "record-past-end", obs, None) {
            out.push(cx.finding(sig, format!("record {r}: {detail}"), None));
        }
        let obs = vcore::catch(|| d.retrieve(RecordOffset(r)));
        if let Some((sig, detail)) = judge(subj, "retrieve", "record-past-end", obs, None) {
            out.push(cx.finding(sig, format!("record {r}: {detail}"), None));
        }
    }
    // records far past the end, ascending; a call whose time grows with the number stops the ladder
    for op in ["offset_of", "retrieve"] {
        if subj == "doc-reparsed" {
            // the argument checks do not depend on where the bytes live: first parse only
            break;
        }
        let mut seen: HashSet<String> = HashSet::new();
        let mut prev: Option<(usize, std::time::Duration)> = None;
        for r in far_ladder() {
            if r <= 2 * n + 1 {
                // still a record (or already asked above) in a long text
                continue;
            }
            st.calls += 1;
            let (obs, dt) = timed(|| {
                vcore::catch(|| {
                    if op == "offset_of" {
                        d.offset_of(RecordOffset(r)).map(|t| vec![t.0 as u32])
                    } else {
                        d.retrieve(RecordOffset(r))
                    }
                })
            });
            if let Some((sig, detail)) = judge(subj, op, "record-far-past-end", obs, None) {
                if seen.insert(sig.clone()) {
                    out.push(cx.finding(sig, format!("record {r}: {detail}"), None));
                }
            }
            if dt > SLOW {
                out.push(cx.finding(
                    format!("{subj}:{op}:time-grows-with-argument:record-far-past-end"),
                    format!(
                        "{op}(record {r}) took {:.1} ms (measured twice, smaller value){}; it must fail fast",
                        dt.as_secs_f64() * 1e3,
                        match prev {
                            Some((pr, pd)) => format!(
                                ", the previous step {op}(record {pr}) took {:.3} ms",
                                pd.as_secs_f64() * 1e3
                            ),
                            None => String::new(),
                        }
                    ),
                    None,
                ));
                break;
            }
            prev = Some((r, dt));
        }
    }
}

fn check_one_pattern<D: Document>(
    subj: &str,
    d: &D,
    cx: &DocCtx,
    pat: &[u32],
    expected: &[usize],
    st: &mut DocStats,
    outcomes: &mut HashSet<u64>,
    out: &mut Vec<Finding>,
) {
    st.calls += 2;
    let class = cx.pat_class(pat, expected);
    // search, as a sorted set
    let obs = vcore::catch(|| {
        d.search(pat)
            .map(|it| it.map(|t| t.0).collect::<Vec<usize>>())
    });
    match obs {
        Ok(Ok(mut got)) => {
            got.sort();
            if !got.is_empty() {
                outcomes.insert(vcore::stable_hash(&("search", &got)));
            }
            if got.as_slice() != expected {
                let dup = got.windows(2).any(|w| w[0] == w[1]);
                let missing = expected.iter().any(|p| !got.contains(p));
                let extra = got.iter().any(|p| !expected.contains(p));
                let how = match (dup, missing, extra) {
                    (_, true, true) => "missing-and-extra-positions",
                    (_, true, false) => "missing-positions",
                    (_, false, true) => "extra-positions",
                    (true, false, false) => "duplicate-positions",
                    _ => "differs",
                };
                out.push(cx.finding(
                    format!("{subj}:search:{how}:{class}"),
                    format!("search returned {got:?}; the naive scan finds {expected:?}"),
                    Some(pat),
                ));
            }
        }
        other => {
            let exp = expected.to_vec();
            if let Some((sig, detail)) = judge(subj, "search", class, other, Some(&exp)) {
                out.push(cx.finding(sig, detail, Some(pat)));
            }
        }
    }
    // count
    let obs = vcore::catch(|| d.count(pat));
    if let Ok(Ok(c)) = &obs {
        if *c > 0 {
            outcomes.insert(vcore::stable_hash(&("count", *c)));
        }
    }
    if let Some((sig, detail)) = judge(subj, "count", class, obs, Some(&expected.len())) {
        out.push(cx.finding(sig, detail, Some(pat)));
    }
}

fn construct_with<D: Document>(text: &[u32], bounds: &[usize]) -> Result<Result<Vec<u8>, Error>, String> {
    vcore::catch(|| {
        let mut buf = Vec::new();
        let mut builder = Builder::new(&mut buf);
        let r = D::construct(text.to_vec(), bounds.to_vec(), &mut builder);
        drop(builder);
        r.map(|_| buf)
    })
}

/// Everything that is asked of one document (text + record boundaries, both valid for the
/// crate's API: boundaries start at 0, strictly increase and stay below the text length).
///
/// `ref_patterns`: also ask the crate's ReferenceDocument every pattern (its search ignores the
/// boundaries by construction, so the driver asks it once per text).
/// `reparse_full`: ask the re-parsed copy every pattern too (replay); otherwise it is asked the
/// structural queries, every pattern of length <= 2 and the whole text.
pub fn check_doc(
    text: &[u32],
    bounds: &[usize],
    plan: &PatPlan,
    ref_patterns: bool,
    reparse_full: bool,
    st: &mut DocStats,
    outcomes: &mut HashSet<u64>,
    out: &mut Vec<Finding>,
) {
    let mut distinct: Vec<u32> = text.to_vec();
    distinct.sort();
    distinct.dedup();
    let cx = DocCtx {
        text,
        bounds,
        distinct,
    };
    let trace = std::env::var_os("SCRUNCHMC_TRACE").is_some();
    let t_start = std::time::Instant::now();
    let lap = |what: &str| {
        if trace {
            eprintln!("  [{:8.3} s] {what} (n={}, records={})", t_start.elapsed().as_secs_f64(), text.len(), bounds.len());
        }
    };
    // the crate's reference
    let rbuf = match construct_with::<ReferenceDocument>(text, bounds) {
        Ok(Ok(b)) => Some(b),
        Ok(Err(e)) => {
            out.push(cx.finding(
                format!("refdoc:construct:err({})", err_variant(&e)),
                format!("ReferenceDocument::construct returned Err({e:?}) for a valid text"),
                None,
            ));
            None
        }
        Err(p) => {
            out.push(cx.finding(
                format!("refdoc:construct:panic({})", norm_panic(&p)),
                format!("ReferenceDocument::construct panicked: {p}"),
                None,
            ));
            None
        }
    };
    let cbuf = match construct_with::<CompressedDocument>(text, bounds) {
        Ok(Ok(b)) => Some(b),
        Ok(Err(e)) => {
            out.push(cx.finding(
                format!("doc:construct:err({})", err_variant(&e)),
                format!("CompressedDocument::construct returned Err({e:?}) for a valid text"),
                None,
            ));
            None
        }
        Err(p) => {
            out.push(cx.finding(
                format!("doc:construct:panic({})", norm_panic(&p)),
                format!("CompressedDocument::construct panicked: {p}"),
                None,
            ));
            None
        }
    };
    st.calls += 2;
    lap("constructed reference + compressed");
    let reference = match &rbuf {
        Some(b) => match vcore::catch(|| ReferenceDocument::unpack(b).map(|x| x.0)) {
            Ok(Ok(d)) => Some(d),
            Ok(Err(e)) => {
                out.push(cx.finding(
                    format!("refdoc:unpack:err({})", err_variant(&e)),
                    format!("ReferenceDocument::unpack of its own bytes returned Err({e:?})"),
                    None,
                ));
                None
            }
            Err(p) => {
                out.push(cx.finding(
                    format!("refdoc:unpack:panic({})", norm_panic(&p)),
                    format!("ReferenceDocument::unpack panicked: {p}"),
                    None,
                ));
                None
            }
        },
        None => None,
    };
    if let Some(r) = &reference {
        check_structure("refdoc", r, &cx, st, outcomes, out);
    }
    let Some(cbuf) = cbuf else {
        return;
    };
    // serialising twice gives the same bytes
    if let Ok(Ok(again)) = construct_with::<CompressedDocument>(text, bounds) {
        st.calls += 1;
        if again != cbuf {
            out.push(cx.finding(
                "doc:construct:bytes-differ-between-runs".into(),
                "two constructions of the same document produced different bytes".into(),
                None,
            ));
        }
    }
    lap("reference structure checked, second construct done");
    // a second parse, from a copy at a different address/alignment
    let mut shifted = vec![0xa5u8];
    shifted.extend_from_slice(&cbuf);
    st.calls += 2;
    let doc_a = match vcore::catch(|| CompressedDocument::unpack(&cbuf)) {
        Ok(Ok((d, rest))) => {
            if !rest.is_empty() {
                out.push(cx.finding(
                    "doc:unpack:leftover-bytes".into(),
                    format!("unpack left {} bytes unread", rest.len()),
                    None,
                ));
            }
            Some(d)
        }
        Ok(Err(e)) => {
            out.push(cx.finding(
                format!("doc:unpack:err({})", err_variant(&e)),
                format!("CompressedDocument::unpack of freshly constructed bytes returned Err({e:?})"),
                None,
            ));
            None
        }
        Err(p) => {
            out.push(cx.finding(
                format!("doc:unpack:panic({})", norm_panic(&p)),
                format!("CompressedDocument::unpack panicked: {p}"),
                None,
            ));
            None
        }
    };
    let doc_b = match vcore::catch(|| CompressedDocument::unpack(&shifted[1..])) {
        Ok(Ok((d, _))) => Some(d),
        Ok(Err(e)) => {
            out.push(cx.finding(
                format!("doc-reparsed:unpack:err({})", err_variant(&e)),
                format!("second unpack of the same bytes returned Err({e:?})"),
                None,
            ));
            None
        }
        Err(p) => {
            out.push(cx.finding(
                format!("doc-reparsed:unpack:panic({})", norm_panic(&p)),
                format!("second unpack of the same bytes panicked: {p}"),
                None,
            ));
            None
        }
    };
    lap("unpacked twice");
    if let Some(d) = &doc_a {
        check_structure("doc", d, &cx, st, outcomes, out);
    }
    lap("structure of first parse checked");
    if let Some(d) = &doc_b {
        check_structure("doc-reparsed", d, &cx, st, outcomes, out);
    }
    lap("structure of second parse checked");
    // patterns
    let mut expected: Vec<usize> = vec![];
    for_each_pattern(plan, |pat| {
        naive_search(text, pat, &mut expected);
        st.patterns += 1;
        if !expected.is_empty() && !pat.is_empty() {
            st.patterns_present += 1;
            st.occurrences += expected.len() as u64;
            for p in expected.iter() {
                // a boundary strictly inside the occurrence
                let i = bounds.partition_point(|b| *b <= *p);
                if i < bounds.len() && bounds[i] < *p + pat.len() {
                    st.occurrences_crossing_boundary += 1;
                }
            }
        }
        if let Some(d) = &doc_a {
            check_one_pattern("doc", d, &cx, pat, &expected, st, outcomes, out);
        }
        if let Some(d) = &doc_b {
            if reparse_full || pat.len() <= 2 || pat == text {
                check_one_pattern("doc-reparsed", d, &cx, pat, &expected, st, outcomes, out);
            }
        }
        if ref_patterns {
            if let Some(r) = &reference {
                st.ref_pattern_checks += 1;
                check_one_pattern("refdoc", r, &cx, pat, &expected, st, outcomes, out);
            }
        }
    });
    lap("patterns done");
    // the re-parsed copy is reported only where it fails differently from the first parse
    let first: HashSet<String> = out
        .iter()
        .filter_map(|f| f.sig.strip_prefix("doc:").map(|s| s.to_string()))
        .collect();
    out.retain(|f| match f.sig.strip_prefix("doc-reparsed:") {
        Some(rest) => !first.contains(rest),
        None => true,
    });
}

/// Inputs outside the crate's API domain: both document types must refuse them with an error
/// (never a panic), and agree with each other.  Returns (reference verdict, compressed verdict).
pub fn check_rejection(
    text: &[u32],
    bounds: &[usize],
    st: &mut DocStats,
    out: &mut Vec<Finding>,
) -> (bool, bool) {
    let cx = DocCtx {
        text,
        bounds,
        distinct: vec![],
    };
    st.calls += 2;
    let r = construct_with::<ReferenceDocument>(text, bounds);
    let c = construct_with::<CompressedDocument>(text, bounds);
    let mut verdict = |subj: &str, x: &Result<Result<Vec<u8>, Error>, String>| -> bool {
        match x {
            Err(p) => {
                out.push(cx.finding(
                    format!("{subj}:construct:panic({}):invalid-boundaries", norm_panic(p)),
                    format!("construct panicked on boundaries outside the API domain: {p}"),
                    None,
                ));
                false
            }
            Ok(Ok(_)) => true,
            Ok(Err(_)) => false,
        }
    };
    let ra = verdict("refdoc", &r);
    let ca = verdict("doc", &c);
    if ra != ca && r.is_ok() && c.is_ok() {
        out.push(cx.finding(
            "doc:construct:accepts-differently-from-reference:invalid-boundaries".into(),
            format!("ReferenceDocument accepted = {ra}, CompressedDocument accepted = {ca}"),
            None,
        ));
    }
    (ra, ca)
}

//////////////////////////////////////////// bit vectors ///////////////////////////////////////////

pub struct BitOracle {
    pub bits: Vec<bool>,
    pub ranks: Vec<usize>,
    pub ones: Vec<usize>,
    pub zeros: Vec<usize>,
}

impl BitOracle {
    pub fn new(bits: Vec<bool>) -> Self {
        let mut ranks = Vec::with_capacity(bits.len() + 1);
        let mut ones = vec![];
        let mut zeros = vec![];
        let mut r = 0;
        for (i, b) in bits.iter().enumerate() {
            ranks.push(r);
            if *b {
                r += 1;
                ones.push(i);
            } else {
                zeros.push(i);
            }
        }
        ranks.push(r);
        BitOracle {
            bits,
            ranks,
            ones,
            zeros,
        }
    }

    pub fn len(&self) -> usize {
        self.bits.len()
    }
}

#[derive(Clone, Copy, Debug, PartialEq, Eq, Hash, PartialOrd, Ord)]
pub enum Op {
    Access,
    Rank,
    Rank0,
    Select,
    Select0,
    AccessRank,
}

impl Op {
    pub const ALL: [Op; 6] = [
        Op::Access,
        Op::Rank,
        Op::Rank0,
        Op::Select,
        Op::Select0,
        Op::AccessRank,
    ];

    pub fn name(&self) -> &'static str {
        match self {
            Op::Access => "access",
            Op::Rank => "rank",
            Op::Rank0 => "rank0",
            Op::Select => "select",
            Op::Select0 => "select0",
            Op::AccessRank => "access_rank",
        }
    }

    pub fn from_name(s: &str) -> Option<Op> {
        Op::ALL.iter().copied().find(|o| o.name() == s)
    }
}

/// What a call answered.
#[derive(Clone, Debug, PartialEq, Eq, Hash)]
pub enum Ans {
    None,
    Bool(bool),
    Num(usize),
    Pair(bool, usize),
    Panic(String),
}

impl BitOracle {
    /// The admissible answers (one, except for access_rank at len where the crate's own
    /// implementations differ and the trait says nothing).
    pub fn expect(&self, op: Op, x: usize) -> (Ans, Option<Ans>) {
        let n = self.len();
        match op {
            Op::Access => (
                if x < n {
                    Ans::Bool(self.bits[x])
                } else {
                    Ans::None
                },
                None,
            ),
            Op::Rank => (
                if x <= n {
                    Ans::Num(self.ranks[x])
                } else {
                    Ans::None
                },
                None,
            ),
            Op::Rank0 => (
                if x <= n {
                    Ans::Num(x - self.ranks[x])
                } else {
                    Ans::None
                },
                None,
            ),
            Op::Select => (
                if x == 0 {
                    Ans::Num(0)
                } else if x <= self.ones.len() {
                    Ans::Num(self.ones[x - 1] + 1)
                } else {
                    Ans::None
                },
                None,
            ),
            Op::Select0 => (
                if x == 0 {
                    Ans::Num(0)
                } else if x <= self.zeros.len() {
                    Ans::Num(self.zeros[x - 1] + 1)
                } else {
                    Ans::None
                },
                None,
            ),
            Op::AccessRank => {
                if x < n {
                    (Ans::Pair(self.bits[x], self.ranks[x]), None)
                } else if x == n {
                    (Ans::None, Some(Ans::Pair(false, self.ranks[n])))
                } else {
                    (Ans::None, None)
                }
            }
        }
    }

    /// Is `x` an argument for which `op` must answer?
    fn arg_class(&self, op: Op, x: usize) -> &'static str {
        let n = self.len();
        let limit = match op {
            Op::Access | Op::AccessRank => {
                if x < n {
                    return "index-in-range";
                }
                n
            }
            Op::Rank | Op::Rank0 => {
                if x < n {
                    return "index-in-range";
                }
                if x == n {
                    return "index-equals-len";
                }
                n
            }
            Op::Select => {
                if x == 0 {
                    return "k-zero";
                }
                if x <= self.ones.len() {
                    return "k-in-range";
                }
                self.ones.len()
            }
            Op::Select0 => {
                if x == 0 {
                    return "k-zero";
                }
                if x <= self.zeros.len() {
                    return "k-in-range";
                }
                self.zeros.len()
            }
        };
        if x == limit {
            "arg-equals-len"
        } else if x <= n.saturating_add(64) {
            "arg-just-past-range"
        } else {
            "arg-far-past-range"
        }
    }
}

fn call<BV: BitVector>(bv: &BV, op: Op, x: usize) -> Ans {
    let r = vcore::catch(|| match op {
        Op::Access => bv.access(x).map(Ans::Bool),
        Op::Rank => bv.rank(x).map(Ans::Num),
        Op::Rank0 => bv.rank0(x).map(Ans::Num),
        Op::Select => bv.select(x).map(Ans::Num),
        Op::Select0 => bv.select0(x).map(Ans::Num),
        Op::AccessRank => bv.access_rank(x).map(|(a, r)| Ans::Pair(a, r)),
    });
    match r {
        Ok(Some(a)) => a,
        Ok(None) => Ans::None,
        Err(p) => Ans::Panic(p),
    }
}

/// Run-length form of a bit vector: the replay artefact.
pub fn to_runs(bits: &[bool]) -> (bool, Vec<usize>) {
    let first = bits.first().copied().unwrap_or(false);
    let mut lens = vec![];
    let mut cur = first;
    let mut n = 0usize;
    for b in bits {
        if *b == cur {
            n += 1;
        } else {
            lens.push(n);
            cur = *b;
            n = 1;
        }
    }
    if n > 0 {
        lens.push(n);
    }
    (first, lens)
}

pub fn from_runs(first: bool, lens: &[usize]) -> Vec<bool> {
    let mut bits = Vec::with_capacity(lens.iter().sum());
    let mut cur = first;
    for l in lens {
        for _ in 0..*l {
            bits.push(cur);
        }
        cur = !cur;
    }
    bits
}

#[derive(Default, Clone, Debug)]
pub struct BvStats {
    pub calls: u64,
    pub out_of_range_calls: u64,
    pub far_ladders_stopped: u64,
}

/// The arguments that name nothing, for a vector of `n` bits whose in-range arguments end at
/// `limit` (n for access, n for rank, #ones for select).
fn out_of_range_args(n: usize, limit: usize) -> Vec<usize> {
    let mut v = vec![
        limit + 1,
        limit + 2,
        n + 1,
        n + 2,
        n + 63,
        n + 64,
        n + 65,
        2 * n + 1,
    ];
    v.retain(|x| *x > limit);
    v.sort();
    v.dedup();
    v
}

pub enum Probe {
    /// every index / every k, plus the out-of-range arguments
    Every,
    /// a single call (replay)
    One(Op, usize),
}

/// Check one implementation on one vector.  At most one finding per signature is produced (the
/// one with the smallest argument).
pub fn check_bv<BV: BitVector>(
    name: &str,
    oracle: &BitOracle,
    probe: &Probe,
    reparse: bool,
    st: &mut BvStats,
    outcomes: &mut HashSet<u64>,
    out: &mut Vec<Finding>,
) {
    let bits = &oracle.bits;
    let n = bits.len();
    let mk = |sig: String, detail: String, op: Option<(Op, usize)>| -> Finding {
        let (first, lens) = to_runs(bits);
        let shown = if n <= 80 {
            bits.iter().map(|b| if *b { '1' } else { '0' }).collect::<String>()
        } else {
            format!("runs(first={first}, lens={lens:?})")
        };
        Finding {
            sig,
            detail: format!("{name}: {detail}; vector of {n} bits = {shown}"),
            case: json!({
                "kind": "bv",
                "impl": name,
                "first": first,
                "runs": lens,
                "op": op.map(|(o, _)| o.name()),
                "arg": op.map(|(_, x)| x as u64),
            }),
            size: (n, lens.len(), op.map(|(_, x)| x).unwrap_or(0)),
        }
    };
    st.calls += 2;
    let built = vcore::catch(|| {
        let mut buf = Vec::new();
        let mut builder = Builder::new(&mut buf);
        let r = BV::construct(bits, &mut builder);
        drop(builder);
        r.map(|_| buf)
    });
    let buf = match built {
        Ok(Ok(b)) => b,
        Ok(Err(e)) => {
            out.push(mk(
                format!("bv:{name}:construct:err({})", err_variant(&e)),
                format!("construct returned Err({e:?})"),
                None,
            ));
            return;
        }
        Err(p) => {
            out.push(mk(
                format!("bv:{name}:construct:panic({})", norm_panic(&p)),
                format!("construct panicked: {p}"),
                None,
            ));
            return;
        }
    };
    let mut shifted = vec![0x5au8];
    let bufs: Vec<(&str, &[u8])> = if reparse {
        shifted.extend_from_slice(&buf);
        vec![("", &buf[..]), ("reparsed:", &shifted[1..])]
    } else {
        vec![("", &buf[..])]
    };
    let mut first_pass: HashSet<String> = HashSet::new();
    for (tag, b) in bufs {
        let parsed = vcore::catch(|| BV::parse(b).map(|x| x.0));
        let bv = match parsed {
            Ok(Ok(bv)) => bv,
            Ok(Err(e)) => {
                out.push(mk(
                    format!("bv:{name}:{tag}parse:err({})", err_variant(&e)),
                    format!("parse of freshly constructed bytes returned Err({e:?})"),
                    None,
                ));
                continue;
            }
            Err(p) => {
                out.push(mk(
                    format!("bv:{name}:{tag}parse:panic({})", norm_panic(&p)),
                    format!("parse panicked: {p}"),
                    None,
                ));
                continue;
            }
        };
        let mut seen: HashSet<String> = HashSet::new();
        let first_pass = &mut first_pass;
        let mut prev_far: Option<(usize, std::time::Duration)> = None;
        // returns true when the call was slow (the far ladder stops there)
        let mut one = |op: Op, x: usize, st: &mut BvStats, out: &mut Vec<Finding>| -> bool {
            st.calls += 1;
            let (got, dt) = timed(|| call(&bv, op, x));
            let (want0, _) = oracle.expect(op, x);
            if want0 == Ans::None && x > n.saturating_mul(2).saturating_add(1) {
                // a replayed single call is judged with hysteresis: the explorer stopped at the
                // first step over the limit, which may sit right at it
                let limit = if matches!(probe, Probe::One(..)) { SLOW / 4 } else { SLOW };
                if dt > limit {
                    let sig = format!(
                        "bv:{name}:{tag}{}:time-grows-with-argument:arg-far-past-range",
                        op.name()
                    );
                    let plain = format!(
                        "bv:{name}:{}:time-grows-with-argument:arg-far-past-range",
                        op.name()
                    );
                    if tag.is_empty() {
                        first_pass.insert(plain);
                    } else if first_pass.contains(&plain) {
                        return true;
                    }
                    if seen.insert(sig.clone()) {
                        out.push(mk(
                            sig,
                            format!(
                                "{}({x}) took {:.1} ms (measured twice, smaller value){}; an argument that names nothing must fail fast",
                                op.name(),
                                dt.as_secs_f64() * 1e3,
                                match prev_far {
                                    Some((px, pd)) => format!(
                                        ", the previous step {}({px}) took {:.3} ms",
                                        op.name(),
                                        pd.as_secs_f64() * 1e3
                                    ),
                                    None => String::new(),
                                }
                            ),
                            Some((op, x)),
                        ));
                    }
                    return true;
                }
                prev_far = Some((x, dt));
            }
            let (want, alt) = oracle.expect(op, x);
            if got == want || Some(&got) == alt.as_ref() {
                let h = match &got {
                    Ans::None => 1u64,
                    Ans::Bool(b) => 2 + *b as u64,
                    Ans::Num(v) => (*v as u64).wrapping_mul(0x9e3779b97f4a7c15) ^ 5,
                    Ans::Pair(a, r) => (*r as u64 * 2 + *a as u64).wrapping_mul(0x9e3779b97f4a7c15) ^ 7,
                    Ans::Panic(_) => 0,
                };
                if x < 256 || x % 61 == 0 {
                    outcomes.insert(h ^ ((op as u64) << 56));
                }
                return false;
            }
            let class = oracle.arg_class(op, x);
            let how = match (&got, &want) {
                (Ans::Panic(p), _) => format!("panic({})", norm_panic(p)),
                (Ans::None, _) => "none-for-valid-argument".to_string(),
                (_, Ans::None) => "answer-for-invalid-argument".to_string(),
                _ => "wrong-answer".to_string(),
            };
            let plain = format!("bv:{name}:{}:{how}:{class}", op.name());
            let sig = format!("bv:{name}:{tag}{}:{how}:{class}", op.name());
            if tag.is_empty() {
                first_pass.insert(plain.clone());
            } else if first_pass.contains(&plain) {
                // the re-parsed copy fails the same way as the first parse: one defect
                return false;
            }
            if seen.insert(sig.clone()) {
                out.push(mk(
                    sig,
                    format!("{}({x}) = {got:?}; expected {want:?}", op.name()),
                    Some((op, x)),
                ));
            }
            false
        };
        // len / is_empty
        let le = vcore::catch(|| (bv.len(), bv.is_empty()));
        match le {
            Ok((l, e)) => {
                if l != n || e != (n == 0) {
                    out.push(mk(
                        format!("bv:{name}:{tag}len:wrong-answer"),
                        format!("len() = {l}, is_empty() = {e}; expected {n}, {}", n == 0),
                        None,
                    ));
                }
            }
            Err(p) => out.push(mk(
                format!("bv:{name}:{tag}len:panic({})", norm_panic(&p)),
                format!("len panicked: {p}"),
                None,
            )),
        }
        match probe {
            Probe::One(op, x) => {
                one(*op, *x, st, out);
            }
            Probe::Every => {
                for x in 0..=n {
                    one(Op::Access, x, st, out);
                    one(Op::Rank, x, st, out);
                    one(Op::Rank0, x, st, out);
                    one(Op::AccessRank, x, st, out);
                }
                for k in 0..=oracle.ones.len() {
                    one(Op::Select, k, st, out);
                }
                for k in 0..=oracle.zeros.len() {
                    one(Op::Select0, k, st, out);
                }
                // the argument checks do not depend on where the bytes live: first parse only
                for op in Op::ALL {
                    if !tag.is_empty() {
                        break;
                    }
                    let limit = match op {
                        Op::Access | Op::AccessRank | Op::Rank | Op::Rank0 => n,
                        Op::Select => oracle.ones.len(),
                        Op::Select0 => oracle.zeros.len(),
                    };
                    for x in out_of_range_args(n, limit) {
                        st.out_of_range_calls += 1;
                        one(op, x, st, out);
                    }
                    for x in far_ladder() {
                        if x <= 2 * n + 1 {
                            continue;
                        }
                        st.out_of_range_calls += 1;
                        if one(op, x, st, out) {
                            st.far_ladders_stopped += 1;
                            break;
                        }
                    }
                }
            }
        }
    }
}

pub const IMPLS: [&str; 4] = ["reference", "rrr", "cf_rrr", "sparse"];

pub fn check_bv_named(
    name: &str,
    oracle: &BitOracle,
    probe: &Probe,
    reparse: bool,
    st: &mut BvStats,
    outcomes: &mut HashSet<u64>,
    out: &mut Vec<Finding>,
) {
    use scrunch::bit_vector as bv;
    match name {
        "reference" => check_bv::<bv::ReferenceBitVector<'static>>(
            name, oracle, probe, reparse, st, outcomes, out,
        ),
        "rrr" => {
            check_bv::<bv::rrr::BitVector<'static>>(name, oracle, probe, reparse, st, outcomes, out)
        }
        "cf_rrr" => check_bv::<bv::cf_rrr::BitVector<'static>>(
            name, oracle, probe, reparse, st, outcomes, out,
        ),
        "sparse" => check_bv::<bv::sparse::BitVector<'static>>(
            name, oracle, probe, reparse, st, outcomes, out,
        ),
        _ => panic!("unknown bit vector implementation {name}"),
    }
}

/////////////////////////////////////////////// replay //////////////////////////////////////////////

/// Re-run exactly one recorded case, without the explorer.
pub fn run_case(case: &Value) -> Vec<Finding> {
    let mut out = vec![];
    let mut outcomes = HashSet::new();
    match case["kind"].as_str() {
        Some("doc") => {
            let text: Vec<u32> = case["text"]
                .as_array()
                .map(|a| a.iter().map(|x| x.as_u64().unwrap() as u32).collect())
                .unwrap_or_default();
            let bounds: Vec<usize> = case["bounds"]
                .as_array()
                .map(|a| a.iter().map(|x| x.as_u64().unwrap() as usize).collect())
                .unwrap_or_default();
            let plan = match case["pattern"].as_array() {
                Some(a) => PatPlan::Single(a.iter().map(|x| x.as_u64().unwrap() as u32).collect()),
                None => PatPlan::None,
            };
            let mut st = DocStats::default();
            if case["invalid"].as_bool() == Some(true) {
                check_rejection(&text, &bounds, &mut st, &mut out);
                out.extend(domain_findings(&text, &bounds));
            } else {
                check_doc(
                    &text,
                    &bounds,
                    &plan,
                    true,
                    true,
                    &mut st,
                    &mut outcomes,
                    &mut out,
                );
            }
        }
        Some("bv") => {
            let first = case["first"].as_bool().unwrap_or(false);
            let lens: Vec<usize> = case["runs"]
                .as_array()
                .map(|a| a.iter().map(|x| x.as_u64().unwrap() as usize).collect())
                .unwrap_or_default();
            let oracle = BitOracle::new(from_runs(first, &lens));
            let name = case["impl"].as_str().unwrap_or("reference").to_string();
            let probe = match (case["op"].as_str(), case["arg"].as_u64()) {
                (Some(op), Some(x)) => Probe::One(Op::from_name(op).expect("op"), x as usize),
                _ => Probe::One(Op::Rank, 0),
            };
            let mut st = BvStats::default();
            check_bv_named(&name, &oracle, &probe, true, &mut st, &mut outcomes, &mut out);
        }
        _ => panic!("replay case has no known kind"),
    }
    out
}

/// The property quantifies over the empty text and over empty records; the crate's API refuses
/// both with an error.  Reported under their own signatures (a refusal, not a wrong answer).
pub fn domain_findings(text: &[u32], bounds: &[usize]) -> Vec<Finding> {
    let mut out = vec![];
    let r = construct_with::<CompressedDocument>(text, bounds);
    let refused = matches!(r, Ok(Err(_)));
    if !refused {
        return out;
    }
    let err = match r {
        Ok(Err(e)) => format!("{e:?}"),
        _ => String::new(),
    };
    let what = if text.is_empty() {
        Some("empty-text")
    } else if bounds.first() == Some(&0)
        && bounds.windows(2).all(|w| w[0] <= w[1])
        && bounds.iter().all(|b| *b <= text.len())
        && (bounds.windows(2).any(|w| w[0] == w[1]) || bounds.last() == Some(&text.len()))
    {
        Some("empty-record")
    } else {
        None
    };
    if let Some(what) = what {
        let mut case = doc_case(text, bounds, None);
        case["invalid"] = json!(true);
        out.push(Finding {
            sig: format!("doc:construct:refuses:{what}"),
            detail: format!(
                "CompressedDocument::construct returned Err({err}) for text={text:?} bounds={bounds:?}; a plain scan handles this division of the text (the property quantifies over it)"
            ),
            case,
            size: (text.len(), bounds.len(), 0),
        });
    }
    out
}
