//! The file-system model of the crash explorer: replay a journal prefix into an image; drop
//! unsynced writes; materialise an image as a real directory.
//!
//! Persistence model (from property C02): directory operations persist when they return; file
//! bytes written after that file's last successful fsync/fdatasync may be lost, at system-call
//! granularity.  Files are identified by inode so that a write made through one name is seen
//! through every hard link.

use std::collections::{BTreeMap, BTreeSet, HashMap};
use std::path::{Path, PathBuf};

use crate::Rec;

#[derive(Clone, Debug, Default)]
pub struct FileState {
    /// (journal index, offset, bytes) of every write since creation / truncation
    pub writes: Vec<(usize, u64, Vec<u8>)>,
    /// journal index of the last successful sync of this inode
    pub last_sync: Option<usize>,
    /// truncations: (journal index, len)
    pub truncs: Vec<(usize, u64)>,
}

impl FileState {
    /// Contents when only the writes accepted by `keep` are applied.
    pub fn contents(&self, keep: &dyn Fn(usize) -> bool) -> Vec<u8> {
        let mut data: Vec<u8> = vec![];
        let mut events: Vec<(usize, Option<(u64, &Vec<u8>)>, Option<u64>)> = vec![];
        for (i, off, b) in self.writes.iter() {
            events.push((*i, Some((*off, b)), None));
        }
        for (i, len) in self.truncs.iter() {
            events.push((*i, None, Some(*len)));
        }
        events.sort_by_key(|e| e.0);
        for (i, w, t) in events {
            if let Some(len) = t {
                data.resize(len as usize, 0);
            }
            if let Some((off, b)) = w {
                if !keep(i) {
                    continue;
                }
                let off = off as usize;
                // a write past a dropped write would leave a hole; only suffixes are dropped by
                // the variants, so this cannot happen -- guard anyway
                if data.len() < off {
                    data.resize(off, 0);
                }
                let end = off + b.len();
                if data.len() < end {
                    data.resize(end, 0);
                }
                data[off..end].copy_from_slice(b);
            }
        }
        data
    }

    /// Journal indices of writes issued after the last sync.
    pub fn unsynced(&self) -> Vec<usize> {
        self.writes
            .iter()
            .map(|w| w.0)
            .filter(|i| self.last_sync.map(|s| *i > s).unwrap_or(true))
            .collect()
    }
}

#[derive(Clone, Debug, Default)]
pub struct Image {
    pub dirs: BTreeSet<PathBuf>,
    /// relative path -> inode key
    pub names: BTreeMap<PathBuf, u64>,
    pub files: HashMap<u64, FileState>,
}

pub fn rel(root: &Path, p: &Path) -> PathBuf {
    p.strip_prefix(root).map(|x| x.to_path_buf()).unwrap_or_else(|_| p.to_path_buf())
}

impl Image {
    /// Replay journal[0..k] (model (a): every completed call persists).
    pub fn from_prefix(root: &Path, journal: &[Rec], k: usize) -> Result<Image, String> {
        let mut img = Image::default();
        for (i, r) in journal.iter().take(k).enumerate() {
            match r {
                Rec::Marker(_) => {}
                Rec::Mkdir { path } => {
                    let p = rel(root, path);
                    if !p.as_os_str().is_empty() {
                        img.dirs.insert(p);
                    }
                }
                Rec::Rmdir { path } => {
                    img.dirs.remove(&rel(root, path));
                }
                Rec::Create { path, ino } => {
                    img.names.insert(rel(root, path), *ino);
                    img.files.insert(*ino, FileState::default());
                }
                Rec::Truncate { ino, len, path } => {
                    let f = img.files.entry(*ino).or_default();
                    f.truncs.push((i, *len));
                    img.names.entry(rel(root, path)).or_insert(*ino);
                }
                Rec::Write { ino, offset, data, path } => {
                    let f = img.files.entry(*ino).or_default();
                    f.writes.push((i, *offset, data.clone()));
                    img.names.entry(rel(root, path)).or_insert(*ino);
                }
                Rec::Sync { ino, .. } => {
                    if let Some(f) = img.files.get_mut(ino) {
                        f.last_sync = Some(i);
                    }
                }
                Rec::Link { src, dst } => {
                    let s = rel(root, src);
                    match img.names.get(&s).copied() {
                        Some(ino) => {
                            img.names.insert(rel(root, dst), ino);
                        }
                        None => return Err(format!("link from unknown {}", s.display())),
                    }
                }
                Rec::Rename { src, dst } => {
                    let s = rel(root, src);
                    let d = rel(root, dst);
                    if let Some(ino) = img.names.remove(&s) {
                        img.names.insert(d, ino);
                    } else if img.dirs.remove(&s) {
                        img.dirs.insert(d);
                    } else {
                        return Err(format!("rename of unknown {}", s.display()));
                    }
                }
                Rec::Unlink { path } => {
                    img.names.remove(&rel(root, path));
                }
            }
        }
        Ok(img)
    }

    /// Replay journal[0..k], then the first `cut` bytes of the write call journal[k]: the process
    /// died (or the power went) inside that call.  `None` when journal[k] is not a write or `cut`
    /// is not strictly inside it.
    pub fn from_prefix_torn(root: &Path, journal: &[Rec], k: usize, cut: usize) -> Option<Image> {
        let Some(Rec::Write { ino, offset, data, path }) = journal.get(k) else { return None };
        if cut == 0 || cut >= data.len() {
            return None;
        }
        let mut img = Image::from_prefix(root, journal, k).ok()?;
        let f = img.files.entry(*ino).or_default();
        f.writes.push((k, *offset, data[..cut].to_vec()));
        img.names.entry(rel(root, path)).or_insert(*ino);
        Some(img)
    }

    /// Inodes that have unsynced writes and are still reachable by a name.
    pub fn unsynced_files(&self) -> Vec<(u64, Vec<usize>)> {
        let live: BTreeSet<u64> = self.names.values().copied().collect();
        let mut v: Vec<(u64, Vec<usize>)> = self
            .files
            .iter()
            .filter(|(ino, _)| live.contains(ino))
            .map(|(ino, f)| (*ino, f.unsynced()))
            .filter(|(_, u)| !u.is_empty())
            .collect();
        v.sort();
        v
    }

    /// The loss variants of model (b): for every file with unsynced writes choose how many of its
    /// trailing unsynced write calls are lost (0 = none, all, and every count in between when the
    /// file has at most 3 unsynced calls).  Returns, per variant, the set of dropped journal
    /// indices.  The first variant drops nothing.  Capped at `cap` variants (returns whether
    /// the cap was hit).
    pub fn loss_variants(&self, cap: usize) -> (Vec<BTreeSet<usize>>, bool) {
        let files = self.unsynced_files();
        let mut choices: Vec<Vec<Vec<usize>>> = vec![];
        for (_, uns) in files.iter() {
            let mut opts: Vec<Vec<usize>> = vec![vec![]];
            if uns.len() <= 3 {
                for n in 1..=uns.len() {
                    opts.push(uns[uns.len() - n..].to_vec());
                }
            } else {
                opts.push(uns[uns.len() - 1..].to_vec());
                opts.push(uns.clone());
            }
            choices.push(opts);
        }
        let mut out: Vec<BTreeSet<usize>> = vec![BTreeSet::new()];
        let mut capped = false;
        for opts in choices {
            let mut next = vec![];
            for base in out.iter() {
                for o in opts.iter() {
                    if next.len() >= cap {
                        capped = true;
                        break;
                    }
                    let mut s = base.clone();
                    s.extend(o.iter().copied());
                    next.push(s);
                }
            }
            out = next;
        }
        (out, capped)
    }

    /// File contents (relative path -> bytes) with the given journal indices dropped.
    pub fn contents(&self, dropped: &BTreeSet<usize>) -> BTreeMap<PathBuf, Vec<u8>> {
        let mut cache: HashMap<u64, Vec<u8>> = HashMap::new();
        let mut out = BTreeMap::new();
        for (p, ino) in self.names.iter() {
            let data = cache
                .entry(*ino)
                .or_insert_with(|| {
                    self.files
                        .get(ino)
                        .map(|f| f.contents(&|i| !dropped.contains(&i)))
                        .unwrap_or_default()
                })
                .clone();
            out.insert(p.clone(), data);
        }
        out
    }

    /// Write the image below `dst` (which must not exist or be empty).  Names of one inode are
    /// materialised as hard links of one file (recovery code may compare inodes).
    pub fn materialise(&self, dst: &Path, dropped: &BTreeSet<usize>) -> std::io::Result<()> {
        std::fs::create_dir_all(dst)?;
        for d in self.dirs.iter() {
            std::fs::create_dir_all(dst.join(d))?;
        }
        let contents = self.contents(dropped);
        let mut first_name: HashMap<u64, PathBuf> = HashMap::new();
        for (p, data) in contents {
            let full = dst.join(&p);
            if let Some(parent) = full.parent() {
                std::fs::create_dir_all(parent)?;
            }
            let ino = self.names[&p];
            match first_name.get(&ino) {
                Some(first) => std::fs::hard_link(first, &full)?,
                None => {
                    std::fs::write(&full, data)?;
                    first_name.insert(ino, full);
                }
            }
        }
        Ok(())
    }

    /// Stable hash of (dirs, names, contents): identical images recover identically.
    pub fn hash(&self, dropped: &BTreeSet<usize>) -> u64 {
        let c = self.contents(dropped);
        // link structure: which names share an inode
        let mut groups: BTreeMap<u64, Vec<&PathBuf>> = BTreeMap::new();
        for (p, ino) in self.names.iter() {
            groups.entry(*ino).or_default().push(p);
        }
        let links: Vec<Vec<&PathBuf>> = groups.into_values().filter(|g| g.len() > 1).collect();
        vcore::stable_hash(&(&self.dirs, &c, &links))
    }
}
