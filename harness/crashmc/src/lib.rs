//! E2 crashmc: in-process interposition of the file-mutating libc entry points, a journal of the
//! calls made under a scratch root, reconstruction of crash images from journal prefixes (with
//! unsynced writes optionally dropped), single-fault injection, and validation of the journal
//! model against the real directory.
//!
//! The interposers are defined in the *binary* crate by `define_interposers!()` (a symbol defined
//! in the executable wins over libc's for every call made by statically linked Rust code,
//! including std and the raw `libc::fdatasync` in sst::log).  They forward with syscall(2).

use std::cell::{Cell, RefCell};
use std::collections::{BTreeMap, BTreeSet, HashMap};
use std::path::{Path, PathBuf};

pub mod fsmodel;

///////////////////////////////////////////// journal //////////////////////////////////////////////

#[derive(Clone, Debug, PartialEq)]
pub enum Rec {
    /// a file came into existence through open(O_CREAT)
    Create { path: PathBuf, ino: u64 },
    /// open(O_TRUNC) of an existing file, or ftruncate
    Truncate { path: PathBuf, ino: u64, len: u64 },
    Write { path: PathBuf, ino: u64, offset: u64, data: Vec<u8> },
    Sync { path: PathBuf, ino: u64 },
    Link { src: PathBuf, dst: PathBuf },
    Rename { src: PathBuf, dst: PathBuf },
    Unlink { path: PathBuf },
    Mkdir { path: PathBuf },
    Rmdir { path: PathBuf },
    /// driver markers: begin/end of an operation
    Marker(String),
}

impl Rec {
    pub fn name(&self) -> &'static str {
        match self {
            Rec::Create { .. } => "create",
            Rec::Truncate { .. } => "truncate",
            Rec::Write { .. } => "write",
            Rec::Sync { .. } => "sync",
            Rec::Link { .. } => "link",
            Rec::Rename { .. } => "rename",
            Rec::Unlink { .. } => "unlink",
            Rec::Mkdir { .. } => "mkdir",
            Rec::Rmdir { .. } => "rmdir",
            Rec::Marker(_) => "marker",
        }
    }

    pub fn is_mutation(&self) -> bool {
        !matches!(self, Rec::Marker(_))
    }

    pub fn describe(&self, root: &Path) -> String {
        let rel = |p: &PathBuf| {
            p.strip_prefix(root)
                .map(|x| x.to_string_lossy().to_string())
                .unwrap_or_else(|_| p.to_string_lossy().to_string())
        };
        match self {
            Rec::Create { path, .. } => format!("create {}", rel(path)),
            Rec::Truncate { path, len, .. } => format!("truncate {} to {len}", rel(path)),
            Rec::Write { path, offset, data, .. } => {
                format!("write {} @{offset} +{}", rel(path), data.len())
            }
            Rec::Sync { path, .. } => format!("sync {}", rel(path)),
            Rec::Link { src, dst } => format!("link {} -> {}", rel(src), rel(dst)),
            Rec::Rename { src, dst } => format!("rename {} -> {}", rel(src), rel(dst)),
            Rec::Unlink { path } => format!("unlink {}", rel(path)),
            Rec::Mkdir { path } => format!("mkdir {}", rel(path)),
            Rec::Rmdir { path } => format!("rmdir {}", rel(path)),
            Rec::Marker(m) => format!("# {m}"),
        }
    }
}

/// What the shim does at the n-th mutating call under the root (0-based), if armed.
#[derive(Clone, Copy, Debug, PartialEq)]
pub enum Fault {
    /// return -1 with this errno, do nothing
    Errno(i32),
    /// for write: write only half of the bytes (and report that count)
    ShortWrite,
}

pub struct ShimState {
    pub root: Option<PathBuf>,
    pub journal: Vec<Rec>,
    pub mutating_calls: usize,
    pub fault_at: Option<(usize, Fault)>,
    pub fault_fired: Option<String>,
    pub unmodelled: Vec<String>,
}

thread_local! {
    pub static ACTIVE: Cell<bool> = const { Cell::new(false) };
    pub static STATE: RefCell<ShimState> = const { RefCell::new(ShimState {
        root: None,
        journal: Vec::new(),
        mutating_calls: 0,
        fault_at: None,
        fault_fired: None,
        unmodelled: Vec::new(),
    }) };
}

/// Start journalling calls made by this thread on paths under `root`.
pub fn start(root: &Path, fault_at: Option<(usize, Fault)>) {
    STATE.with(|s| {
        let mut s = s.borrow_mut();
        s.root = Some(root.to_path_buf());
        s.journal.clear();
        s.mutating_calls = 0;
        s.fault_at = fault_at;
        s.fault_fired = None;
        s.unmodelled.clear();
    });
    ACTIVE.with(|a| a.set(true));
}

pub struct Recorded {
    pub journal: Vec<Rec>,
    pub mutating_calls: usize,
    pub fault_fired: Option<String>,
    pub unmodelled: Vec<String>,
}

pub fn stop() -> Recorded {
    ACTIVE.with(|a| a.set(false));
    STATE.with(|s| {
        let mut s = s.borrow_mut();
        s.root = None;
        Recorded {
            journal: std::mem::take(&mut s.journal),
            mutating_calls: s.mutating_calls,
            fault_fired: s.fault_fired.take(),
            unmodelled: std::mem::take(&mut s.unmodelled),
        }
    })
}

pub fn marker(m: &str) {
    if ACTIVE.with(|a| a.get()) {
        STATE.with(|s| s.borrow_mut().journal.push(Rec::Marker(m.to_string())));
    }
}

pub fn journal_len() -> usize {
    STATE.with(|s| s.borrow().journal.len())
}

/// Suspend journalling and fault injection on this thread while `f` runs (used for the harness's
/// own file operations and for recovery runs).
pub fn suspended<R>(f: impl FnOnce() -> R) -> R {
    let was = ACTIVE.with(|a| a.replace(false));
    let r = f();
    ACTIVE.with(|a| a.set(was));
    r
}

//////////////////////////////////////// raw helpers (no std I/O) //////////////////////////////////

pub mod raw {
    use super::*;
    use libc::{c_char, c_int};
    use std::ffi::CStr;
    use std::os::unix::ffi::OsStrExt;

    pub unsafe fn cpath(p: *const c_char) -> PathBuf {
        let c = unsafe { CStr::from_ptr(p) };
        PathBuf::from(std::ffi::OsStr::from_bytes(c.to_bytes()))
    }

    pub fn fd_path(fd: c_int) -> Option<PathBuf> {
        let link = format!("/proc/self/fd/{fd}\0");
        let mut buf = vec![0u8; 4096];
        let n = unsafe {
            libc::syscall(
                libc::SYS_readlinkat,
                libc::AT_FDCWD,
                link.as_ptr(),
                buf.as_mut_ptr(),
                buf.len(),
            )
        };
        if n <= 0 {
            return None;
        }
        buf.truncate(n as usize);
        let s = std::ffi::OsStr::from_bytes(&buf);
        let p = PathBuf::from(s);
        // unlinked files read as "path (deleted)"
        let st = p.to_string_lossy().to_string();
        if let Some(x) = st.strip_suffix(" (deleted)") {
            return Some(PathBuf::from(x));
        }
        Some(p)
    }

    pub fn fd_ino(fd: c_int) -> u64 {
        let mut st: libc::stat = unsafe { std::mem::zeroed() };
        let r = unsafe { libc::syscall(libc::SYS_fstat, fd, &mut st as *mut libc::stat) };
        if r == 0 { st.st_ino } else { 0 }
    }

    pub fn fd_offset(fd: c_int) -> u64 {
        let r = unsafe { libc::syscall(libc::SYS_lseek, fd, 0i64, libc::SEEK_CUR) };
        if r < 0 { 0 } else { r as u64 }
    }

    pub fn fd_size(fd: c_int) -> u64 {
        let mut st: libc::stat = unsafe { std::mem::zeroed() };
        let r = unsafe { libc::syscall(libc::SYS_fstat, fd, &mut st as *mut libc::stat) };
        if r == 0 { st.st_size as u64 } else { 0 }
    }

    pub fn fd_is_append(fd: c_int) -> bool {
        let r = unsafe { libc::syscall(libc::SYS_fcntl, fd, libc::F_GETFL) };
        r >= 0 && (r as c_int & libc::O_APPEND) != 0
    }

    pub fn path_exists(p: *const c_char) -> bool {
        let mut st: libc::stat = unsafe { std::mem::zeroed() };
        let r = unsafe {
            libc::syscall(
                libc::SYS_newfstatat,
                libc::AT_FDCWD,
                p,
                &mut st as *mut libc::stat,
                libc::AT_SYMLINK_NOFOLLOW,
            )
        };
        r == 0
    }

    pub fn absolutize(dirfd: c_int, p: &Path) -> PathBuf {
        if p.is_absolute() {
            return normalize(p);
        }
        if dirfd == libc::AT_FDCWD {
            if let Some(cwd) = fd_path_cwd() {
                return normalize(&cwd.join(p));
            }
            return p.to_path_buf();
        }
        match fd_path(dirfd) {
            Some(d) => normalize(&d.join(p)),
            None => p.to_path_buf(),
        }
    }

    fn fd_path_cwd() -> Option<PathBuf> {
        let link = "/proc/self/cwd\0";
        let mut buf = vec![0u8; 4096];
        let n = unsafe {
            libc::syscall(
                libc::SYS_readlinkat,
                libc::AT_FDCWD,
                link.as_ptr(),
                buf.as_mut_ptr(),
                buf.len(),
            )
        };
        if n <= 0 {
            return None;
        }
        buf.truncate(n as usize);
        Some(PathBuf::from(std::ffi::OsStr::from_bytes(&buf)))
    }

    pub fn normalize(p: &Path) -> PathBuf {
        let mut out = PathBuf::new();
        for c in p.components() {
            match c {
                std::path::Component::CurDir => {}
                std::path::Component::ParentDir => {
                    out.pop();
                }
                other => out.push(other.as_os_str()),
            }
        }
        out
    }

    pub fn set_errno(e: i32) {
        unsafe {
            *libc::__errno_location() = e;
        }
    }
}

/// Decide what to do with a mutating call on `path`: None = not ours (forward silently);
/// Some(None) = ours, forward and journal; Some(Some(f)) = ours and the armed fault fires.
pub fn on_mutating_call(path: &Path, what: &str) -> Option<Option<Fault>> {
    if !ACTIVE.with(|a| a.get()) {
        return None;
    }
    STATE.with(|s| {
        let mut s = s.borrow_mut();
        let root = s.root.as_ref()?;
        if !path.starts_with(root) {
            return None;
        }
        let n = s.mutating_calls;
        s.mutating_calls += 1;
        if let Some((at, f)) = s.fault_at {
            if at == n {
                s.fault_fired = Some(format!("{what} {}", path.display()));
                return Some(Some(f));
            }
        }
        Some(None)
    })
}

pub fn push(rec: Rec) {
    STATE.with(|s| s.borrow_mut().journal.push(rec));
}

pub fn unmodelled(what: &str) {
    if ACTIVE.with(|a| a.get()) {
        STATE.with(|s| s.borrow_mut().unmodelled.push(what.to_string()));
    }
}

/// Define the interposed libc entry points in the calling (binary) crate.
#[macro_export]
macro_rules! define_interposers {
    () => {
        mod interposers {
            use libc::{c_char, c_int, c_void, mode_t, off_t, size_t, ssize_t};
            use $crate::raw::*;
            use $crate::{Fault, Rec, on_mutating_call, push, unmodelled};

            fn fail(f: Fault) -> i64 {
                match f {
                    Fault::Errno(e) => {
                        set_errno(e);
                        -1
                    }
                    Fault::ShortWrite => {
                        set_errno(libc::EIO);
                        -1
                    }
                }
            }

            unsafe fn do_open(dirfd: c_int, path: *const c_char, flags: c_int, mode: mode_t) -> c_int {
                let p = absolutize(dirfd, &unsafe { cpath(path) });
                let creating = flags & libc::O_CREAT != 0;
                let truncating = flags & libc::O_TRUNC != 0;
                let writing = flags & (libc::O_WRONLY | libc::O_RDWR) != 0;
                let mut decision = None;
                let existed = if creating || truncating { path_exists(path) } else { true };
                if (creating && !existed) || (truncating && existed && writing) {
                    decision = on_mutating_call(&p, "open");
                    if let Some(Some(f)) = decision {
                        return fail(f) as c_int;
                    }
                }
                let fd = unsafe { libc::syscall(libc::SYS_openat, dirfd, path, flags, mode as c_int) } as c_int;
                if fd >= 0 && decision.is_some() {
                    let ino = fd_ino(fd);
                    if creating && !existed {
                        push(Rec::Create { path: p, ino });
                    } else if truncating && existed {
                        push(Rec::Truncate { path: p, ino, len: 0 });
                    }
                }
                fd
            }

            #[unsafe(no_mangle)]
            pub unsafe extern "C" fn open64(path: *const c_char, flags: c_int, mode: mode_t) -> c_int {
                unsafe { do_open(libc::AT_FDCWD, path, flags, mode) }
            }

            #[unsafe(no_mangle)]
            pub unsafe extern "C" fn open(path: *const c_char, flags: c_int, mode: mode_t) -> c_int {
                unsafe { do_open(libc::AT_FDCWD, path, flags, mode) }
            }

            #[unsafe(no_mangle)]
            pub unsafe extern "C" fn openat(dirfd: c_int, path: *const c_char, flags: c_int, mode: mode_t) -> c_int {
                unsafe { do_open(dirfd, path, flags, mode) }
            }

            #[unsafe(no_mangle)]
            pub unsafe extern "C" fn openat64(dirfd: c_int, path: *const c_char, flags: c_int, mode: mode_t) -> c_int {
                unsafe { do_open(dirfd, path, flags, mode) }
            }

            #[unsafe(no_mangle)]
            pub unsafe extern "C" fn write(fd: c_int, buf: *const c_void, count: size_t) -> ssize_t {
                if fd > 2 && $crate::ACTIVE.with(|a| a.get()) {
                    if let Some(p) = fd_path(fd) {
                        if let Some(decision) = on_mutating_call(&p, "write") {
                            let mut n = count;
                            if let Some(f) = decision {
                                match f {
                                    Fault::ShortWrite if count > 1 => n = count / 2,
                                    _ => return fail(f) as ssize_t,
                                }
                            }
                            let offset = if fd_is_append(fd) { fd_size(fd) } else { fd_offset(fd) };
                            let r = unsafe { libc::syscall(libc::SYS_write, fd, buf, n) } as ssize_t;
                            if r > 0 {
                                let data = unsafe { std::slice::from_raw_parts(buf as *const u8, r as usize) }.to_vec();
                                push(Rec::Write { path: p, ino: fd_ino(fd), offset, data });
                            }
                            return r;
                        }
                    }
                }
                unsafe { libc::syscall(libc::SYS_write, fd, buf, count) as ssize_t }
            }

            #[unsafe(no_mangle)]
            pub unsafe extern "C" fn pwrite64(fd: c_int, buf: *const c_void, count: size_t, offset: off_t) -> ssize_t {
                if $crate::ACTIVE.with(|a| a.get()) {
                    if let Some(p) = fd_path(fd) {
                        if let Some(decision) = on_mutating_call(&p, "pwrite") {
                            if let Some(f) = decision {
                                return fail(f) as ssize_t;
                            }
                            let r = unsafe { libc::syscall(libc::SYS_pwrite64, fd, buf, count, offset) } as ssize_t;
                            if r > 0 {
                                let data = unsafe { std::slice::from_raw_parts(buf as *const u8, r as usize) }.to_vec();
                                push(Rec::Write { path: p, ino: fd_ino(fd), offset: offset as u64, data });
                            }
                            return r;
                        }
                    }
                }
                unsafe { libc::syscall(libc::SYS_pwrite64, fd, buf, count, offset) as ssize_t }
            }

            unsafe fn do_sync(fd: c_int, nr: libc::c_long, what: &str) -> c_int {
                if $crate::ACTIVE.with(|a| a.get()) {
                    if let Some(p) = fd_path(fd) {
                        if let Some(decision) = on_mutating_call(&p, what) {
                            if let Some(f) = decision {
                                return fail(f) as c_int;
                            }
                            let r = unsafe { libc::syscall(nr, fd) } as c_int;
                            if r == 0 {
                                push(Rec::Sync { path: p, ino: fd_ino(fd) });
                            }
                            return r;
                        }
                    }
                }
                unsafe { libc::syscall(nr, fd) as c_int }
            }

            #[unsafe(no_mangle)]
            pub unsafe extern "C" fn fsync(fd: c_int) -> c_int {
                unsafe { do_sync(fd, libc::SYS_fsync, "fsync") }
            }

            #[unsafe(no_mangle)]
            pub unsafe extern "C" fn fdatasync(fd: c_int) -> c_int {
                unsafe { do_sync(fd, libc::SYS_fdatasync, "fdatasync") }
            }

            unsafe fn do_ftruncate(fd: c_int, len: off_t) -> c_int {
                if $crate::ACTIVE.with(|a| a.get()) {
                    if let Some(p) = fd_path(fd) {
                        if let Some(decision) = on_mutating_call(&p, "ftruncate") {
                            if let Some(f) = decision {
                                return fail(f) as c_int;
                            }
                            let r = unsafe { libc::syscall(libc::SYS_ftruncate, fd, len) } as c_int;
                            if r == 0 {
                                push(Rec::Truncate { path: p, ino: fd_ino(fd), len: len as u64 });
                            }
                            return r;
                        }
                    }
                }
                unsafe { libc::syscall(libc::SYS_ftruncate, fd, len) as c_int }
            }

            #[unsafe(no_mangle)]
            pub unsafe extern "C" fn ftruncate(fd: c_int, len: off_t) -> c_int {
                unsafe { do_ftruncate(fd, len) }
            }

            #[unsafe(no_mangle)]
            pub unsafe extern "C" fn ftruncate64(fd: c_int, len: off_t) -> c_int {
                unsafe { do_ftruncate(fd, len) }
            }

            unsafe fn do_link(od: c_int, old: *const c_char, nd: c_int, new: *const c_char, flags: c_int) -> c_int {
                let src = absolutize(od, &unsafe { cpath(old) });
                let dst = absolutize(nd, &unsafe { cpath(new) });
                let decision = on_mutating_call(&dst, "link");
                if let Some(Some(f)) = decision {
                    return fail(f) as c_int;
                }
                let r = unsafe { libc::syscall(libc::SYS_linkat, od, old, nd, new, flags) } as c_int;
                if r == 0 && decision.is_some() {
                    push(Rec::Link { src, dst });
                }
                r
            }

            #[unsafe(no_mangle)]
            pub unsafe extern "C" fn link(old: *const c_char, new: *const c_char) -> c_int {
                unsafe { do_link(libc::AT_FDCWD, old, libc::AT_FDCWD, new, 0) }
            }

            #[unsafe(no_mangle)]
            pub unsafe extern "C" fn linkat(od: c_int, old: *const c_char, nd: c_int, new: *const c_char, flags: c_int) -> c_int {
                unsafe { do_link(od, old, nd, new, flags) }
            }

            unsafe fn do_rename(od: c_int, old: *const c_char, nd: c_int, new: *const c_char) -> c_int {
                let src = absolutize(od, &unsafe { cpath(old) });
                let dst = absolutize(nd, &unsafe { cpath(new) });
                let decision = on_mutating_call(&dst, "rename");
                if let Some(Some(f)) = decision {
                    return fail(f) as c_int;
                }
                let r = unsafe { libc::syscall(libc::SYS_renameat, od, old, nd, new) } as c_int;
                if r == 0 && decision.is_some() {
                    push(Rec::Rename { src, dst });
                }
                r
            }

            #[unsafe(no_mangle)]
            pub unsafe extern "C" fn rename(old: *const c_char, new: *const c_char) -> c_int {
                unsafe { do_rename(libc::AT_FDCWD, old, libc::AT_FDCWD, new) }
            }

            #[unsafe(no_mangle)]
            pub unsafe extern "C" fn renameat(od: c_int, old: *const c_char, nd: c_int, new: *const c_char) -> c_int {
                unsafe { do_rename(od, old, nd, new) }
            }

            unsafe fn do_unlink(dirfd: c_int, path: *const c_char, flags: c_int) -> c_int {
                let p = absolutize(dirfd, &unsafe { cpath(path) });
                let decision = on_mutating_call(&p, if flags & libc::AT_REMOVEDIR != 0 { "rmdir" } else { "unlink" });
                if let Some(Some(f)) = decision {
                    return fail(f) as c_int;
                }
                let r = unsafe { libc::syscall(libc::SYS_unlinkat, dirfd, path, flags) } as c_int;
                if r == 0 && decision.is_some() {
                    if flags & libc::AT_REMOVEDIR != 0 {
                        push(Rec::Rmdir { path: p });
                    } else {
                        push(Rec::Unlink { path: p });
                    }
                }
                r
            }

            #[unsafe(no_mangle)]
            pub unsafe extern "C" fn unlink(path: *const c_char) -> c_int {
                unsafe { do_unlink(libc::AT_FDCWD, path, 0) }
            }

            #[unsafe(no_mangle)]
            pub unsafe extern "C" fn unlinkat(dirfd: c_int, path: *const c_char, flags: c_int) -> c_int {
                unsafe { do_unlink(dirfd, path, flags) }
            }

            #[unsafe(no_mangle)]
            pub unsafe extern "C" fn rmdir(path: *const c_char) -> c_int {
                unsafe { do_unlink(libc::AT_FDCWD, path, libc::AT_REMOVEDIR) }
            }

            unsafe fn do_mkdir(dirfd: c_int, path: *const c_char, mode: mode_t) -> c_int {
                let p = absolutize(dirfd, &unsafe { cpath(path) });
                let decision = on_mutating_call(&p, "mkdir");
                if let Some(Some(f)) = decision {
                    return fail(f) as c_int;
                }
                let r = unsafe { libc::syscall(libc::SYS_mkdirat, dirfd, path, mode as c_int) } as c_int;
                if r == 0 && decision.is_some() {
                    push(Rec::Mkdir { path: p });
                }
                r
            }

            #[unsafe(no_mangle)]
            pub unsafe extern "C" fn mkdir(path: *const c_char, mode: mode_t) -> c_int {
                unsafe { do_mkdir(libc::AT_FDCWD, path, mode) }
            }

            #[unsafe(no_mangle)]
            pub unsafe extern "C" fn mkdirat(dirfd: c_int, path: *const c_char, mode: mode_t) -> c_int {
                unsafe { do_mkdir(dirfd, path, mode) }
            }

            // Entry points that would mutate files without being modelled: record their use so that
            // the run is rejected as a machinery error instead of silently missing a write.
            #[unsafe(no_mangle)]
            pub unsafe extern "C" fn writev(fd: c_int, iov: *const libc::iovec, cnt: c_int) -> ssize_t {
                if fd > 2 {
                    if let Some(p) = fd_path(fd) {
                        if on_mutating_call(&p, "writev").is_some() {
                            unmodelled("writev");
                        }
                    }
                }
                unsafe { libc::syscall(libc::SYS_writev, fd, iov, cnt) as ssize_t }
            }

            #[unsafe(no_mangle)]
            pub unsafe extern "C" fn renameat2(od: c_int, old: *const c_char, nd: c_int, new: *const c_char, flags: libc::c_uint) -> c_int {
                unmodelled("renameat2");
                unsafe { libc::syscall(libc::SYS_renameat2, od, old, nd, new, flags) as c_int }
            }

            #[unsafe(no_mangle)]
            pub unsafe extern "C" fn fallocate(fd: c_int, mode: c_int, off: off_t, len: off_t) -> c_int {
                unmodelled("fallocate");
                unsafe { libc::syscall(libc::SYS_fallocate, fd, mode, off, len) as c_int }
            }

            #[unsafe(no_mangle)]
            pub unsafe extern "C" fn copy_file_range(fi: c_int, oi: *mut off_t, fo: c_int, oo: *mut off_t, len: size_t, flags: libc::c_uint) -> ssize_t {
                unmodelled("copy_file_range");
                unsafe { libc::syscall(libc::SYS_copy_file_range, fi, oi, fo, oo, len, flags) as ssize_t }
            }
        }
    };
}

//////////////////////////////////////////// utilities /////////////////////////////////////////////

/// (relative path -> bytes) of every regular file, plus the set of directories, below `root`.
pub fn snapshot_dir(root: &Path) -> (BTreeMap<PathBuf, Vec<u8>>, BTreeSet<PathBuf>) {
    fn walk(root: &Path, dir: &Path, files: &mut BTreeMap<PathBuf, Vec<u8>>, dirs: &mut BTreeSet<PathBuf>) {
        if let Ok(rd) = std::fs::read_dir(dir) {
            for e in rd.flatten() {
                let p = e.path();
                let rel = p.strip_prefix(root).unwrap().to_path_buf();
                if p.is_dir() {
                    dirs.insert(rel);
                    walk(root, &p, files, dirs);
                } else {
                    files.insert(rel, std::fs::read(&p).unwrap_or_default());
                }
            }
        }
    }
    let mut files = BTreeMap::new();
    let mut dirs = BTreeSet::new();
    walk(root, root, &mut files, &mut dirs);
    (files, dirs)
}

pub type InoMap = HashMap<u64, usize>;
