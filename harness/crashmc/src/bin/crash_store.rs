//! E2 on the real KeyValueStore: for every history up to a depth, every crash point inside its
//! last operation (earlier ones belong to the shorter histories, which are enumerated too), in
//! both persistence models, plus every single injected fault in the last operation.
//!
//!   crash_store --prop C02|C04|C08 --depth 3 --cfgs A-min,B-l0 --out report.json

use std::collections::{BTreeSet, HashSet};
use std::path::Path;

use crashmc::fsmodel::Image;
use crashmc::{Fault, Rec};
use seqmc::store::{Cfg, Model, Op, PROBE_KEYS, StepResult, Store, config_grid, ops_from_json, ops_to_json};
use seqmc::storecheck;
use vcore::{Args, Report, Scratch, Violation, json};

crashmc::define_interposers!();

#[derive(Clone)]
struct Plan {
    prop: String,
    alphabet: Vec<Op>,
    depth: usize,
    faults: bool,
}

fn alphabet_for(prop: &str) -> Vec<Op> {
    match prop {
        "C08" => vec![
            Op::Put(0),
            Op::Del(0),
            Op::Put(2),
            Op::Flush,
            Op::Compact,
            Op::CompactAll,
            Op::Reopen,
            Op::Verify,
        ],
        _ => vec![
            Op::Put(0),
            Op::Del(0),
            Op::Put(2),
            Op::Batch(0),
            Op::Batch(1),
            Op::Flush,
            Op::Compact,
            Op::CompactAll,
            Op::Reopen,
            Op::Verify,
        ],
    }
}

/// Longer curated histories: flush + compaction + GC + rollover + verifier + second reopen.
fn curated() -> Vec<Vec<Op>> {
    use Op::*;
    vec![
        vec![Put(0), Put(2), Flush, CompactAll, Del(0), Flush, Compact, Verify, Reopen, Put(0)],
        vec![Batch(0), Flush, Batch(1), Flush, Compact, Compact, Reopen, Verify, Del(2), Flush],
        vec![Put(0), Flush, Put(0), Flush, Put(0), Flush, CompactAll, Verify, Reopen, Verify],
        vec![Put(0), Reopen, Del(0), Reopen, Put(2), Flush, CompactAll, Reopen, Verify, Put(0), Flush, Compact],
    ]
}

struct Recording {
    journal: Vec<Rec>,
    /// per op: (begin journal index, end journal index, calls at begin, calls at end, ok)
    ops: Vec<(usize, usize, usize, usize, Result<bool, String>)>,
    fault_fired: Option<String>,
    unmodelled: Vec<String>,
    /// journal index after the store was opened
    opened_at: usize,
    open_error: Option<String>,
}

/// Run the history on a fresh live directory with journalling on.  The store is dropped before
/// the journal is closed.  Result per op: Ok(true) = done, Ok(false) = no-op/disabled.
fn record(cfg: &Cfg, ops: &[Op], root: &Path, fault: Option<(usize, Fault)>) -> Recording {
    let _ = std::fs::remove_dir_all(root);
    crashmc::start(root, fault);
    let mut rec_ops = vec![];
    let mut open_error = None;
    let mut opened_at = 0;
    match Store::open(cfg, root) {
        Err(e) => open_error = Some(e),
        Ok(mut st) => {
            opened_at = crashmc::journal_len();
            for (i, op) in ops.iter().enumerate() {
                let b = crashmc::journal_len();
                let cb = crashmc::STATE.with(|s| s.borrow().mutating_calls);
                crashmc::marker(&format!("begin {i} {}", op.name()));
                let r = st.apply(op);
                let res = match r {
                    StepResult::Ok => Ok(true),
                    StepResult::Noop | StepResult::Disabled => Ok(false),
                    StepResult::Err(e) => Err(e),
                };
                crashmc::marker(&format!("end {i} {}", if res.is_ok() { "ok" } else { "err" }));
                let e = crashmc::journal_len();
                let ce = crashmc::STATE.with(|s| s.borrow().mutating_calls);
                let failed = res.is_err();
                rec_ops.push((b, e, cb, ce, res));
                if failed {
                    break;
                }
            }
            drop(st);
        }
    }
    let r = crashmc::stop();
    Recording {
        journal: r.journal,
        ops: rec_ops,
        fault_fired: r.fault_fired,
        unmodelled: r.unmodelled,
        opened_at,
        open_error,
    }
}

fn model_after(ops: &[Op], upto: usize, values_from: &dyn Fn(usize) -> Vec<u8>) -> Model {
    let mut m = Model::new();
    for (i, op) in ops.iter().take(upto).enumerate() {
        apply_model(&mut m, op, i + 1, values_from);
    }
    m
}

fn apply_model(m: &mut Model, op: &Op, step: usize, values_from: &dyn Fn(usize) -> Vec<u8>) {
    use seqmc::store::KEYS;
    match op {
        Op::Put(k) => {
            m.insert(KEYS[*k].to_vec(), Some(values_from(step)));
        }
        Op::Del(k) => {
            m.insert(KEYS[*k].to_vec(), None);
        }
        Op::Batch(0) => {
            m.insert(b"a".to_vec(), Some(values_from(step)));
            m.insert(b"b".to_vec(), None);
        }
        Op::Batch(_) => {
            m.insert(b"ab".to_vec(), Some(values_from(step)));
            m.insert(b"a".to_vec(), None);
        }
        _ => {}
    }
}

fn value_for(step: usize) -> Vec<u8> {
    format!("v{step}").into_bytes()
}

/// Recover the image materialised at `dir` and judge it.  `candidates` are the admissible
/// models (acked, or acked + the in-flight write).
fn recover_and_judge(
    plan: &Plan,
    cfg: &Cfg,
    dir: &Path,
    candidates: &[Model],
    what: &str,
) -> Vec<(String, String)> {
    let mut out = vec![];
    let pfx = plan.prop.to_lowercase();
    let st = match Store::open(cfg, dir) {
        Ok(s) => s,
        Err(e) => {
            let kind = if e.starts_with("panic") { "panic" } else { "error" };
            out.push((
                format!("{pfx}:recovery-{kind}:{}", storecheck::short(&e)),
                format!("reopening after {what} failed: {e}"),
            ));
            return out;
        }
    };
    match plan.prop.as_str() {
        "C04" => {
            let mut st = st;
            st.model = candidates[0].clone();
            out.extend(storecheck::check_setsums(&st));
            out.extend(storecheck::check_manifest_verifier(&st));
            return out;
        }
        _ => {}
    }
    // reads: one candidate must explain every probe key
    let mut reads = vec![];
    for k in PROBE_KEYS.iter() {
        match st.load(k) {
            Ok((v, _)) => reads.push((k.to_vec(), v)),
            Err(e) => {
                out.push((
                    format!("{pfx}:read-after-recovery-error:{}", storecheck::short(&e)),
                    format!("after {what}: load({}) failed: {e}", vcore::esc(k)),
                ));
                return out;
            }
        }
    }
    let explains = |m: &Model| {
        reads
            .iter()
            .all(|(k, v)| m.get(k).cloned().unwrap_or(None) == *v)
    };
    if !candidates.iter().any(explains) {
        // classify against the acked model
        let m = &candidates[0];
        let mut kinds = BTreeSet::new();
        for (k, v) in reads.iter() {
            let want = m.get(k).cloned().unwrap_or(None);
            if want != *v {
                kinds.insert(match (&want, v) {
                    (Some(_), None) => "acknowledged-write-lost",
                    (None, Some(_)) => "deleted-or-unwritten-key-present",
                    (Some(_), Some(_)) => "stale-or-foreign-value",
                    _ => "?",
                });
            }
        }
        let partial = candidates.len() > 1 && {
            // every key matches acked or acked+inflight individually, but not one model as a whole
            reads.iter().all(|(k, v)| {
                candidates
                    .iter()
                    .any(|m| m.get(k).cloned().unwrap_or(None) == *v)
            })
        };
        let kind = if partial {
            "batch-partially-applied".to_string()
        } else {
            kinds.into_iter().collect::<Vec<_>>().join("+")
        };
        out.push((
            format!("{pfx}:recovered-state:{kind}"),
            format!(
                "after {what} the reopened store reads {} but the acknowledged writes say {}{}",
                reads
                    .iter()
                    .map(|(k, v)| format!("{}={}", vcore::esc(k), storecheck::fmtv(v)))
                    .collect::<Vec<_>>()
                    .join(", "),
                storecheck::fmt_model(&candidates[0]),
                if candidates.len() > 1 {
                    format!(" (or, with the in-flight write, {})", storecheck::fmt_model(&candidates[1]))
                } else {
                    String::new()
                }
            ),
        ));
        return out;
    }
    if plan.prop == "C08" {
        out.extend(storecheck::check_files_present(&st));
    }
    // the store is usable without manual repair: one more write, a flush, compaction to idle
    let mut st = st;
    st.model = candidates.iter().find(|m| explains(m)).unwrap().clone();
    st.step = 1000;
    for op in [Op::Put(1), Op::Flush, Op::CompactAll] {
        if let StepResult::Err(e) = st.apply(&op) {
            out.push((
                format!("{pfx}:unusable-after-recovery:{}:{}", op.name().split(':').next().unwrap(), storecheck::short(&e)),
                format!("after {what} and a successful reopen, {} failed: {e}", op.name()),
            ));
            return out;
        }
    }
    for f in storecheck::check_point_reads(&st) {
        out.push((format!("{pfx}:after-recovery:{}", f.0), format!("after {what}: {}", f.1)));
    }
    out
}

struct Stats {
    images: u64,
    recoveries: u64,
    deduped: u64,
    variant_cap_hits: u64,
    fault_runs: u64,
    validated: u64,
}

fn explore_history(
    plan: &Plan,
    cfg: &Cfg,
    ops: &[Op],
    scratch: &Scratch,
    rep: &mut Report,
    seen_images: &mut HashSet<u64>,
    stats: &mut Stats,
) -> bool {
    let live = scratch.sub("live");
    let imgdir = scratch.sub("img");
    let rec = record(cfg, ops, &live, None);
    rep.evaluations += 1;
    if !rec.unmodelled.is_empty() {
        rep.count("unmodelled_calls", rec.unmodelled.len() as u64);
        rep.notes.insert("unmodelled".into(), json!(rec.unmodelled));
    }
    if let Some(e) = rec.open_error {
        rep.violation(Violation {
            property: plan.prop.clone(),
            signature: format!("{}:open-error", plan.prop.to_lowercase()),
            detail: e,
            case: json!({"prop": plan.prop, "cfg": cfg.to_json(), "ops": ops_to_json(ops), "crash": null}),
        });
        return false;
    }
    // the last op decides whether this history is worth extending / exploring
    let extendable = match rec.ops.last() {
        None => true,
        Some((_, _, _, _, Ok(true))) => true,
        Some((_, _, _, _, Ok(false))) => {
            rep.pruned_noops += 1;
            return false;
        }
        Some((_, _, _, _, Err(_))) => {
            // fault-free errors are C01's business
            rep.count("histories_ending_in_error", 1);
            return false;
        }
    };
    // bind the journal model to the real file system
    let full = Image::from_prefix(&live, &rec.journal, rec.journal.len());
    match full {
        Err(e) => {
            rep.count("journal_model_errors", 1);
            rep.notes.insert("journal_model_error".into(), json!(e));
        }
        Ok(img) => {
            let (files, _dirs) = crashmc::snapshot_dir(&live);
            let modelled = img.contents(&BTreeSet::new());
            if files != modelled {
                rep.count("journal_model_mismatches", 1);
                let mut diff = vec![];
                for (p, d) in files.iter() {
                    match modelled.get(p) {
                        None => diff.push(format!("{} only on disk", p.display())),
                        Some(m) if m != d => diff.push(format!("{} differs ({} vs {} bytes)", p.display(), d.len(), m.len())),
                        _ => {}
                    }
                }
                for p in modelled.keys() {
                    if !files.contains_key(p) {
                        diff.push(format!("{} only in model", p.display()));
                    }
                }
                rep.notes.insert("journal_model_mismatch".into(), json!({"ops": ops_to_json(ops), "diff": diff}));
            } else {
                rep.traces_validated += 1;
                stats.validated += 1;
            }
        }
    }
    // crash points inside the last operation (inside open for the empty history)
    let (first, last_begin) = match rec.ops.last() {
        None => (0usize, 0usize),
        Some((b, _, _, _, _)) => (*b, *b),
    };
    let _ = last_begin;
    let n = rec.journal.len();
    let last_idx = ops.len().saturating_sub(1);
    let acked_before = model_after(ops, ops.len().saturating_sub(1), &value_for);
    let acked_after = model_after(ops, ops.len(), &value_for);
    let last_is_write = ops.last().map(|o| o.is_client_write()).unwrap_or(false);
    let end_of_last = rec.ops.last().map(|x| x.1).unwrap_or(n);
    for k in first..=n {
        // a crash point is "before journal record k"; only mutations (and the very end) matter
        if k < n && !rec.journal[k].is_mutation() {
            continue;
        }
        if ops.is_empty() && k > rec.opened_at && k < n {
            continue;
        }
        let img = match Image::from_prefix(&live, &rec.journal, k) {
            Ok(i) => i,
            Err(_) => continue,
        };
        stats.images += 1;
        // which models are admissible at this point
        let ended = k >= end_of_last && !ops.is_empty();
        let candidates: Vec<Model> = if ops.is_empty() {
            vec![Model::new()]
        } else if ended {
            vec![acked_after.clone()]
        } else if last_is_write {
            vec![acked_before.clone(), acked_after.clone()]
        } else {
            vec![acked_before.clone()]
        };
        let (variants, capped) = img.loss_variants(64);
        if capped {
            stats.variant_cap_hits += 1;
        }
        for (vi, dropped) in variants.iter().enumerate() {
            let h = vcore::stable_hash(&(img.hash(dropped), vcore::stable_hash(&candidates), &cfg.name, &plan.prop));
            if !seen_images.insert(h) {
                stats.deduped += 1;
                continue;
            }
            rep.states.insert(h);
            if vi > 0 {
                rep.nontrivial.insert(h);
            }
            let _ = std::fs::remove_dir_all(&imgdir);
            img.materialise(&imgdir, dropped).expect("materialise");
            stats.recoveries += 1;
            rep.transitions += 1;
            let what = format!(
                "a crash before call #{k} ({}) of history [{}]{}",
                if k < n { rec.journal[k].describe(&live) } else { "end of history".to_string() },
                ops.iter().map(|o| o.name()).collect::<Vec<_>>().join(", "),
                if dropped.is_empty() {
                    String::new()
                } else {
                    format!(
                        " with unsynced writes lost: {}",
                        dropped.iter().map(|i| rec.journal[*i].describe(&live)).collect::<Vec<_>>().join("; ")
                    )
                }
            );
            let findings = recover_and_judge(plan, cfg, &imgdir, &candidates, &what);
            rep.outcomes.insert(vcore::stable_hash(&(findings.len(), candidates.len(), ended)));
            for (sig, detail) in findings {
                // replay before report: materialise and recover once more
                let _ = std::fs::remove_dir_all(&imgdir);
                img.materialise(&imgdir, dropped).expect("materialise");
                let again = recover_and_judge(plan, cfg, &imgdir, &candidates, &what);
                if !again.iter().any(|(s, _)| *s == sig) {
                    rep.count("non_reproducible_findings", 1);
                    continue;
                }
                let sig = format!("{sig}:during-{}", if ops.is_empty() { "open".to_string() } else { ops[last_idx].name().split(':').next().unwrap().to_string() });
                rep.violation(Violation {
                    property: plan.prop.clone(),
                    signature: sig,
                    detail,
                    case: json!({
                        "prop": plan.prop, "cfg": cfg.to_json(), "ops": ops_to_json(ops),
                        "crash": {"k": k, "dropped": dropped.iter().collect::<Vec<_>>()},
                    }),
                });
            }
        }
    }
    // single faults inside the last operation
    if plan.faults && plan.prop == "C02" {
        if let Some((_, _, cb, ce, _)) = rec.ops.last() {
            for j in *cb..*ce {
                for fault in [Fault::Errno(libc::EIO), Fault::Errno(libc::ENOSPC), Fault::ShortWrite] {
                    let fr = record(cfg, ops, &live, Some((j, fault)));
                    stats.fault_runs += 1;
                    rep.transitions += 1;
                    let Some(fired) = fr.fault_fired.clone() else {
                        continue;
                    };
                    if fault == Fault::ShortWrite && !fired.starts_with("write") {
                        continue;
                    }
                    let fname = match fault {
                        Fault::Errno(e) if e == libc::EIO => "EIO",
                        Fault::Errno(_) => "ENOSPC",
                        Fault::ShortWrite => "short-write",
                    };
                    let what = format!(
                        "{fname} injected at {} during the last step of [{}]",
                        fired.replace(live.to_string_lossy().as_ref(), ""),
                        ops.iter().map(|o| o.name()).collect::<Vec<_>>().join(", ")
                    );
                    let call_kind = fired.split(' ').next().unwrap_or("?").to_string();
                    let last = fr.ops.last();
                    let mut findings: Vec<(String, String)> = vec![];
                    let mut candidates: Vec<Model> = vec![];
                    match last.map(|x| &x.4) {
                        Some(Err(e)) if e.starts_with("panic") => {
                            findings.push((
                                format!("c02:fault:panic:{fname}@{call_kind}:{}", storecheck::short(e)),
                                format!("{what}: the operation panicked instead of returning the error: {e}"),
                            ));
                        }
                        Some(Err(_)) => {
                            // surfaced; the write may or may not have taken effect
                            candidates.push(acked_before.clone());
                            if last_is_write {
                                candidates.push(acked_after.clone());
                            }
                        }
                        Some(Ok(_)) => {
                            // returned success: it counts as acknowledged
                            candidates.push(acked_after.clone());
                        }
                        None => {}
                    }
                    if fr.ops.len() < ops.len() {
                        // an earlier op failed: cannot happen, the fault index lies in the last op
                        continue;
                    }
                    if !candidates.is_empty() {
                        let nn = fr.journal.len();
                        if let Ok(img) = Image::from_prefix(&live, &fr.journal, nn) {
                            let (variants, _) = img.loss_variants(16);
                            for dropped in variants.iter() {
                                let h = vcore::stable_hash(&(img.hash(dropped), vcore::stable_hash(&candidates), &cfg.name, "fault"));
                                if !seen_images.insert(h) {
                                    stats.deduped += 1;
                                    continue;
                                }
                                rep.states.insert(h);
                                rep.nontrivial.insert(h);
                                let _ = std::fs::remove_dir_all(&imgdir);
                                img.materialise(&imgdir, dropped).expect("materialise");
                                stats.recoveries += 1;
                                let w2 = if dropped.is_empty() {
                                    what.clone()
                                } else {
                                    format!("{what}, then a crash losing unsynced writes")
                                };
                                for (s, d) in recover_and_judge(plan, cfg, &imgdir, &candidates, &w2) {
                                    findings.push((format!("{s}:after-{fname}@{call_kind}"), d));
                                }
                            }
                        }
                    }
                    rep.outcomes.insert(vcore::stable_hash(&(findings.len(), fname, last.map(|x| x.4.is_ok()))));
                    for (sig, detail) in findings {
                        rep.violation(Violation {
                            property: plan.prop.clone(),
                            signature: format!("{sig}:during-{}", ops[last_idx].name().split(':').next().unwrap()),
                            detail,
                            case: json!({
                                "prop": plan.prop, "cfg": cfg.to_json(), "ops": ops_to_json(ops),
                                "fault": {"call": j, "kind": fname},
                            }),
                        });
                    }
                }
            }
        }
    }
    extendable
}

fn explore(
    plan: &Plan,
    cfg: &Cfg,
    ops: &mut Vec<Op>,
    scratch: &Scratch,
    rep: &mut Report,
    seen: &mut HashSet<u64>,
    stats: &mut Stats,
) {
    let extend = explore_history(plan, cfg, ops, scratch, rep, seen, stats);
    if rep.evaluations % 211 == 1 {
        rep.sample(json!({"cfg": cfg.name, "ops": ops_to_json(ops)}));
    }
    if !extend || ops.len() >= plan.depth {
        return;
    }
    for op in plan.alphabet.iter() {
        ops.push(op.clone());
        explore(plan, cfg, ops, scratch, rep, seen, stats);
        ops.pop();
    }
}

fn main() {
    let args = Args::parse();
    vcore::quiet_panics();
    if let Some(rf) = args.replay_case() {
        replay(&rf);
        return;
    }
    let prop = args.get("prop").unwrap_or("C02").to_string();
    let thorough = args.tier_thorough();
    let depth = args.usize("depth", if thorough { 4 } else { 3 });
    let plan = Plan {
        prop: prop.clone(),
        alphabet: alphabet_for(&prop),
        depth,
        faults: !args.flag("no-faults"),
    };
    let grid = config_grid();
    let cfg_names: Vec<String> = args
        .get("cfgs")
        .unwrap_or("A-min,B-l0")
        .split(',')
        .map(|s| s.to_string())
        .collect();
    let cfgs: Vec<Cfg> = cfg_names
        .iter()
        .map(|n| grid.iter().find(|c| &c.name == n).unwrap_or_else(|| panic!("no row {n}")).clone())
        .collect();
    // work items: (cfg, first op) and the curated long histories (explored as single histories
    // with every crash point of every op: use depth-first over their prefixes)
    enum Item {
        Tree(Cfg, Vec<Op>),
        Curated(Cfg, Vec<Op>),
    }
    let mut items = vec![];
    for cfg in cfgs.iter() {
        items.push(Item::Tree(cfg.clone(), vec![]));
        for op in plan.alphabet.iter() {
            for op2 in plan.alphabet.iter() {
                items.push(Item::Tree(cfg.clone(), vec![op.clone(), op2.clone()]));
            }
            items.push(Item::Tree(cfg.clone(), vec![op.clone()]));
        }
        if !args.flag("no-curated") {
            for h in curated() {
                for n in 3..=h.len() {
                    items.push(Item::Curated(cfg.clone(), h[..n].to_vec()));
                }
            }
        }
    }
    let job = format!("crash_store-{prop}");
    let plan_ref = &plan;
    let mut total = vcore::parallel(items, args.threads(), || Report::new(&job, &prop), |item, rep| {
        let scratch = Scratch::new("crash");
        let mut seen = HashSet::new();
        let mut stats = Stats { images: 0, recoveries: 0, deduped: 0, variant_cap_hits: 0, fault_runs: 0, validated: 0 };
        match item {
            Item::Tree(cfg, prefix) => {
                let mut p = plan_ref.clone();
                let mut ops = prefix.clone();
                if prefix.len() < 2 {
                    // the node itself only; its subtree is covered by the two-op items
                    p.depth = prefix.len();
                }
                if prefix.len() == 2 {
                    // a two-op prefix whose first op is a no-op is not a history: check by running
                    // the one-op prefix first
                    let r = record(cfg, &prefix[..1], &scratch.sub("live"), None);
                    if !matches!(r.ops.last(), Some((_, _, _, _, Ok(true)))) {
                        return;
                    }
                }
                explore(&p, cfg, &mut ops, &scratch, rep, &mut seen, &mut stats);
            }
            Item::Curated(cfg, ops) => {
                let mut p = plan_ref.clone();
                p.faults = false;
                let mut ops = ops.clone();
                p.depth = ops.len();
                explore(&p, cfg, &mut ops, &scratch, rep, &mut seen, &mut stats);
            }
        }
        rep.count("crash_images", stats.images);
        rep.count("recoveries_run", stats.recoveries);
        rep.count("images_deduplicated", stats.deduped);
        rep.count("loss_variant_cap_hits", stats.variant_cap_hits);
        rep.count("fault_injection_runs", stats.fault_runs);
    });
    if total.counters.get("journal_model_mismatches").copied().unwrap_or(0) > 0
        || total.counters.get("unmodelled_calls").copied().unwrap_or(0) > 0
        || total.counters.get("journal_model_errors").copied().unwrap_or(0) > 0
    {
        eprintln!("MACHINERY: the journal model does not match the real file system: {:?}", total.notes);
        total.finish(&args, "crash_store");
        std::process::exit(3);
    }
    if total.counters.get("loss_variant_cap_hits").copied().unwrap_or(0) > 0 {
        total.cap("64 loss variants per crash point");
    }
    total.bound = json!({
        "depth": depth,
        "alphabet": plan.alphabet.iter().map(|o| o.name()).collect::<Vec<_>>(),
        "configurations": cfg_names,
        "curated_histories": curated().iter().map(|h| ops_to_json(h)).collect::<Vec<_>>(),
        "faults": ["EIO", "ENOSPC", "short write"],
        "persistence_models": ["(a) every completed call persists", "(b) trailing unsynced write calls of any subset of files lost"],
    });
    total.rule = format!("every history of length <= {depth} over the alphabet (plus every prefix of 4 curated 10-12 step histories), executed on the real store under the syscall journal; for each, every crash point inside its last operation (before each mutating system call, and after the last), in model (a) and in every loss variant of model (b); and every single EIO / ENOSPC / short write at each mutating call of the last operation; evaluations = histories, transitions = recoveries + fault runs, states = distinct (image, admissible models) pairs actually recovered (identical images are recovered once), non-trivial = images that lost unsynced writes or followed an injected fault");
    total.assumptions = vec![
        "crash granularity is the system call; directory operations persist when they return".into(),
        "the journal model is compared with the real directory after every recorded history (traces_validated_against_impl)".into(),
    ];
    total.finish(&args, "crash_store");
}

fn replay(rf: &vcore::Value) {
    let case = &rf["case"];
    let prop = case["prop"].as_str().unwrap().to_string();
    let cfg = Cfg::from_json(&case["cfg"]);
    let ops = ops_from_json(&case["ops"]);
    let plan = Plan { prop: prop.clone(), alphabet: vec![], depth: ops.len(), faults: true };
    let scratch = Scratch::new("replay");
    let mut rep = Report::new("replay", &prop);
    let mut seen = HashSet::new();
    let mut stats = Stats { images: 0, recoveries: 0, deduped: 0, variant_cap_hits: 0, fault_runs: 0, validated: 0 };
    if std::env::var("VERIF_DUMP_JOURNAL").is_ok() {
        let live = scratch.sub("live");
        let rec = record(&cfg, &ops, &live, None);
        for (i, r) in rec.journal.iter().enumerate() {
            println!("  #{i}: {}", r.describe(&live));
        }
    }
    println!("replaying every crash point and fault of the last step of {:?} on {}", ops.iter().map(|o| o.name()).collect::<Vec<_>>(), cfg.name);
    explore_history(&plan, &cfg, &ops, &scratch, &mut rep, &mut seen, &mut stats);
    let want = rf["signature"].as_str().unwrap_or("");
    let mut hit = false;
    for v in rep.violations.iter() {
        println!("finding {}: {}", v.signature, v.detail);
        if v.signature == want {
            hit = true;
        }
    }
    println!("{} images recovered", stats.recoveries);
    if hit {
        println!("REPRODUCED {want}");
        std::process::exit(1);
    }
    std::process::exit(if rep.violations.is_empty() { 0 } else { 1 });
}
