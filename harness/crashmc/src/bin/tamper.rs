//! C04, reject half: the offline verifiers must refuse a history in which one transaction's
//! added / removed / discarded data was altered.
//!
//! A curated history (flushes, moves, garbage collections, reopen, many manifest fragments) is
//! produced by the real store.  Then EVERY single tamper of two kinds is applied to a copy of the
//! directory and the verifiers are run on it:
//!   (A) one hex digit of one recorded digest (`+`, `-`, `I`, `O`, `D` line of any edit of any
//!       fragment), with the line CRC fixed up, and also without;
//!   (B) one entry of one output SST of one compaction / GC transaction dropped (newest version
//!       of its key), duplicated as an invented older version, or its value modified; the SST is
//!       rebuilt by the real SstBuilder and renamed consistently everywhere; in flavour (i) all
//!       I/O/D digests are left alone, in flavour (ii) every I/O/D of the whole chain is
//!       re-derived so that the manifest balances and only the data-level GC check can object.
//! Oracle: the untampered copy is accepted (no corruption reported); every tampered copy is
//! refused by LsmVerifier::verify or ManifestVerifier::verify (the lsmtk offline verifiers).

use std::collections::BTreeMap;
use std::path::{Path, PathBuf};

use seqmc::refcursor::Entry;
use seqmc::store::{Cfg, Op, StepResult, Store, dump_sst};
use setsum::Setsum;
use sst::Builder;
use vcore::{Args, Report, Scratch, Violation, json};

/// `policy` may carry a rollover ratio: "versions = 1 @1000" keeps many transactions in one
/// manifest fragment (the default, ratio 1, gives one fragment per transaction).
fn cfg(policy: &str) -> Cfg {
    let (policy, ratio) = match policy.split_once(" @") {
        Some((p, r)) => (p, r),
        None => (policy, "1"),
    };
    Cfg::new(
        &format!("tamper-{}-ratio{ratio}", policy.replace(' ', "")),
        &[
            ("memtable-size-bytes", "0"),
            ("l0-mandatory-compaction-threshold-files", "1"),
            ("l0-write-stall-threshold-files", "3"),
            ("mani-log-rollover-ratio", ratio),
            ("sst-cache-bytes", "0"),
            ("sst-target-file-size", "4096"),
            ("sst-minimum-file-size", "4096"),
            ("gc-policy", policy),
        ],
    )
}

fn history(which: usize) -> Vec<Op> {
    use Op::*;
    match which {
        0 => vec![
            Put(0), Put(1), Put(2), Flush, CompactAll,
            Del(0), Put(1), Del(2), Flush, CompactAll,
            Put(0), Put(1), Flush, CompactAll,
            Put(2), Flush, CompactAll,
            Put(0), Flush, CompactAll, Put(1), Flush, CompactAll, Put(2), Flush, CompactAll,
            Reopen,
        ],
        2 => {
            let mut v = history(0);
            v.extend([Put(0), Flush, Reopen, Put(1), Flush, Reopen]);
            v
        }
        _ => vec![
            PutHuge(0), PutHuge(1), Flush, CompactAll,
            PutHuge(1), PutHuge(2), Flush, CompactAll,
            PutHuge(0), Flush, CompactAll,
            Del(1), Put(0), Flush, CompactAll,
            Put(2), Flush, CompactAll, Put(0), Flush, CompactAll, Put(1), Flush, CompactAll,
            Reopen,
        ],
    }
}

#[derive(Clone, Debug)]
struct Line {
    kind: char, // '+', '-', or an info key
    payload: String,
}

#[derive(Clone, Debug)]
struct EditText {
    lines: Vec<Line>,
}

fn crc_line(kind: char, payload: &str) -> String {
    let body = format!("{kind}{payload}");
    format!("{:08x}{body}\n", crc32c(body.as_bytes()))
}

/// CRC-32C (Castagnoli), bitwise; independent of the crate the manifest uses.
fn crc32c(data: &[u8]) -> u32 {
    let mut crc: u32 = !0;
    for &b in data {
        crc ^= b as u32;
        for _ in 0..8 {
            crc = if crc & 1 != 0 { (crc >> 1) ^ 0x82F63B78 } else { crc >> 1 };
        }
    }
    !crc
}

fn parse_fragment(path: &Path) -> Vec<EditText> {
    let text = std::fs::read_to_string(path).unwrap_or_default();
    let mut edits = vec![];
    let mut cur = EditText { lines: vec![] };
    for l in text.lines() {
        if l == "--------" {
            edits.push(cur);
            cur = EditText { lines: vec![] };
        } else if l.len() >= 9 {
            let kind = l.as_bytes()[8] as char;
            cur.lines.push(Line { kind, payload: l[9..].to_string() });
        }
    }
    edits
}

fn write_fragment(path: &Path, edits: &[EditText]) {
    let mut s = String::new();
    for e in edits {
        for l in e.lines.iter() {
            s += &crc_line(l.kind, &l.payload);
        }
        s += "--------\n";
    }
    std::fs::write(path, s).expect("write fragment");
}

fn fragments(dir: &Path) -> Vec<PathBuf> {
    seqmc::storecheck::fragments(dir)
}

#[derive(Debug, PartialEq, Clone)]
enum Verdict {
    Accepted,
    /// the verifier is waiting for a file to appear in trash/: nothing was decided
    Backoff(String),
    Refused(String),
    Panicked(String),
}

/// Run the lsmtk offline verifiers on `dir` (destructive: LsmVerifier unlinks what it verified).
fn verify_dir(c: &Cfg, dir: &Path) -> Verdict {
    for f in fragments(dir) {
        if !f.exists() {
            continue;
        }
        match vcore::catch(|| lsmtk::ManifestVerifier::open().and_then(|v| v.verify(&f))) {
            Err(p) => return Verdict::Panicked(p),
            Ok(Err(e)) => return Verdict::Refused(format!("ManifestVerifier: {e}")),
            Ok(Ok(_)) => {}
        }
    }
    // the manifest's own offline verifier (fragments consecutive, every fragment begins with the
    // roll-up of its predecessor)
    {
        let mani_root = lsmtk::MANI_ROOT(dir);
        let errs: Result<Vec<String>, String> = vcore::catch(|| {
            silence_stdout(|| {
                mani::Manifest::verify(mani::ManifestOptions::default(), &mani_root)
                    .map(|e| e.to_string())
                    .collect()
            })
        });
        match errs {
            Err(p) => return Verdict::Panicked(p),
            Ok(v) if !v.is_empty() => return Verdict::Refused(format!("Manifest::verify: {}", v[0])),
            _ => {}
        }
    }
    verify_lsm_only(c, dir)
}

/// LsmVerifier alone (it is the one that unlinks what it verified).
fn verify_lsm_only(c: &Cfg, dir: &Path) -> Verdict {
    let opts = c.options(dir);
    match vcore::catch(|| {
        let mut v = lsmtk::LsmVerifier::open(opts)?;
        v.verify()
    }) {
        Err(p) => Verdict::Panicked(p),
        Ok(Err(e)) => {
            if lsmtk::error_code(&e) == Some(lsmtk::CODE_BACKOFF) {
                Verdict::Backoff(lsmtk::backoff_path(&e).unwrap_or_default())
            } else {
                Verdict::Refused(format!("LsmVerifier: {e}"))
            }
        }
        Ok(Ok(())) => Verdict::Accepted,
    }
}

/// Manifest::verify prints to stdout; keep the harness output clean.
fn silence_stdout<R>(f: impl FnOnce() -> R) -> R {
    static LOCK: std::sync::Mutex<()> = std::sync::Mutex::new(());
    let _g = LOCK.lock().unwrap();
    unsafe {
        let saved = libc::dup(1);
        let null = libc::open(c"/dev/null".as_ptr(), libc::O_WRONLY);
        libc::dup2(null, 1);
        let r = f();
        libc::dup2(saved, 1);
        libc::close(saved);
        libc::close(null);
        r
    }
}

fn build_sst(entries: &[Entry], path: &Path) -> Result<Setsum, String> {
    let _ = std::fs::remove_file(path);
    let mut b = sst::SstBuilder::new(sst::SstOptions::default(), path).map_err(|e| e.to_string())?;
    for e in entries {
        match &e.value {
            Some(v) => b.put(&e.key, e.ts, v).map_err(|e| e.to_string())?,
            None => b.del(&e.key, e.ts).map_err(|e| e.to_string())?,
        }
    }
    let s = b.seal().map_err(|e| e.to_string())?;
    Ok(s.fast_setsum().into_inner())
}

/// Recompute every I/O/D of the whole chain from the adds/removes (flavour ii), so that the
/// manifest is completely self-consistent: I = previous O, D = removed - added, O = I - D, and
/// every roll-up restates the O, I and D of the transaction before it.
fn rederive(frags: &mut [(PathBuf, Vec<EditText>)]) {
    let mut acc = Setsum::default();
    let mut last_i = Setsum::default();
    let mut last_d = Setsum::default();
    let mut first_ever = true;
    for (_, edits) in frags.iter_mut() {
        for (ei, e) in edits.iter_mut().enumerate() {
            if !e.lines.iter().any(|l| l.kind == 'O') {
                continue;
            }
            if ei == 0 {
                if first_ever {
                    // the oldest fragment present: its roll-up defines the starting point
                    let mut sum = Setsum::default();
                    for l in e.lines.iter() {
                        if l.kind == '+' {
                            if let Some(s) = Setsum::from_hexdigest(&l.payload) {
                                sum += s;
                            }
                        }
                    }
                    acc = sum;
                    for l in e.lines.iter_mut() {
                        if l.kind == 'O' {
                            l.payload = acc.hexdigest();
                        }
                    }
                    last_i = e.lines.iter().find(|l| l.kind == 'I').and_then(|l| Setsum::from_hexdigest(&l.payload)).unwrap_or_default();
                    last_d = e.lines.iter().find(|l| l.kind == 'D').and_then(|l| Setsum::from_hexdigest(&l.payload)).unwrap_or_default();
                } else {
                    for l in e.lines.iter_mut() {
                        match l.kind {
                            'O' => l.payload = acc.hexdigest(),
                            'I' => l.payload = last_i.hexdigest(),
                            'D' => l.payload = last_d.hexdigest(),
                            _ => {}
                        }
                    }
                }
            } else {
                let mut d = Setsum::default();
                for l in e.lines.iter() {
                    if let Some(s) = Setsum::from_hexdigest(&l.payload) {
                        if l.kind == '+' {
                            d -= s;
                        } else if l.kind == '-' {
                            d += s;
                        }
                    }
                }
                let i = acc;
                let o = i - d;
                for l in e.lines.iter_mut() {
                    match l.kind {
                        'I' => l.payload = i.hexdigest(),
                        'O' => l.payload = o.hexdigest(),
                        'D' => l.payload = d.hexdigest(),
                        _ => {}
                    }
                }
                acc = o;
                last_i = i;
                last_d = d;
            }
            first_ever = false;
        }
    }
}

struct Base {
    cfg: Cfg,
    dir: PathBuf,
    _scratch: Scratch,
}

fn build_base(which: usize, policy: &str) -> Result<Base, String> {
    let scratch = Scratch::new("tamper-base");
    let dir = scratch.sub("db");
    let c = cfg(policy);
    let mut st = Store::open(&c, &dir)?;
    for op in history(which) {
        if let StepResult::Err(e) = st.apply(&op) {
            return Err(format!("{}: {e}", op.name()));
        }
    }
    drop(st);
    Ok(Base { cfg: c, dir, _scratch: scratch })
}

#[derive(Clone)]
enum Tamper {
    Digit { frag: usize, edit: usize, line: usize, pos: usize, fix_crc: bool },
    Entry { frag: usize, edit: usize, line: usize, entry: usize, how: u8, rederive: bool },
}

fn describe(t: &Tamper) -> String {
    match t {
        Tamper::Digit { frag, edit, line, pos, fix_crc } => format!("digit {pos} of line {line} of edit {edit} of fragment #{frag}, crc {}", if *fix_crc { "fixed" } else { "stale" }),
        Tamper::Entry { frag, edit, line, entry, how, rederive } => format!(
            "entry {entry} of the output on line {line} of edit {edit} of fragment #{frag} {}, I/O/D {}",
            ["dropped", "duplicated as an invented older version", "value modified"][*how as usize],
            if *rederive { "re-derived for the whole chain" } else { "left alone" }
        ),
    }
}

/// Apply the tamper to a fresh copy of the base directory; returns the directory and a
/// structural class for the signature, or None if the tamper is not applicable.
fn apply(base: &Base, t: &Tamper, work: &Path) -> Option<(PathBuf, String)> {
    let dir = work.join("db");
    let _ = std::fs::remove_dir_all(&dir);
    vcore::copy_dir(&base.dir, &dir).ok()?;
    let frag_paths: Vec<PathBuf> = fragments(&dir).into_iter().filter(|p| p.exists()).collect();
    match t {
        Tamper::Digit { frag, edit, line, pos, fix_crc } => {
            if *frag == 0 && *edit == 0 {
                // the oldest fragment still present has no predecessor to be compared with
                return None;
            }
            let path = frag_paths.get(*frag)?;
            let mut edits = parse_fragment(path);
            let l = edits.get_mut(*edit)?.lines.get_mut(*line)?;
            let kind = l.kind;
            let mut bytes = l.payload.clone().into_bytes();
            let b = *bytes.get(*pos)?;
            let v = (b as char).to_digit(16)?;
            bytes[*pos] = std::char::from_digit((v + 1) % 16, 16)? as u8;
            let rollup = *edit == 0;
            if *fix_crc {
                l.payload = String::from_utf8(bytes).ok()?;
                write_fragment(path, &edits);
            } else {
                // rewrite only the payload, keep the old crc
                let text = std::fs::read_to_string(path).ok()?;
                let old = crc_line(kind, &l.payload);
                let new_payload = String::from_utf8(bytes).ok()?;
                let stale = format!("{}{kind}{new_payload}\n", &old[..8]);
                let text = text.replacen(&old, &stale, 1);
                std::fs::write(path, text).ok()?;
            }
            let which = match kind {
                '+' => "added",
                '-' => "removed",
                'I' => "input",
                'O' => "output",
                'D' => "discard",
                _ => return None,
            };
            Some((dir, format!("digit:{which}:{}:{}", if rollup { "roll-up-edit" } else { "transaction" }, if *fix_crc { "crc-fixed" } else { "crc-stale" })))
        }
        Tamper::Entry { frag, edit, line, entry, how, rederive: rd } => {
            let mut all: Vec<(PathBuf, Vec<EditText>)> = frag_paths.iter().map(|p| (p.clone(), parse_fragment(p))).collect();
            let e = all.get(*frag)?.1.get(*edit)?;
            let l = e.lines.get(*line)?;
            if l.kind != '+' || *edit == 0 {
                return None;
            }
            let is_gc = e.lines.iter().any(|x| x.kind == 'D' && Setsum::from_hexdigest(&x.payload).map(|d| d != Setsum::default()).unwrap_or(false));
            let has_rm = e.lines.iter().any(|x| x.kind == '-');
            if !has_rm {
                return None; // an ingest, not a compaction output
            }
            if std::env::var("VERIF_TRACE").is_ok() {
                eprintln!("victim line: {}{} ; edit has {} lines", l.kind, l.payload, e.lines.len());
            }
            if e.lines.iter().any(|x| x.kind == '-' && x.payload == l.payload) {
                // the compaction re-created one of its inputs byte for byte: renaming it
                // everywhere would rewrite its whole past, which is a different (consistent) history
                return None;
            }
            let old = Setsum::from_hexdigest(&l.payload)?;
            let old_hex = l.payload.clone();
            // the output file may live in sst/ or already in trash/
            let src = [lsmtk::SST_FILE(&dir, old), lsmtk::TRASH_SST(&dir, old)].into_iter().find(|p| p.exists())?;
            let mut entries = dump_sst(&src).ok()?;
            entries.sort_by(seqmc::refcursor::entry_order);
            let victim = entries.get(*entry)?.clone();
            match how {
                0 => {
                    // drop -- only the newest version of its key (every policy must retain it
                    // unless it is a tombstone)
                    let newest = entries.iter().filter(|x| x.key == victim.key).map(|x| x.ts).max()?;
                    if victim.ts != newest || victim.value.is_none() {
                        return None;
                    }
                    entries.remove(*entry);
                }
                1 => {
                    if victim.ts == 0 {
                        return None;
                    }
                    let ts = victim.ts - 1;
                    if entries.iter().any(|x| x.key == victim.key && x.ts == ts) {
                        return None;
                    }
                    let mut dup = victim.clone();
                    dup.ts = ts;
                    dup.value = Some(b"invented".to_vec());
                    entries.push(dup);
                    entries.sort_by(seqmc::refcursor::entry_order);
                }
                _ => {
                    let v = victim.value.clone()?;
                    let mut v2 = v.clone();
                    v2.push(b'!');
                    entries[*entry].value = Some(v2);
                }
            }
            if entries.is_empty() {
                return None;
            }
            let tmp = dir.join("tmp").join("tampered.sst");
            let new = build_sst(&entries, &tmp).ok()?;
            let new_hex = new.hexdigest();
            let dst = src.parent()?.join(format!("{new_hex}.sst"));
            std::fs::rename(&tmp, &dst).ok()?;
            let _ = std::fs::remove_file(&src);
            // rename consistently everywhere
            for (_, edits) in all.iter_mut() {
                for ed in edits.iter_mut() {
                    for ln in ed.lines.iter_mut() {
                        if (ln.kind == '+' || ln.kind == '-') && ln.payload == old_hex {
                            ln.payload = new_hex.clone();
                        }
                    }
                }
            }
            if *rd {
                rederive(&mut all);
            }
            for (p, edits) in all.iter() {
                write_fragment(p, edits);
            }
            Some((
                dir,
                format!(
                    "entry:{}:{}:{}",
                    ["newest-version-dropped", "older-version-invented", "value-modified"][*how as usize],
                    if is_gc { "gc-output" } else { "compaction-output" },
                    if *rd { "digests-rederived" } else { "digests-left-alone" }
                ),
            ))
        }
    }
}

fn enumerate(base: &Base) -> Vec<Tamper> {
    let mut out = vec![];
    let frag_paths: Vec<PathBuf> = fragments(&base.dir).into_iter().filter(|p| p.exists()).collect();
    for (fi, p) in frag_paths.iter().enumerate() {
        let edits = parse_fragment(p);
        for (ei, e) in edits.iter().enumerate() {
            for (li, l) in e.lines.iter().enumerate() {
                if !matches!(l.kind, '+' | '-' | 'I' | 'O' | 'D') {
                    continue;
                }
                for pos in 0..l.payload.len() {
                    for fix_crc in [true, false] {
                        out.push(Tamper::Digit { frag: fi, edit: ei, line: li, pos, fix_crc });
                    }
                }
                if l.kind == '+' && ei > 0 {
                    for entry in 0..8 {
                        for how in 0..3u8 {
                            for rd in [false, true] {
                                out.push(Tamper::Entry { frag: fi, edit: ei, line: li, entry, how, rederive: rd });
                            }
                        }
                    }
                }
            }
        }
    }
    out
}

fn tamper_json(t: &Tamper) -> vcore::Value {
    match t {
        Tamper::Digit { frag, edit, line, pos, fix_crc } => json!({"kind": "digit", "frag": frag, "edit": edit, "line": line, "pos": pos, "fix_crc": fix_crc}),
        Tamper::Entry { frag, edit, line, entry, how, rederive } => json!({"kind": "entry", "frag": frag, "edit": edit, "line": line, "entry": entry, "how": how, "rederive": rederive}),
    }
}

fn tamper_from(v: &vcore::Value) -> Tamper {
    let u = |k: &str| v[k].as_u64().unwrap_or(0) as usize;
    if v["kind"] == "digit" {
        Tamper::Digit { frag: u("frag"), edit: u("edit"), line: u("line"), pos: u("pos"), fix_crc: v["fix_crc"].as_bool().unwrap_or(true) }
    } else {
        Tamper::Entry { frag: u("frag"), edit: u("edit"), line: u("line"), entry: u("entry"), how: u("how") as u8, rederive: v["rederive"].as_bool().unwrap_or(false) }
    }
}

fn main() {
    let args = Args::parse();
    vcore::quiet_panics();
    // the last base keeps the whole history in one fragment (a digest in the MIDDLE of a fragment is
    // chained on both sides) and reopens twice so that this fragment is old enough to be verified
    let bases_spec: Vec<(usize, &str)> = vec![(0, "versions = 1"), (1, "versions = 1"), (0, "versions = 2"), (2, "versions = 1 @1000")];
    if let Some(rf) = args.replay_case() {
        let c = &rf["case"];
        let which = c["history"].as_u64().unwrap() as usize;
        let policy = c["policy"].as_str().unwrap().to_string();
        let base = build_base(which, &policy).expect("base");
        let t = tamper_from(&c["tamper"]);
        let work = Scratch::new("tamper-replay");
        println!("tamper: {}", describe(&t));
        match apply(&base, &t, &work.path) {
            None => {
                println!("tamper not applicable");
                std::process::exit(0)
            }
            Some((dir, class)) => {
                for f in fragments(&dir) {
                    if f.exists() {
                        println!("--- {}", f.file_name().unwrap().to_string_lossy());
                        for (i, e) in parse_fragment(&f).iter().enumerate() {
                            println!("  edit {i}: {}", e.lines.iter().map(|l| format!("{}{}", l.kind, &l.payload[..l.payload.len().min(64)])).collect::<Vec<_>>().join(" "));
                        }
                    }
                }
                let v = if c["lsm_only"].as_bool().unwrap_or(false) { verify_lsm_only(&base.cfg, &dir) } else { verify_dir(&base.cfg, &dir) };
                println!("class {class}: verifiers say {v:?}");
                if v == Verdict::Accepted {
                    println!("REPRODUCED {}", rf["signature"].as_str().unwrap_or(""));
                    std::process::exit(1);
                }
                std::process::exit(0);
            }
        }
    }
    let mut total = Report::new("tamper", "C04");
    let mut fragments_seen = BTreeMap::new();
    for (which, policy) in bases_spec.iter() {
        let base = match build_base(*which, policy) {
            Ok(b) => b,
            Err(e) => {
                total.violation(Violation { property: "C04".into(), signature: "c04:tamper:history-failed".into(), detail: e, case: json!({"history": which, "policy": policy}) });
                continue;
            }
        };
        // accept half: the untampered copy
        let base_verdict;
        {
            let w = Scratch::new("tamper-accept");
            let d = w.sub("db");
            vcore::copy_dir(&base.dir, &d).expect("copy");
            let v = verify_dir(&base.cfg, &d);
            base_verdict = v.clone();
            total.evaluations += 1;
            if let Verdict::Backoff(p) = &v {
                // not a corruption report; the verifier waits (e.g. for a file that a compaction
                // re-created and that is therefore still live).  Tampers that end in the same
                // wait are inconclusive.
                total.notes.insert(format!("base-{which}-{}", policy.replace(' ', "")), json!(format!("LsmVerifier backs off on {p}")));
            } else if v != Verdict::Accepted {
                total.violation(Violation {
                    property: "C04".into(),
                    signature: "c04:verifier-rejects-genuine-history".into(),
                    detail: format!("history {which} under {policy}: {v:?}"),
                    case: json!({"history": which, "policy": policy, "tamper": {"kind": "none"}}),
                });
            }
        }
        fragments_seen.insert(format!("{which}/{policy}"), fragments(&base.dir).len());
        // which fragments does LsmVerifier itself work through (and unlink)?  A digest digit altered
        // in one of those must be refused by LsmVerifier on its own, not only by ManifestVerifier.
        let processed: Vec<bool> = {
            let w = Scratch::new("tamper-processed");
            let d = w.sub("db");
            vcore::copy_dir(&base.dir, &d).expect("copy");
            let before: Vec<PathBuf> = fragments(&d);
            let _ = verify_lsm_only(&base.cfg, &d);
            before.iter().map(|p| !p.exists()).collect()
        };
        let processed_ref = &processed;
        let tampers = enumerate(&base);
        let base_ref = &base;
        let rep = vcore::parallel(tampers, args.threads(), || Report::new("tamper", "C04"), |t, rep| {
            let work = Scratch::new("tamper");
            let Some((dir, class)) = apply(base_ref, t, &work.path) else {
                rep.pruned_noops += 1;
                return;
            };
            rep.evaluations += 1;
            rep.transitions += 1;
            rep.traces_validated += 1;
            let verdict = verify_dir(&base_ref.cfg, &dir);
            if matches!(verdict, Verdict::Backoff(_)) && verdict == base_verdict {
                rep.count("inconclusive_same_backoff_as_untampered", 1);
                return;
            }
            let h = vcore::stable_hash(&(which, policy, describe(t)));
            rep.states.insert(h);
            rep.nontrivial.insert(h);
            rep.outcomes.insert(vcore::stable_hash(&(class.as_str(), match &verdict { Verdict::Accepted => "accepted".to_string(), Verdict::Backoff(_) => "backoff".to_string(), Verdict::Refused(e) => seqmc::storecheck::short(e), Verdict::Panicked(_) => "panic".to_string() })));
            rep.count(&format!("tampers:{class}"), 1);
            let bad = match &verdict {
                Verdict::Accepted => Some(("accepted", String::new())),
                Verdict::Backoff(p) => Some(("verifier-waits-for-ever", format!("(backoff on {p})"))),
                Verdict::Panicked(p) => Some(("verifier-panicked", p.clone())),
                Verdict::Refused(_) => None,
            };
            if let Some((what, extra)) = bad {
                // replay before report
                let again = apply(base_ref, t, &work.path).map(|(d, _)| verify_dir(&base_ref.cfg, &d));
                if again.as_ref() != Some(&verdict) {
                    rep.count("non_reproducible_findings", 1);
                    return;
                }
                rep.violation(Violation {
                    property: "C04".into(),
                    signature: format!("c04:tamper:{what}:{class}"),
                    detail: format!("history {which} under '{policy}', {}: the offline verifiers {} {extra}", describe(t), match what { "accepted" => "accept the tampered history", "verifier-waits-for-ever" => "neither accept nor refuse it", _ => "panic" }),
                    case: json!({"history": which, "policy": policy, "tamper": tamper_json(t)}),
                });
            }
            // LsmVerifier on its own, for digest digits (checksum repaired) inside a fragment it works
            // through: accepting means unlinking the tampered fragment
            if let Tamper::Digit { frag, fix_crc: true, .. } = t {
                // (the I/O/D of a fragment's roll-up edit are Manifest::verify's and ManifestVerifier's
                // business: LsmVerifier starts its accumulator from them)
                if processed_ref.get(*frag).copied().unwrap_or(false) && class.contains(":transaction:") && !class.contains("added") && !class.contains("removed") {
                    if let Some((d2, _)) = apply(base_ref, t, &work.path) {
                        rep.evaluations += 1;
                        rep.count(&format!("lsm-verifier-alone:{class}"), 1);
                        if verify_lsm_only(&base_ref.cfg, &d2) == Verdict::Accepted {
                            let again = apply(base_ref, t, &work.path).map(|(d, _)| verify_lsm_only(&base_ref.cfg, &d));
                            if again == Some(Verdict::Accepted) {
                                rep.violation(Violation {
                                    property: "C04".into(),
                                    signature: format!("c04:tamper:lsm-verifier-alone-accepted:{class}"),
                                    detail: format!("history {which} under '{policy}', {}: LsmVerifier on its own accepts (and unlinks) the tampered fragment", describe(t)),
                                    case: json!({"history": which, "policy": policy, "tamper": tamper_json(t), "lsm_only": true}),
                                });
                            } else {
                                rep.count("non_reproducible_findings", 1);
                            }
                        }
                    }
                }
            }
            if rep.evaluations % 1999 == 1 {
                rep.sample(json!({"history": which, "policy": policy, "tamper": describe(t), "class": class}));
            }
        });
        total.merge(rep);
    }
    total.bound = json!({"histories": [history(0).iter().map(|o| o.name()).collect::<Vec<_>>(), history(1).iter().map(|o| o.name()).collect::<Vec<_>>()], "policies": ["versions = 1", "versions = 2"], "fragments": fragments_seen, "entries_per_output": "first 8"});
    total.rule = "curated histories run on the real store (rollover ratio 1: one manifest fragment per transaction; one base with ratio 1000: the whole history in one fragment, reopened twice); every single hex digit of every +, -, I, O, D digest of every edit of every fragment is changed (crc fixed, and crc left stale); every one of the first 8 entries of every compaction / GC output is dropped (newest version of its key), duplicated as an invented older version, or modified, the SST rebuilt by the real builder and renamed everywhere, with the digests left alone and with the whole I/O/D chain re-derived; ManifestVerifier (every fragment) and LsmVerifier run on each tampered copy and must refuse it; the untampered copy must be accepted".into();
    total.finish(&args, "tamper");
}
