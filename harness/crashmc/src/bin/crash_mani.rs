//! E2 on the real mani::Manifest (C13): for every edit history up to a depth, every crash point
//! inside its last operation, in both persistence models; reopen must yield the state after a
//! prefix of the applied edits that contains every acknowledged one (the in-flight edit wholly or
//! not at all), or an explicit error; fragments must chain.

use std::collections::{BTreeMap, BTreeSet, HashSet};
use std::path::Path;

use arrrg::CommandLine;
use crashmc::fsmodel::Image;
use mani::{Edit, Manifest, ManifestIterator, ManifestOptions};
use vcore::{Args, Report, Scratch, Violation, json};

crashmc::define_interposers!();

#[derive(Clone, Debug, PartialEq)]
enum Op {
    Add(&'static str),
    Rm(&'static str),
    Info(char, &'static str),
    AddRm(&'static str, &'static str),
    Empty,
    Rollover,
    Reopen,
}

fn alphabet() -> Vec<Op> {
    vec![
        Op::Add("x"),
        Op::Add("yy"),
        Op::Rm("x"),
        Op::Info('I', "1"),
        Op::Info('I', "22"),
        Op::AddRm("z", "x"),
        Op::Empty,
        Op::Rollover,
        Op::Reopen,
    ]
}

fn name(op: &Op) -> String {
    format!("{op:?}")
}

fn parse(s: &str) -> Op {
    alphabet().into_iter().find(|o| name(o) == s).unwrap_or_else(|| panic!("bad op {s}"))
}

type State = (BTreeSet<String>, BTreeMap<char, String>);

fn apply_model(st: &mut State, op: &Op) {
    match op {
        Op::Add(s) => {
            st.0.insert(s.to_string());
        }
        Op::Rm(s) => {
            st.0.remove(*s);
        }
        Op::Info(c, s) => {
            st.1.insert(*c, s.to_string());
        }
        Op::AddRm(a, r) => {
            st.0.remove(*r);
            st.0.insert(a.to_string());
        }
        Op::Empty | Op::Rollover | Op::Reopen => {}
    }
}

fn options(ratio: u64) -> ManifestOptions {
    let r = ratio.to_string();
    ManifestOptions::from_arguments_relaxed("verif", &["--log-rollover-ratio", &r]).0
}

struct Recording {
    journal: Vec<crashmc::Rec>,
    ops: Vec<(usize, usize, bool)>,
    open_error: Option<String>,
    unmodelled: Vec<String>,
}

fn record(ratio: u64, ops: &[Op], root: &Path) -> Recording {
    let _ = std::fs::remove_dir_all(root);
    crashmc::start(root, None);
    let mut out = vec![];
    let mut open_error = None;
    let r = vcore::catch(|| -> Result<(), String> {
        let mut m = Manifest::open(options(ratio), root).map_err(|e| format!("{e}"))?;
        for (i, op) in ops.iter().enumerate() {
            let b = crashmc::journal_len();
            crashmc::marker(&format!("begin {i} {}", name(op)));
            let res: Result<(), String> = match op {
                Op::Add(s) => {
                    let mut e = Edit::default();
                    e.add(s).map_err(|e| e.to_string())?;
                    m.apply(e).map_err(|e| e.to_string())
                }
                Op::Rm(s) => {
                    let mut e = Edit::default();
                    e.rm(s).map_err(|e| e.to_string())?;
                    m.apply(e).map_err(|e| e.to_string())
                }
                Op::Info(c, s) => {
                    let mut e = Edit::default();
                    e.info(*c, s).map_err(|e| e.to_string())?;
                    m.apply(e).map_err(|e| e.to_string())
                }
                Op::AddRm(a, r) => {
                    let mut e = Edit::default();
                    e.add(a).map_err(|e| e.to_string())?;
                    e.rm(r).map_err(|e| e.to_string())?;
                    m.apply(e).map_err(|e| e.to_string())
                }
                Op::Empty => m.apply(Edit::default()).map_err(|e| e.to_string()),
                Op::Rollover => m.rollover().map_err(|e| e.to_string()),
                Op::Reopen => {
                    drop(m);
                    m = Manifest::open(options(ratio), root).map_err(|e| format!("{e}"))?;
                    Ok(())
                }
            };
            crashmc::marker(&format!("end {i}"));
            out.push((b, crashmc::journal_len(), res.is_ok()));
            if res.is_err() {
                break;
            }
        }
        Ok(())
    });
    match r {
        Err(p) => open_error = Some(format!("panic: {p}")),
        Ok(Err(e)) => open_error = Some(e),
        Ok(Ok(())) => {}
    }
    let rec = crashmc::stop();
    Recording { journal: rec.journal, ops: out, open_error, unmodelled: rec.unmodelled }
}

/// Reopen the image and judge it.
fn judge(ratio: u64, dir: &Path, candidates: &[State]) -> Vec<(String, String)> {
    let mut out = vec![];
    let mut followup: Vec<String> = vec![];
    let r = vcore::catch(|| Manifest::open(options(ratio), dir).map(|mut m| {
        let strs: BTreeSet<String> = m.strs().map(|s| s.to_string()).collect();
        let mut info = BTreeMap::new();
        for c in ['I'] {
            if let Some(v) = m.info(c) {
                info.insert(c, v.to_string());
            }
        }
        // keep using the recovered handle: one more edit and one more rollover must leave a
        // manifest that verifies (fragments consecutive and chained) and reopens to the right state
        let mut e = Edit::default();
        let _ = e.add("follow-up");
        if let Err(err) = m.apply(e) {
            followup.push(format!("apply after recovery failed: {err}"));
        }
        if let Err(err) = m.rollover() {
            followup.push(format!("rollover after recovery failed: {err}"));
        }
        (strs, info)
    }));
    match r {
        Err(p) => out.push((format!("c13:crash:reopen-panic:{}", crashmc_short(&p)), format!("reopen panicked: {p}"))),
        Ok(Err(e)) => {
            // an explicit error is an admissible outcome of the property; count it
            let _ = e;
            out.push(("ok:explicit-error".into(), String::new()));
        }
        Ok(Ok(st)) => {
            if !candidates.iter().any(|c| *c == st) {
                let partial = candidates.len() > 1
                    && st.0.iter().all(|s| candidates.iter().any(|c| c.0.contains(s)))
                    && !candidates.iter().any(|c| c.0 == st.0);
                out.push((
                    format!("c13:crash:reopened-state:{}", if partial { "edit-partially-applied" } else { "not-a-prefix-state-with-all-acknowledged-edits" }),
                    format!("reopen yields {st:?}; admissible: {candidates:?}"),
                ));
            }
            for f in followup.iter() {
                out.push((format!("c13:crash:unusable-after-recovery:{}", crashmc_short(f)), f.clone()));
            }
            // the follow-up edit is there after another reopen
            match vcore::catch(|| Manifest::open(options(ratio), dir).map(|m| m.strs().map(|s| s.to_string()).collect::<BTreeSet<String>>())) {
                Ok(Ok(strs2)) => {
                    let mut want = st.0.clone();
                    want.insert("follow-up".to_string());
                    if strs2 != want && followup.is_empty() {
                        out.push((
                            "c13:crash:follow-up-edit-lost-after-second-reopen".into(),
                            format!("after recovery, one more edit, a rollover and a reopen the manifest holds {strs2:?}, expected {want:?}"),
                        ));
                    }
                }
                Ok(Err(e)) => out.push((
                    format!("c13:crash:second-reopen-fails:{}", crashmc_short(&e.to_string())),
                    format!("after recovery, one more edit and a rollover, reopening fails: {e}"),
                )),
                Err(p) => out.push((format!("c13:crash:second-reopen-panic:{}", crashmc_short(&p)), p)),
            }
            // fragments chain: Manifest::verify reports nothing
            let errs: Vec<String> = vcore::catch(|| {
                silence_stdout(|| Manifest::verify(options(ratio), dir).map(|e| e.to_string()).collect())
            })
            .unwrap_or_else(|p| vec![format!("panic: {p}")]);
            if !errs.is_empty() {
                out.push((
                    format!("c13:crash:verify-reports:{}", crashmc_short(&errs[0])),
                    format!("after recovery Manifest::verify reports {errs:?}"),
                ));
            }
            // every fragment parses
            if let Ok(rd) = std::fs::read_dir(dir) {
                for e in rd.flatten() {
                    let p = e.path();
                    let n = p.file_name().unwrap().to_string_lossy().to_string();
                    if n.starts_with("MANIFEST") && !n.ends_with(".tmp") {
                        if let Ok(it) = ManifestIterator::open(&p) {
                            for ed in it {
                                if let Err(e) = ed {
                                    out.push((
                                        "c13:crash:fragment-unreadable-after-recovery".into(),
                                        format!("{n}: {e}"),
                                    ));
                                    break;
                                }
                            }
                        }
                    }
                }
            }
        }
    }
    out
}

fn crashmc_short(e: &str) -> String {
    let mut s = String::new();
    let mut last = false;
    for c in e.chars().take(200) {
        if c.is_ascii_digit() {
            if !last {
                s.push('#');
            }
            last = true;
        } else {
            last = false;
            s.push(if c == '\n' { ' ' } else { c });
        }
    }
    s.split_whitespace().filter(|w| !w.contains("/dev/shm")).collect::<Vec<_>>().join(" ").chars().take(90).collect()
}

/// Manifest::verify prints to stdout; keep the harness output clean.
fn silence_stdout<R>(f: impl FnOnce() -> R) -> R {
    unsafe {
        let saved = libc::dup(1);
        let null = libc::open(c"/dev/null".as_ptr(), libc::O_WRONLY);
        libc::dup2(null, 1);
        let r = f();
        libc::dup2(saved, 1);
        libc::close(saved);
        libc::close(null);
        r
    }
}

fn explore_history(ratio: u64, ops: &[Op], scratch: &Scratch, rep: &mut Report, seen: &mut HashSet<u64>) -> bool {
    let live = scratch.sub("live");
    let imgdir = scratch.sub("img");
    let rec = record(ratio, ops, &live);
    rep.evaluations += 1;
    if !rec.unmodelled.is_empty() {
        rep.count("unmodelled_calls", rec.unmodelled.len() as u64);
    }
    if rec.open_error.is_some() && rec.ops.len() < ops.len() {
        rep.count("histories_ending_in_error", 1);
    }
    if let Some((_, _, false)) = rec.ops.last() {
        // a fault-free edit failed (e.g. rollover without a MANIFEST file): sequential business
        rep.count("histories_ending_in_error", 1);
        return false;
    }
    // bind the journal model to the real directory
    match Image::from_prefix(&live, &rec.journal, rec.journal.len()) {
        Ok(img) => {
            let (files, _) = crashmc::snapshot_dir(&live);
            if files == img.contents(&BTreeSet::new()) {
                rep.traces_validated += 1;
            } else {
                rep.count("journal_model_mismatches", 1);
            }
        }
        Err(_) => rep.count("journal_model_errors", 1),
    }
    let first = rec.ops.last().map(|x| x.0).unwrap_or(0);
    let end_of_last = rec.ops.last().map(|x| x.1).unwrap_or(rec.journal.len());
    let n = rec.journal.len();
    let mut before: State = Default::default();
    for op in ops.iter().take(ops.len().saturating_sub(1)) {
        apply_model(&mut before, op);
    }
    let mut after = before.clone();
    if let Some(op) = ops.last() {
        apply_model(&mut after, op);
    }
    for k in first..=n {
        if k < n && !rec.journal[k].is_mutation() {
            continue;
        }
        let Ok(img) = Image::from_prefix(&live, &rec.journal, k) else { continue };
        let ended = !ops.is_empty() && k >= end_of_last;
        let candidates: Vec<State> = if ops.is_empty() {
            vec![State::default()]
        } else if ended {
            vec![after.clone()]
        } else {
            vec![before.clone(), after.clone()]
        };
        let (variants, capped) = img.loss_variants(64);
        if capped {
            rep.cap("64 loss variants per crash point");
        }
        // the write call the process dies in may have taken effect in part: every byte cut of a
        // short write, and for longer ones the first and last bytes, the middle and both sides of
        // every line end
        let mut images: Vec<(Image, BTreeSet<usize>, Option<usize>)> = variants.into_iter().map(|d| (img.clone(), d, None)).collect();
        if let Some(crashmc::Rec::Write { data, .. }) = rec.journal.get(k) {
            let len = data.len();
            let cuts: BTreeSet<usize> = if len <= 96 {
                (1..len).collect()
            } else {
                let mut c: BTreeSet<usize> = [1, 2, len / 2, len - 2, len - 1].into_iter().collect();
                for (i, b) in data.iter().enumerate() {
                    if *b == b'\n' {
                        c.insert(i);
                        c.insert(i + 1);
                    }
                }
                c.into_iter().filter(|c| *c > 0 && *c < len).collect()
            };
            for cut in cuts {
                if let Some(t) = Image::from_prefix_torn(&live, &rec.journal, k, cut) {
                    rep.count("torn_write_images", 1);
                    images.push((t, BTreeSet::new(), Some(cut)));
                }
            }
        }
        for (vi, (img, dropped, torn)) in images.iter().enumerate() {
            let h = vcore::stable_hash(&(img.hash(dropped), format!("{candidates:?}"), ratio));
            if !seen.insert(h) {
                continue;
            }
            rep.states.insert(h);
            if vi > 0 {
                rep.nontrivial.insert(h);
            }
            let _ = std::fs::remove_dir_all(&imgdir);
            img.materialise(&imgdir, dropped).expect("materialise");
            rep.transitions += 1;
            let findings = judge(ratio, &imgdir, &candidates);
            rep.outcomes.insert(vcore::stable_hash(&(findings.iter().map(|f| f.0.clone()).collect::<Vec<_>>(), candidates.len())));
            for (sig, detail) in findings {
                if sig.starts_with("ok:") {
                    rep.count("explicit_errors_on_reopen", 1);
                    continue;
                }
                let what = format!(
                    "crash before call #{k} ({}) of {:?} at ratio {ratio}{}: {detail}",
                    if k < n { rec.journal[k].describe(&live) } else { "end".into() },
                    ops.iter().map(name).collect::<Vec<_>>(),
                    if let Some(cut) = torn { format!(", only the first {cut} bytes of that write took effect") } else if dropped.is_empty() { String::new() } else { format!(", unsynced writes lost: {}", dropped.iter().map(|i| rec.journal[*i].describe(&live)).collect::<Vec<_>>().join("; ")) }
                );
                rep.violation(Violation {
                    property: "C13".into(),
                    signature: format!("{sig}:during-{}", ops.last().map(|o| name(o).split('(').next().unwrap().to_lowercase()).unwrap_or("open".into())),
                    detail: what,
                    case: json!({"ratio": ratio, "ops": ops.iter().map(name).collect::<Vec<_>>(), "crash": {"k": k, "dropped": dropped.iter().collect::<Vec<_>>(), "torn": torn}}),
                });
            }
        }
    }
    true
}

fn explore(ratio: u64, depth: usize, ops: &mut Vec<Op>, scratch: &Scratch, rep: &mut Report, seen: &mut HashSet<u64>) {
    let ok = explore_history(ratio, ops, scratch, rep, seen);
    if rep.evaluations % 97 == 1 {
        rep.sample(json!({"ratio": ratio, "ops": ops.iter().map(name).collect::<Vec<_>>()}));
    }
    if !ok || ops.len() >= depth {
        return;
    }
    for op in alphabet() {
        ops.push(op);
        explore(ratio, depth, ops, scratch, rep, seen);
        ops.pop();
    }
}

fn main() {
    let args = Args::parse();
    vcore::quiet_panics();
    if let Some(rf) = args.replay_case() {
        let case = &rf["case"];
        let ops: Vec<Op> = case["ops"].as_array().unwrap().iter().map(|s| parse(s.as_str().unwrap())).collect();
        let ratio = case["ratio"].as_u64().unwrap();
        let scratch = Scratch::new("replay");
        let mut rep = Report::new("replay", "C13");
        explore_history(ratio, &ops, &scratch, &mut rep, &mut HashSet::new());
        let want = rf["signature"].as_str().unwrap_or("");
        let mut hit = false;
        for v in rep.violations.iter() {
            println!("finding {}: {}", v.signature, v.detail);
            hit |= v.signature == want;
        }
        if hit {
            println!("REPRODUCED {want}");
        }
        std::process::exit(if rep.violations.is_empty() { 0 } else { 1 });
    }
    let depth = args.usize("depth", if args.tier_thorough() { 4 } else { 3 });
    let mut items = vec![];
    for ratio in [1u64, 2, 1000] {
        items.push((ratio, vec![]));
        for op in alphabet() {
            items.push((ratio, vec![op]));
        }
    }
    let mut total = vcore::parallel(items, args.threads(), || Report::new("crash_mani", "C13"), |(ratio, prefix), rep| {
        let scratch = Scratch::new("cmani");
        let mut seen = HashSet::new();
        let mut ops = prefix.clone();
        let d = if prefix.is_empty() { 0 } else { depth };
        explore(*ratio, d, &mut ops, &scratch, rep, &mut seen);
    });
    if total.counters.get("journal_model_mismatches").copied().unwrap_or(0) > 0
        || total.counters.get("unmodelled_calls").copied().unwrap_or(0) > 0
    {
        eprintln!("MACHINERY: journal model mismatch");
        total.finish(&args, "crash_mani");
        std::process::exit(3);
    }
    total.bound = json!({"depth": depth, "alphabet": alphabet().iter().map(name).collect::<Vec<_>>(), "rollover_ratios": [1, 2, 1000]});
    total.rule = format!("every Manifest history of length <= {depth} over the alphabet at rollover ratios 1, 2, 1000 under the syscall journal; every crash point inside the last operation (including Manifest::open's rollover and explicit rollovers), in the model where every completed call persists, in every loss variant of unsynced writes, and with the write call the crash falls in torn at every byte (writes <= 96 bytes) or at the first/last bytes, the middle and every line end (longer writes); reopen must give the state before or after the in-flight edit (never part of it) or an explicit error, and Manifest::verify must report nothing; states = distinct (image, admissible states) pairs recovered");
    total.finish(&args, "crash_mani");
}
