//! Shared pieces of the verification harness: per-job report files (merged by ./check into the
//! evidence file), violation records with replay artefacts, a tiny argument parser, scratch
//! directories on tmpfs and a work partitioner.
//!
//! A *job* is one run of one harness binary.  It writes `Report` as JSON to `--out <path>`.
//! `./check` merges the reports of all jobs of a property, matches violations against
//! `known_findings.jsonl`, prints `KNOWN-FINDING:` / `VIOLATION` lines and writes the evidence.

use std::collections::{BTreeMap, HashSet};
use std::hash::{Hash, Hasher};
use std::path::{Path, PathBuf};
use std::time::Instant;

pub use serde_json::{Value, json};

////////////////////////////////////////////// hashing /////////////////////////////////////////////

/// FNV-1a; stable across runs (std's default hasher is randomly keyed).
#[derive(Clone)]
pub struct Fnv(pub u64);

impl Default for Fnv {
    fn default() -> Self {
        Fnv(0xcbf29ce484222325)
    }
}

impl Hasher for Fnv {
    fn finish(&self) -> u64 {
        self.0
    }
    fn write(&mut self, bytes: &[u8]) {
        for b in bytes {
            self.0 ^= *b as u64;
            self.0 = self.0.wrapping_mul(0x100000001b3);
        }
    }
}

pub fn stable_hash<T: Hash>(t: &T) -> u64 {
    let mut h = Fnv::default();
    t.hash(&mut h);
    h.finish()
}

pub fn hex(bytes: &[u8]) -> String {
    let mut s = String::with_capacity(bytes.len() * 2);
    for b in bytes {
        s += &format!("{b:02x}");
    }
    s
}

pub fn esc(bytes: &[u8]) -> String {
    let mut s = String::new();
    for &b in bytes {
        if (0x20..0x7f).contains(&b) && b != b'\\' {
            s.push(b as char);
        } else {
            s += &format!("\\x{b:02x}");
        }
    }
    s
}

///////////////////////////////////////////// Violation ////////////////////////////////////////////

#[derive(Clone, Debug)]
pub struct Violation {
    pub property: String,
    /// Stable, structural description of *what* failed (oracle id + features); this is what
    /// known_findings.jsonl is matched against.
    pub signature: String,
    /// Human-readable explanation with expected / observed.
    pub detail: String,
    /// Everything needed to re-run the single case (`--replay <file>` of the same binary).
    pub case: Value,
}

////////////////////////////////////////////// Report //////////////////////////////////////////////

pub struct Report {
    pub job: String,
    pub property: String,
    pub started: Instant,
    pub evaluations: u64,
    pub transitions: u64,
    pub traces_validated: u64,
    pub pruned_noops: u64,
    pub states: HashSet<u64>,
    pub nontrivial: HashSet<u64>,
    pub outcomes: HashSet<u64>,
    pub exhaustive: bool,
    pub cap_hit: Option<String>,
    pub bound: Value,
    pub rule: String,
    pub samples: Vec<Value>,
    pub max_samples: usize,
    pub violations: Vec<Violation>,
    pub violation_sigs: BTreeMap<String, u64>,
    pub max_violations_per_sig: usize,
    pub notes: BTreeMap<String, Value>,
    pub counters: BTreeMap<String, u64>,
    pub assumptions: Vec<String>,
}

impl Report {
    pub fn new(job: &str, property: &str) -> Self {
        Report {
            job: job.to_string(),
            property: property.to_string(),
            started: Instant::now(),
            evaluations: 0,
            transitions: 0,
            traces_validated: 0,
            pruned_noops: 0,
            states: HashSet::new(),
            nontrivial: HashSet::new(),
            outcomes: HashSet::new(),
            exhaustive: true,
            cap_hit: None,
            bound: Value::Null,
            rule: String::new(),
            samples: vec![],
            max_samples: 6,
            violations: vec![],
            violation_sigs: BTreeMap::new(),
            max_violations_per_sig: 2,
            notes: BTreeMap::new(),
            counters: BTreeMap::new(),
            assumptions: vec![],
        }
    }

    pub fn count(&mut self, name: &str, n: u64) {
        *self.counters.entry(name.to_string()).or_insert(0) += n;
    }

    pub fn sample(&mut self, v: Value) {
        if self.samples.len() < self.max_samples {
            self.samples.push(v);
        }
    }

    /// Record a violation.  Only the first few per signature keep their case.
    pub fn violation(&mut self, v: Violation) {
        let n = self.violation_sigs.entry(v.signature.clone()).or_insert(0);
        *n += 1;
        if (*n as usize) <= self.max_violations_per_sig {
            self.violations.push(v);
        }
    }

    pub fn cap(&mut self, what: &str) {
        self.exhaustive = false;
        if self.cap_hit.is_none() {
            self.cap_hit = Some(what.to_string());
        }
    }

    pub fn merge(&mut self, other: Report) {
        self.evaluations += other.evaluations;
        self.transitions += other.transitions;
        self.traces_validated += other.traces_validated;
        self.pruned_noops += other.pruned_noops;
        self.states.extend(other.states);
        self.nontrivial.extend(other.nontrivial);
        self.outcomes.extend(other.outcomes);
        self.exhaustive &= other.exhaustive;
        if self.cap_hit.is_none() {
            self.cap_hit = other.cap_hit;
        }
        for s in other.samples {
            self.sample(s);
        }
        for (k, n) in other.violation_sigs {
            *self.violation_sigs.entry(k).or_insert(0) += n;
        }
        for v in other.violations {
            let kept = self
                .violations
                .iter()
                .filter(|x| x.signature == v.signature)
                .count();
            if kept < self.max_violations_per_sig {
                self.violations.push(v);
            }
        }
        for (k, n) in other.counters {
            *self.counters.entry(k).or_insert(0) += n;
        }
        for (k, v) in other.notes {
            self.notes.entry(k).or_insert(v);
        }
    }

    pub fn to_json(&self, replay_dir: &Path, bin: &str) -> Value {
        let mut viols = vec![];
        for v in self.violations.iter() {
            let h = stable_hash(&(v.signature.as_str(), v.case.to_string()));
            let dir = replay_dir.join(&v.property);
            let _ = std::fs::create_dir_all(&dir);
            let path = dir.join(format!("{}-{:016x}.json", self.job, h));
            let body = json!({
                "property": v.property,
                "bin": bin,
                "job": self.job,
                "signature": v.signature,
                "detail": v.detail,
                "case": v.case,
            });
            let _ = std::fs::write(&path, serde_json::to_string_pretty(&body).unwrap());
            viols.push(json!({
                "property": v.property,
                "signature": v.signature,
                "detail": v.detail,
                "replay": path.to_string_lossy(),
                "occurrences": self.violation_sigs.get(&v.signature).copied().unwrap_or(1),
            }));
        }
        json!({
            "job": self.job,
            "property": self.property,
            "evaluations": self.evaluations,
            "transitions": self.transitions,
            "traces_validated_against_impl": self.traces_validated,
            "pruned_noops": self.pruned_noops,
            "states": self.states.len(),
            "distinct_nontrivial": self.nontrivial.len(),
            "distinct_outcomes": self.outcomes.len(),
            "exhaustive": self.exhaustive,
            "cap_hit": self.cap_hit,
            "bound": self.bound,
            "rule": self.rule,
            "samples": self.samples,
            "violations": viols,
            "violation_signatures": self.violation_sigs,
            "counters": self.counters,
            "notes": self.notes,
            "assumptions": self.assumptions,
            "wall_s": self.started.elapsed().as_secs_f64(),
        })
    }

    /// Write the report where `--out` says (or print it).
    pub fn finish(&self, args: &Args, bin: &str) {
        let replay_dir = PathBuf::from(args.get("replay-dir").unwrap_or("/verif/replays"));
        let v = self.to_json(&replay_dir, bin);
        match args.get("out") {
            Some(p) => {
                std::fs::write(p, serde_json::to_string_pretty(&v).unwrap())
                    .expect("cannot write report");
            }
            None => println!("{}", serde_json::to_string_pretty(&v).unwrap()),
        }
    }
}

/////////////////////////////////////////////// Args ///////////////////////////////////////////////

/// `--key value` pairs and bare flags (`--flag`), nothing else.
pub struct Args {
    kv: BTreeMap<String, String>,
}

impl Args {
    pub fn parse() -> Self {
        let mut kv = BTreeMap::new();
        let argv: Vec<String> = std::env::args().skip(1).collect();
        let mut i = 0;
        while i < argv.len() {
            let a = &argv[i];
            if let Some(k) = a.strip_prefix("--") {
                if i + 1 < argv.len() && !argv[i + 1].starts_with("--") {
                    kv.insert(k.to_string(), argv[i + 1].clone());
                    i += 2;
                } else {
                    kv.insert(k.to_string(), "true".to_string());
                    i += 1;
                }
            } else {
                panic!("unexpected argument {a}");
            }
        }
        Args { kv }
    }

    pub fn get(&self, k: &str) -> Option<&str> {
        self.kv.get(k).map(|s| s.as_str())
    }

    pub fn usize(&self, k: &str, default: usize) -> usize {
        self.get(k)
            .map(|s| s.parse().unwrap_or_else(|_| panic!("--{k} wants a number")))
            .unwrap_or(default)
    }

    pub fn u64(&self, k: &str, default: u64) -> u64 {
        self.get(k)
            .map(|s| s.parse().unwrap_or_else(|_| panic!("--{k} wants a number")))
            .unwrap_or(default)
    }

    pub fn flag(&self, k: &str) -> bool {
        self.get(k).is_some()
    }

    pub fn tier_thorough(&self) -> bool {
        self.get("tier") == Some("thorough")
    }

    pub fn threads(&self) -> usize {
        self.usize(
            "threads",
            std::thread::available_parallelism()
                .map(|n| n.get())
                .unwrap_or(4),
        )
    }

    /// The case of a `--replay <file>` invocation.
    pub fn replay_case(&self) -> Option<Value> {
        self.get("replay").map(|p| {
            let s = std::fs::read_to_string(p).expect("cannot read replay file");
            let v: Value = serde_json::from_str(&s).expect("replay file is not JSON");
            v
        })
    }
}

////////////////////////////////////////////// Scratch /////////////////////////////////////////////

/// A scratch directory on tmpfs, removed on drop.
pub struct Scratch {
    pub path: PathBuf,
}

impl Scratch {
    pub fn new(tag: &str) -> Self {
        use std::sync::atomic::{AtomicU64, Ordering};
        static N: AtomicU64 = AtomicU64::new(0);
        let base = if Path::new("/dev/shm").is_dir() {
            PathBuf::from("/dev/shm")
        } else {
            std::env::temp_dir()
        };
        let path = base.join(format!(
            "verif-{}-{}-{}",
            std::process::id(),
            tag,
            N.fetch_add(1, Ordering::Relaxed)
        ));
        let _ = std::fs::remove_dir_all(&path);
        std::fs::create_dir_all(&path).expect("cannot create scratch dir");
        Scratch { path }
    }

    pub fn sub(&self, name: &str) -> PathBuf {
        self.path.join(name)
    }

    /// Empty the directory.
    pub fn clear(&self) {
        let _ = std::fs::remove_dir_all(&self.path);
        std::fs::create_dir_all(&self.path).expect("cannot create scratch dir");
    }
}

impl Drop for Scratch {
    fn drop(&mut self) {
        let _ = std::fs::remove_dir_all(&self.path);
    }
}

pub fn copy_dir(src: &Path, dst: &Path) -> std::io::Result<()> {
    std::fs::create_dir_all(dst)?;
    for e in std::fs::read_dir(src)? {
        let e = e?;
        let ft = e.file_type()?;
        let to = dst.join(e.file_name());
        if ft.is_dir() {
            copy_dir(&e.path(), &to)?;
        } else {
            std::fs::copy(e.path(), &to)?;
        }
    }
    Ok(())
}

//////////////////////////////////////////// parallelism ///////////////////////////////////////////

/// Run `work(item, &mut report)` over all items on `threads` threads; each thread has its own
/// Report (made by `mk`), merged at the end in item order of completion.
pub fn parallel<T: Send + Sync, F>(
    items: Vec<T>,
    threads: usize,
    mk: impl Fn() -> Report + Sync,
    work: F,
) -> Report
where
    F: Fn(&T, &mut Report) + Sync,
{
    use std::sync::atomic::{AtomicUsize, Ordering};
    let next = AtomicUsize::new(0);
    let mut total = mk();
    let reports: Vec<Report> = std::thread::scope(|s| {
        let mut hs = vec![];
        for _ in 0..threads.max(1) {
            hs.push(s.spawn(|| {
                let mut r = mk();
                loop {
                    let i = next.fetch_add(1, Ordering::Relaxed);
                    if i >= items.len() {
                        break;
                    }
                    work(&items[i], &mut r);
                }
                r
            }));
        }
        hs.into_iter().map(|h| h.join().expect("worker panicked")).collect()
    });
    for r in reports {
        total.merge(r);
    }
    total
}

/// Catch a panic in the subject and turn it into a string.
pub fn catch<R>(f: impl FnOnce() -> R) -> Result<R, String> {
    match std::panic::catch_unwind(std::panic::AssertUnwindSafe(f)) {
        Ok(r) => Ok(r),
        Err(e) => {
            if let Some(s) = e.downcast_ref::<&str>() {
                Err(s.to_string())
            } else if let Some(s) = e.downcast_ref::<String>() {
                Err(s.clone())
            } else {
                Err("panic".to_string())
            }
        }
    }
}

/// Silence the default panic hook (subjects are run under `catch`); keep the message for reports.
pub fn quiet_panics() {
    std::panic::set_hook(Box::new(|_| {}));
}
