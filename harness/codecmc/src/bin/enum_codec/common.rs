//! Pieces shared by the phases: panic location capture, one guarded unpack call, findings.

use std::cell::RefCell;

use codecmc::schema::Val;
use codecmc::{ALLOC_LIMIT, alloc_peak, alloc_reset, strip_digits};
use vcore::{Report, Value, Violation};

use crate::subjects::Subject;

pub const PROP: &str = "C15";

thread_local! {
    static LAST_PANIC_LOC: RefCell<String> = const { RefCell::new(String::new()) };
}

/// Silence panics and remember where the last one on this thread happened.
pub fn install_panic_hook() {
    std::panic::set_hook(Box::new(|info| {
        let loc = info
            .location()
            .map(|l| format!("{}:{}", l.file().trim_start_matches("/repo/"), l.line()))
            .unwrap_or_default();
        let _ = LAST_PANIC_LOC.try_with(|c| *c.borrow_mut() = loc);
    }));
}

pub fn last_panic_loc() -> String {
    LAST_PANIC_LOC.with(|c| c.borrow().clone())
}

/// file part of "file:line"
pub fn loc_file(loc: &str) -> &str {
    loc.rsplit_once(':').map(|x| x.0).unwrap_or(loc)
}

#[derive(Clone, Debug, PartialEq, Eq, Hash)]
pub enum Obs {
    Ok { val: Val, rest: usize },
    Err(String),
    Panic { msg: String, loc: String },
}

impl Obs {
    pub fn class(&self) -> String {
        match self {
            Obs::Ok { .. } => "ok".to_string(),
            Obs::Err(c) => format!("err:{c}"),
            Obs::Panic { .. } => "panic".to_string(),
        }
    }
    pub fn show(&self) -> String {
        match self {
            Obs::Ok { val, rest } => format!("Ok({}, {} bytes left)", val.show(), rest),
            Obs::Err(c) => format!("Err({c})"),
            Obs::Panic { msg, loc } => format!("PANIC at {loc}: {msg}"),
        }
    }
}

/// Set in `--child-item` processes: file that always holds the input being decoded.
pub static WRITE_AHEAD: std::sync::OnceLock<std::path::PathBuf> = std::sync::OnceLock::new();

pub struct Decode {
    pub obs: Obs,
    /// largest single allocation request during the call
    pub peak: usize,
}

/// One guarded `Unpackable::unpack` of the subject type.
pub fn decode(subj: &Subject, buf: &[u8]) -> Decode {
    if let Some(p) = WRITE_AHEAD.get() {
        // single-item child: name the input before touching it, so that an abort is attributable
        let _ = std::fs::write(p, format!("{} {}", subj.schema.name, vcore::hex(buf)));
    }
    alloc_reset();
    let r = vcore::catch(|| (subj.unpack)(buf));
    let peak = alloc_peak();
    let obs = match r {
        Ok(Ok((val, rest))) => Obs::Ok { val, rest },
        Ok(Err(code)) => Obs::Err(code),
        Err(msg) => Obs::Panic { msg, loc: last_panic_loc() },
    };
    Decode { obs, peak }
}

/// (signature, detail) pairs for what C15 forbids on arbitrary input: a panic, a huge allocation.
pub fn hostile_findings(subj: &Subject, d: &Decode) -> Vec<(String, String)> {
    let mut out = vec![];
    if let Obs::Panic { msg, loc } = &d.obs {
        out.push((
            format!(
                "unpack-panic type={} at={} msg={}",
                subj.schema.name,
                loc_file(loc),
                strip_digits(msg).chars().take(80).collect::<String>()
            ),
            format!("Unpackable::unpack panicked at {loc}: {msg}; expected Ok or Err"),
        ));
    }
    if d.peak > ALLOC_LIMIT {
        out.push((
            format!("huge-alloc type={}", subj.schema.name),
            format!(
                "a single allocation of {} bytes was requested while decoding; limit {}",
                d.peak, ALLOC_LIMIT
            ),
        ));
    }
    out
}

/// Record a violation after the caller re-executed the case and saw the same signature.
pub fn record(rep: &mut Report, signature: String, detail: String, case: Value) {
    rep.violation(Violation { property: PROP.to_string(), signature, detail, case });
}

pub fn hex_short(b: &[u8]) -> String {
    if b.len() <= 48 {
        vcore::hex(b)
    } else {
        format!("{}..({} bytes)", vcore::hex(&b[..48]), b.len())
    }
}

static MAX_ALLOC: std::sync::atomic::AtomicUsize = std::sync::atomic::AtomicUsize::new(0);

pub fn note_alloc_peak(p: usize) {
    if p > MAX_ALLOC.load(std::sync::atomic::Ordering::Relaxed) {
        MAX_ALLOC.fetch_max(p, std::sync::atomic::Ordering::Relaxed);
    }
}

pub fn max_alloc_seen() -> usize {
    MAX_ALLOC.load(std::sync::atomic::Ordering::Relaxed)
}
