//! enum_codec -- property C15: buffertk varints and prototk messages against an independent
//! wire-format reference, bounded-exhaustively.
//!
//! Process layout: the invocation given by ./check is a *supervisor*.  It re-executes itself with
//! `--child` for all sweeps (so that an abort -- impossible allocation, stack overflow -- ends the
//! child, not the job), reads the child's partial report, runs the nesting-depth probes one child
//! per probe, and writes the report.

mod common;
mod hostile;
mod msgs;
mod subjects;
mod varint;

use std::path::{Path, PathBuf};
use std::process::Command;

use codecmc::schema::*;
use codecmc::{dump_report, load_report};
use vcore::{Args, Report, Scratch, Value, json};

use common::*;
use subjects::{Subject, subjects};

#[global_allocator]
static ALLOC: codecmc::CountingAlloc = codecmc::CountingAlloc;

const BIN: &str = "enum_codec";
/// the cases of one type are dealt round-robin to this many work items
const SHARDS: usize = 8;

/////////////////////////////////////////////// plan ///////////////////////////////////////////////

struct Plan {
    thorough: bool,
    /// symbols per alphabet string
    alpha_len: usize,
    /// every n-th pair case is mutated
    pair_stride: usize,
    depths: Vec<usize>,
}

fn plan(args: &Args) -> Plan {
    let thorough = args.tier_thorough();
    Plan {
        thorough,
        alpha_len: args.usize("alpha-len", 6),
        pair_stride: args.usize("pair-stride", if thorough { 1 } else { 4 }),
        depths: if thorough {
            vec![1, 10, 100, 1_000, 10_000, 100_000, 1_000_000]
        } else {
            vec![1, 10, 100, 1_000, 10_000, 100_000]
        },
    }
}

/// One unit of work of the message phases.  Serialisable: it is written ahead to a file so that
/// the supervisor knows what was running when a child dies.
#[derive(Clone, Debug)]
enum Work {
    RoundTrip(usize),
    Mutations(usize, usize),
    Insertions(usize, usize),
    AlphaShort(usize),
    Alpha(usize, usize, usize),
}

impl Work {
    fn to_json(&self, subs: &[Subject]) -> Value {
        let name = |t: &usize| subs[*t].schema.name.clone();
        match self {
            Work::RoundTrip(t) => json!({"kind": "round-trip", "type": name(t)}),
            Work::Mutations(t, k) => json!({"kind": "mutations", "type": name(t), "shard": k}),
            Work::Insertions(t, k) => json!({"kind": "insertions", "type": name(t), "shard": k}),
            Work::AlphaShort(t) => json!({"kind": "alphabet-short", "type": name(t)}),
            Work::Alpha(t, i, j) => json!({"kind": "alphabet", "type": name(t), "first": i, "second": j}),
        }
    }

    fn from_json(v: &Value, subs: &[Subject]) -> Work {
        let t = type_index(subs, v["type"].as_str().unwrap());
        match v["kind"].as_str().unwrap() {
            "round-trip" => Work::RoundTrip(t),
            "mutations" => Work::Mutations(t, v["shard"].as_u64().unwrap() as usize),
            "insertions" => Work::Insertions(t, v["shard"].as_u64().unwrap() as usize),
            "alphabet-short" => Work::AlphaShort(t),
            "alphabet" => Work::Alpha(t, v["first"].as_u64().unwrap() as usize, v["second"].as_u64().unwrap() as usize),
            k => panic!("unknown work kind {k}"),
        }
    }

    fn run(&self, subs: &[Subject], p: &Plan, rep: &mut Report) {
        match self {
            Work::RoundTrip(t) => msgs::run_round_trips(&subs[*t], rep),
            Work::Mutations(t, k) => msgs::run_mutations(&subs[*t], p.pair_stride, *k, SHARDS, rep),
            Work::Insertions(t, k) => msgs::run_insertions(&subs[*t], *k, SHARDS, rep),
            Work::AlphaShort(t) => {
                let a = hostile::alphabet(&subs[*t].schema, p.thorough);
                hostile::sweep(&subs[*t], &a, &[], 1.min(p.alpha_len), rep);
            }
            Work::Alpha(t, i, j) => {
                let a = hostile::alphabet(&subs[*t].schema, p.thorough);
                if p.alpha_len >= 2 {
                    hostile::sweep(&subs[*t], &a, &[*i, *j], p.alpha_len - 2, rep);
                }
            }
        }
    }
}

fn type_index(subs: &[Subject], name: &str) -> usize {
    subs.iter().position(|s| s.schema.name == name).unwrap_or_else(|| panic!("no type {name}"))
}

fn work_items(subs: &[Subject], p: &Plan) -> Vec<Work> {
    let mut items = vec![];
    for t in 0..subs.len() {
        for k in 0..SHARDS {
            items.push(Work::Mutations(t, k));
            items.push(Work::Insertions(t, k));
        }
    }
    for t in 0..subs.len() {
        items.push(Work::RoundTrip(t));
        items.push(Work::AlphaShort(t));
    }
    for t in 0..subs.len() {
        let n = hostile::alphabet(&subs[t].schema, p.thorough).len();
        for i in 0..n {
            for j in 0..n {
                items.push(Work::Alpha(t, i, j));
            }
        }
    }
    items
}

/////////////////////////////////////////////// child //////////////////////////////////////////////

fn wip_slot() -> usize {
    use std::sync::atomic::{AtomicUsize, Ordering};
    static NEXT: AtomicUsize = AtomicUsize::new(0);
    thread_local! { static SLOT: usize = NEXT.fetch_add(1, Ordering::Relaxed); }
    SLOT.with(|s| *s)
}

fn child_all(args: &Args) {
    let p = plan(args);
    let subs = subjects();
    let threads = args.threads();
    let wip_dir = PathBuf::from(args.get("wip-dir").expect("--wip-dir"));
    let mk = || Report::new(BIN, PROP);
    let only = args.get("only");
    let mut total = mk();
    if only.is_none() || only == Some("varint") {
        total.merge(varint::run(p.thorough, threads, &mk));
    }
    if only.is_none() || only == Some("messages") {
        let items = work_items(&subs, &p);
        let r = vcore::parallel(items, threads, mk, |item, rep| {
            let slot = wip_dir.join(format!("wip-{}", wip_slot()));
            let _ = std::fs::write(&slot, item.to_json(&subs).to_string());
            let t0 = std::time::Instant::now();
            item.run(&subs, &p, rep);
            if std::env::var("VERIF_TIMING").is_ok() && t0.elapsed().as_secs_f64() > 0.5 {
                eprintln!("{:.2}s {}", t0.elapsed().as_secs_f64(), item.to_json(&subs));
            }
            let _ = std::fs::write(&slot, "null");
        });
        total.merge(r);
    }
    total.count("max_single_alloc_request_bytes", max_alloc_seen() as u64);
    let out = args.get("partial").expect("--partial");
    std::fs::write(out, dump_report(&total).to_string()).expect("cannot write partial report");
}

fn child_item(args: &Args) {
    let p = plan(args);
    let subs = subjects();
    let v: Value = serde_json::from_str(args.get("child-item").unwrap()).expect("item json");
    let item = Work::from_json(&v, &subs);
    if let Some(p) = args.get("last-input") {
        let _ = WRITE_AHEAD.set(PathBuf::from(p));
    }
    let mut rep = Report::new(BIN, PROP);
    item.run(&subs, &p, &mut rep);
    println!("item finished: {} cases, {} violation signatures", rep.evaluations, rep.violation_sigs.len());
}

/// Encoding of a `Tree` nested `depth` levels deep: v = 1 at every level, one child per level.
fn tree_bytes(depth: usize) -> Vec<u8> {
    let mut lens = vec![2usize];
    for k in 0..depth {
        let inner = lens[k];
        lens.push(2 + 1 + codecmc::wire::varint(inner as u64).len() + inner);
    }
    let mut out = Vec::with_capacity(lens[depth]);
    for k in (1..=depth).rev() {
        out.extend_from_slice(&[0x08, 0x01, 0x12]);
        codecmc::wire::put_varint(&mut out, lens[k - 1] as u64);
    }
    out.extend_from_slice(&[0x08, 0x01]);
    assert_eq!(out.len(), lens[depth]);
    out
}

/// Decode one input into one type and exit normally (the supervisor looks at the exit status).
fn child_input(args: &Args) {
    let subs = subjects();
    let s = &subs[type_index(&subs, args.get("child-input").unwrap())];
    let buf = unhex(args.get("bytes").unwrap_or(""));
    let d = decode(s, &buf);
    println!("{} (largest allocation request {} bytes)", d.obs.show(), d.peak);
}

fn child_depth(args: &Args) {
    let depth = args.usize("child-depth", 1);
    let bytes = tree_bytes(depth);
    let h = std::thread::Builder::new()
        .stack_size(8 << 20)
        .spawn(move || vcore::catch(|| subjects::unpack_tree(&bytes)))
        .unwrap();
    match h.join().unwrap() {
        Ok(Ok(d)) => {
            println!("decoded, depth {d}");
            std::process::exit(if d == depth { 0 } else { 4 })
        }
        Ok(Err(code)) => {
            println!("Err({code})");
            std::process::exit(0)
        }
        Err(msg) => {
            println!("panic: {msg}");
            std::process::exit(3)
        }
    }
}

///////////////////////////////////////////// supervisor ///////////////////////////////////////////

fn self_cmd(args: &Args) -> Command {
    let mut c = Command::new(std::env::current_exe().expect("current_exe"));
    c.arg("--tier").arg(args.get("tier").unwrap_or("quick"));
    for k in ["threads", "alpha-len", "pair-stride", "only"] {
        if let Some(v) = args.get(k) {
            c.arg(format!("--{k}")).arg(v);
        }
    }
    c
}

/// "ok", "panic", "wrong-depth" or "abort:<status>"
fn depth_probe(args: &Args, depth: usize) -> String {
    let out = self_cmd(args).arg("--child-depth").arg(depth.to_string()).output().expect("spawn");
    match out.status.code() {
        Some(0) => "ok".into(),
        Some(3) => "panic".into(),
        Some(4) => "wrong-depth".into(),
        _ => format!("abort:{}", out.status),
    }
}

fn depth_phase(args: &Args, p: &Plan, rep: &mut Report) {
    let mut last_ok = 0usize;
    for &d in p.depths.iter() {
        let r = depth_probe(args, d);
        rep.evaluations += 1;
        rep.transitions += 1;
        rep.traces_validated += 1;
        rep.count("nesting_depth_probes", 1);
        let h = vcore::stable_hash(&("depth", d));
        rep.states.insert(h);
        rep.nontrivial.insert(h);
        rep.outcomes.insert(vcore::stable_hash(&("depth", r.split(':').next().unwrap().to_string())));
        if r == "ok" {
            last_ok = d;
            continue;
        }
        // smallest failing depth by bisection (last_ok passes, d fails)
        let (mut lo, mut hi) = (last_ok, d);
        while hi - lo > 1 {
            let mid = lo + (hi - lo) / 2;
            rep.count("nesting_depth_probes", 1);
            rep.transitions += 1;
            if depth_probe(args, mid) == "ok" { lo = mid } else { hi = mid }
        }
        let again = depth_probe(args, hi);
        if again == "ok" {
            rep.count("non_reproducible_findings", 1);
            break;
        }
        let kind = again.split(':').next().unwrap().to_string();
        record(
            rep,
            format!("unpack-{kind} type=Tree input=nested-messages"),
            format!(
                "unpacking {} bytes that nest the recursive message Tree {} levels deep ends the process ({}); depth {} still decodes; expected Ok or Err",
                tree_bytes(hi).len(), hi, again, lo
            ),
            json!({"phase": "depth", "depth": hi}),
        );
        break;
    }
}

fn supervise(args: &Args) {
    let started = std::time::Instant::now();
    let p = plan(args);
    let scratch = Scratch::new("codec");
    let partial = scratch.sub("partial.json");
    let status = self_cmd(args)
        .arg("--child")
        .arg("--wip-dir")
        .arg(&scratch.path)
        .arg("--partial")
        .arg(&partial)
        .status()
        .expect("cannot spawn child");
    let mut rep = if status.success() && partial.exists() {
        let v: Value = serde_json::from_str(&std::fs::read_to_string(&partial).unwrap()).expect("partial json");
        load_report(BIN, PROP, &v)
    } else {
        child_died(args, &scratch.path, &status.to_string())
    };
    if args.get("only").is_none() || args.get("only") == Some("depth") {
        depth_phase(args, &p, &mut rep);
    }
    describe(&mut rep, &p);
    rep.started = started;
    rep.finish(args, BIN);
}

/// The sweep child ended abnormally: find the work item(s) that kill a process.
fn child_died(args: &Args, wip_dir: &Path, status: &str) -> Report {
    let mut rep = Report::new(BIN, PROP);
    rep.cap(&format!("the sweep child ended abnormally ({status}); only the items below were re-run"));
    let mut culprits = 0;
    for e in std::fs::read_dir(wip_dir).unwrap().flatten() {
        if !e.file_name().to_string_lossy().starts_with("wip-") {
            continue;
        }
        let text = std::fs::read_to_string(e.path()).unwrap_or_default();
        if text == "null" || text.is_empty() {
            continue;
        }
        let last = wip_dir.join("last-input");
        let _ = std::fs::remove_file(&last);
        let run = |c: &mut Command| c.arg("--child-item").arg(&text).arg("--last-input").arg(&last).output().expect("spawn");
        let out = run(&mut self_cmd(args));
        rep.evaluations += 1;
        if out.status.success() {
            continue;
        }
        let first = std::fs::read_to_string(&last).unwrap_or_default();
        let again = run(&mut self_cmd(args));
        let second = std::fs::read_to_string(&last).unwrap_or_default();
        if again.status.success() || first != second {
            rep.count("non_reproducible_findings", 1);
            continue;
        }
        culprits += 1;
        let item: Value = serde_json::from_str(&text).unwrap();
        let (ty, hex) = first.split_once(' ').unwrap_or(("?", ""));
        record(
            &mut rep,
            format!("process-abort type={ty} work={}", item["kind"].as_str().unwrap_or("?")),
            format!(
                "unpacking {hex} into {ty} ended the process with {}: {}; expected Ok or Err",
                out.status,
                String::from_utf8_lossy(&out.stderr)
                    .lines()
                    .find(|l| l.contains("memory allocation") || l.contains("overflowed") || l.contains("panicked"))
                    .unwrap_or("")
                    .chars()
                    .take(200)
                    .collect::<String>()
            ),
            json!({"phase": "abort-input", "type": ty, "bytes": hex, "item": item}),
        );
    }
    if culprits == 0 {
        // machinery problem, not a verdict
        eprintln!("sweep child ended with {status} and no work item reproduces it");
        std::process::exit(2);
    }
    rep
}

fn describe(rep: &mut Report, p: &Plan) {
    let subs = subjects();
    let vp = varint::plan(p.thorough);
    let alpha: Vec<Value> = subs
        .iter()
        .map(|s| {
            json!({"type": s.schema.name,
                   "alphabet": hostile::alphabet(&s.schema, p.thorough).iter().map(|x| vcore::hex(x)).collect::<Vec<_>>()})
        })
        .collect();
    rep.bound = json!({
        "varint": {
            "all_256_values_up_to_len": vp.full_len,
            "symbol_alphabet": vp.sym_alphabet.iter().map(|b| format!("{b:02x}")).collect::<Vec<_>>(),
            "symbol_strings_up_to_len": vp.sym_len,
            "buffers_per_string": "exact; +1 trailing byte of {00,01,7f,80,ff}; +10 trailing bytes of 4 patterns (forces the unrolled path)",
            "reduced_buffers_from_len": if vp.light_len == usize::MAX { json!(null) } else { json!({"len": vp.light_len, "buffers": "exact; +ff x10"}) },
            "encode_values": "0, 1, 2^k-1, 2^k, 2^k+1 for k = 1..63, u64::MAX",
        },
        "messages": {
            "types": subs.iter().map(|s| s.schema.name.clone()).collect::<Vec<_>>(),
            "values": "per type: every field through its full boundary domain with the others default; all pairs of fields at the reduced domains; all fields set at once",
            "integers": "0, 1, +-(2^k-1, 2^k, 2^k+1) for every k below the width, min, max",
            "floats": "19 bit patterns incl. +-0, subnormals, +-inf, quiet/signalling/negative NaNs",
            "mutations": format!("every 1-bit flip, every byte overwritten with 00/7f/80/ff, every truncation of each distinct valid encoding <= {} bytes (all single-field cases, every {}th pair case)", msgs::MUTATE_MAX_LEN, p.pair_stride),
            "unknown_fields": "6 unknown fields (field 15 of each wire type, field 1000, a declared number with another wire type) at every field boundary of every message body, nested ones included, of every single-field case",
        },
        "alphabet_strings": {"symbols_up_to": p.alpha_len, "per_type_alphabets": alpha},
        "nesting_depths": p.depths,
    });
    rep.rule = "distinct: varint buffers by (decoder path, tail kind, bytes consumed, bit length of the value, overflow flag, ok/err) -- the raw buffers are counted in evaluations, not stored; message values by (type, value); hostile inputs by (type, error code or the decoded value hashed into 4096 buckets). non-trivial: varints longer than one byte or rejected; message values other than the all-default value; hostile inputs whose result is not plain buffer-too-short. outcomes: distinct observed results of the subject (bytes consumed / error code / decoded-value bucket / encoded length). Every case is executed on the real buffertk/prototk code and compared with the independent reference in codecmc::wire and codecmc::schema.".to_string();
    rep.assumptions = vec![
        "message values outside the boundary domains, strings over other alphabets and inputs longer than the stated bounds are not covered".into(),
        "a tenth varint byte carrying bits above 2^64 may be rejected or truncated (both admissible)".into(),
        "SError values travel as their textual form; the text itself is produced by the handled crate and is not checked here".into(),
    ];
}

/////////////////////////////////////////////// replay /////////////////////////////////////////////

fn replay(args: &Args, rf: &Value) {
    let case = &rf["case"];
    let want = rf["signature"].as_str().unwrap_or("");
    let subs = subjects();
    let phase = case["phase"].as_str().unwrap_or("");
    println!("replaying {phase} case; recorded signature: {want}");
    let mut failed = false;
    match phase {
        "varint-decode" => {
            let buf = unhex(case["bytes"].as_str().unwrap());
            let w = codecmc::wire::ref_varint_decode(&buf);
            let g = varint::subject_decode(&buf);
            println!("buffer   {}", vcore::hex(&buf));
            println!("expected {w:?} (reference LEB128 decoder)");
            println!("observed {g:?} (buffertk::v64::unpack)");
            failed = varint::compare(&w, &g).is_some();
        }
        "varint-encode" => {
            let x = case["value"].as_u64().unwrap();
            println!("value {x}: expected bytes {}", vcore::hex(&codecmc::wire::varint(x)));
            if let Some((what, detail)) = varint::check_encode(x) {
                println!("observed difference in {what}: {detail}");
                failed = true;
            }
        }
        "round-trip" => {
            let s = &subs[type_index(&subs, case["type"].as_str().unwrap())];
            let v = Val::from_json(&case["value"]);
            println!("type {} value {}", s.schema.name, v.show());
            println!("expected bytes {}", hex_short(&ref_encode(&s.schema, &v)));
            let rt = msgs::round_trip(s, &v);
            println!("observed bytes {}", rt.bytes.as_ref().map(|b| hex_short(b)).unwrap_or("none".into()));
            for (o, d) in rt.findings.iter() {
                println!("finding {o}: {d}");
            }
            failed = !rt.findings.is_empty();
        }
        "hostile" => {
            let s = &subs[type_index(&subs, case["type"].as_str().unwrap())];
            let buf = unhex(case["bytes"].as_str().unwrap());
            let d = decode(s, &buf);
            println!("type {} input {}", s.schema.name, vcore::hex(&buf));
            println!("expected Ok(..) or Err(..), no allocation above {} bytes", codecmc::ALLOC_LIMIT);
            println!("observed {} (largest allocation request {} bytes)", d.obs.show(), d.peak);
            failed = !hostile_findings(s, &d).is_empty();
        }
        "insert" => {
            let s = &subs[type_index(&subs, case["type"].as_str().unwrap())];
            let v = Val::from_json(&case["value"]);
            let bs = msgs::boundaries(&s.schema, &v);
            let ins = msgs::insertion(
                &s.schema,
                &v,
                &bs,
                case["boundary"].as_u64().unwrap() as usize,
                case["unknown"].as_u64().unwrap() as usize,
            )
            .expect("boundary exists");
            println!("type {} value {}", s.schema.name, v.show());
            println!("plain encoding     {}", hex_short(&ref_encode(&s.schema, &v)));
            println!("with {} in a {}: {}", ins.unknown, ins.container, hex_short(&ins.bytes));
            let (obs, finding) = msgs::check_insertion(s, &v, &ins);
            println!("expected Ok with the same value");
            println!("observed {}", obs.show());
            failed = finding.is_some();
        }
        "depth" => {
            let d = case["depth"].as_u64().unwrap() as usize;
            let r = depth_probe(args, d);
            println!("Tree nested {d} deep ({} bytes): expected ok, observed {r}", tree_bytes(d).len());
            failed = r != "ok";
        }
        "abort-input" => {
            let out = self_cmd(args)
                .arg("--child-input")
                .arg(case["type"].as_str().unwrap())
                .arg("--bytes")
                .arg(case["bytes"].as_str().unwrap())
                .output()
                .expect("spawn");
            println!(
                "unpack {} into {}: expected a normal exit with Ok or Err, observed {} {}",
                case["bytes"].as_str().unwrap(),
                case["type"].as_str().unwrap(),
                out.status,
                String::from_utf8_lossy(&out.stdout).trim()
            );
            failed = !out.status.success();
        }
        "abort-item" => {
            let text = case["item"].to_string();
            let out = self_cmd(args).arg("--child-item").arg(&text).output().expect("spawn");
            println!("work item {text}: expected a normal exit, observed {}", out.status);
            failed = !out.status.success();
        }
        other => {
            eprintln!("unknown replay phase {other}");
            std::process::exit(2);
        }
    }
    if failed {
        println!("REPRODUCED");
        std::process::exit(1);
    }
    println!("no finding: the property holds on this case");
    std::process::exit(0);
}

fn main() {
    let args = Args::parse();
    install_panic_hook();
    if let Some(rf) = args.replay_case() {
        replay(&args, &rf);
    } else if args.flag("child-depth") {
        child_depth(&args);
    } else if args.flag("child-input") {
        child_input(&args);
    } else if args.flag("child-item") {
        child_item(&args);
    } else if args.flag("child") {
        child_all(&args);
    } else {
        supervise(&args);
    }
}
