//! The family of `#[derive(prototk_derive::Message)]` types under test, each with a conversion
//! to and from the dynamic `Val` and a `Schema` generated from the same tokens as the derive
//! attributes.

use std::path::PathBuf;

use buffertk::{Packable, Unpackable, stack_pack};
use codecmc::schema::*;
use prototk::SError;
use prototk_derive::Message;

/////////////////////////////////////////////// Conv ///////////////////////////////////////////////

pub trait Conv<'v>: Sized {
    fn to_val(&self) -> Val;
    fn from_val(v: &'v Val) -> Self;
}

macro_rules! conv_int {
    ($($t:ty => $var:ident as $w:ty),*) => {$(
        impl<'v> Conv<'v> for $t {
            fn to_val(&self) -> Val { Val::$var(*self as $w) }
            fn from_val(v: &'v Val) -> Self {
                match v { Val::$var(x) => *x as $t, _ => panic!("bad val {v:?} for {}", stringify!($t)) }
            }
        }
    )*};
}
conv_int!(i32 => I as i64, i64 => I as i64, u32 => U as u64, u64 => U as u64, usize => U as u64);

impl<'v> Conv<'v> for f32 {
    fn to_val(&self) -> Val {
        Val::F32(self.to_bits())
    }
    fn from_val(v: &'v Val) -> Self {
        match v {
            Val::F32(b) => f32::from_bits(*b),
            _ => panic!("bad val {v:?}"),
        }
    }
}
impl<'v> Conv<'v> for f64 {
    fn to_val(&self) -> Val {
        Val::F64(self.to_bits())
    }
    fn from_val(v: &'v Val) -> Self {
        match v {
            Val::F64(b) => f64::from_bits(*b),
            _ => panic!("bad val {v:?}"),
        }
    }
}
impl<'v> Conv<'v> for bool {
    fn to_val(&self) -> Val {
        Val::Bool(*self)
    }
    fn from_val(v: &'v Val) -> Self {
        match v {
            Val::Bool(b) => *b,
            _ => panic!("bad val {v:?}"),
        }
    }
}
impl<'v> Conv<'v> for Vec<u8> {
    fn to_val(&self) -> Val {
        Val::Bytes(self.clone())
    }
    fn from_val(v: &'v Val) -> Self {
        match v {
            Val::Bytes(b) => b.clone(),
            _ => panic!("bad val {v:?}"),
        }
    }
}
impl<'v> Conv<'v> for &'v [u8] {
    fn to_val(&self) -> Val {
        Val::Bytes(self.to_vec())
    }
    fn from_val(v: &'v Val) -> Self {
        match v {
            Val::Bytes(b) => b,
            _ => panic!("bad val {v:?}"),
        }
    }
}
impl<'v> Conv<'v> for String {
    fn to_val(&self) -> Val {
        Val::Str(self.clone())
    }
    fn from_val(v: &'v Val) -> Self {
        match v {
            Val::Str(b) => b.clone(),
            _ => panic!("bad val {v:?}"),
        }
    }
}
impl<'v> Conv<'v> for &'v str {
    fn to_val(&self) -> Val {
        Val::Str(self.to_string())
    }
    fn from_val(v: &'v Val) -> Self {
        match v {
            Val::Str(b) => b,
            _ => panic!("bad val {v:?}"),
        }
    }
}
impl<'v, const N: usize> Conv<'v> for [u8; N] {
    fn to_val(&self) -> Val {
        Val::Bytes(self.to_vec())
    }
    fn from_val(v: &'v Val) -> Self {
        match v {
            Val::Bytes(b) => {
                let mut a = [0u8; N];
                a.copy_from_slice(b);
                a
            }
            _ => panic!("bad val {v:?}"),
        }
    }
}
impl<'v> Conv<'v> for PathBuf {
    fn to_val(&self) -> Val {
        use std::os::unix::ffi::OsStrExt;
        Val::Bytes(self.as_os_str().as_bytes().to_vec())
    }
    fn from_val(v: &'v Val) -> Self {
        use std::os::unix::ffi::OsStrExt;
        match v {
            Val::Bytes(b) => PathBuf::from(std::ffi::OsStr::from_bytes(b)),
            _ => panic!("bad val {v:?}"),
        }
    }
}
impl<'v, T: Conv<'v>> Conv<'v> for Option<T> {
    fn to_val(&self) -> Val {
        Val::Opt(self.as_ref().map(|x| Box::new(x.to_val())))
    }
    fn from_val(v: &'v Val) -> Self {
        match v {
            Val::Opt(x) => x.as_ref().map(|x| T::from_val(x)),
            _ => panic!("bad val {v:?}"),
        }
    }
}
impl<'v, T: Conv<'v>> Conv<'v> for Vec<T> {
    fn to_val(&self) -> Val {
        Val::List(self.iter().map(|x| x.to_val()).collect())
    }
    fn from_val(v: &'v Val) -> Self {
        match v {
            Val::List(xs) => xs.iter().map(|x| T::from_val(x)).collect(),
            _ => panic!("bad val {v:?}"),
        }
    }
}
impl<'v, T: Conv<'v>> Conv<'v> for Box<T> {
    fn to_val(&self) -> Val {
        (**self).to_val()
    }
    fn from_val(v: &'v Val) -> Self {
        Box::new(T::from_val(v))
    }
}
impl<'v> Conv<'v> for SError {
    fn to_val(&self) -> Val {
        Val::Err(self.to_string())
    }
    fn from_val(v: &'v Val) -> Self {
        match v {
            Val::Err(s) => serror_table()
                .into_iter()
                .find(|e| &e.to_string() == s)
                .unwrap_or_else(|| panic!("error value {s} is not in the table")),
            _ => panic!("bad val {v:?}"),
        }
    }
}
impl<'v, T: Conv<'v>> Conv<'v> for Result<T, SError> {
    fn to_val(&self) -> Val {
        match self {
            Ok(x) => Val::Res(true, Box::new(x.to_val())),
            Err(e) => Val::Res(false, Box::new(e.to_val())),
        }
    }
    fn from_val(v: &'v Val) -> Self {
        match v {
            Val::Res(true, x) => Ok(T::from_val(x)),
            Val::Res(false, e) => Err(SError::from_val(e)),
            _ => panic!("bad val {v:?}"),
        }
    }
}

/////////////////////////////////////////////// Zero ///////////////////////////////////////////////

/// `Default` for every field type in use (arrays of 64 and Result have no `Default`).
pub trait Zero {
    fn zero() -> Self;
}
macro_rules! zero_default {
    ($($t:ty),*) => {$( impl Zero for $t { fn zero() -> Self { Default::default() } } )*};
}
zero_default!(i32, i64, u32, u64, usize, f32, f64, bool, String, PathBuf);
impl<T> Zero for Vec<T> {
    fn zero() -> Self {
        vec![]
    }
}
impl<T> Zero for Option<T> {
    fn zero() -> Self {
        None
    }
}
impl<T: Zero> Zero for Box<T> {
    fn zero() -> Self {
        Box::new(T::zero())
    }
}
impl<const N: usize> Zero for [u8; N] {
    fn zero() -> Self {
        [0u8; N]
    }
}
impl Zero for SError {
    fn zero() -> Self {
        prototk::success()
    }
}
impl<T> Zero for Result<T, SError> {
    fn zero() -> Self {
        Err(prototk::success())
    }
}

pub trait HasSchema {
    fn schema() -> Schema;
}

////////////////////////////////////////////// structs /////////////////////////////////////////////

macro_rules! subject_struct {
    ($name:ident { $( $f:ident : [$($ty:tt)*] = ($num:tt, $pty:ident $(, $inner:ty)?) ),* $(,)? }) => {
        #[derive(Clone, Debug, Message)]
        pub struct $name { $( #[prototk($num, $pty)] pub $f: $($ty)*, )* }
        impl Default for $name {
            fn default() -> Self { Self { $( $f: Zero::zero(), )* } }
        }
        impl Zero for $name { fn zero() -> Self { Default::default() } }
        impl<'v> Conv<'v> for $name {
            fn to_val(&self) -> Val { Val::Msg(vec![ $( self.$f.to_val(), )* ]) }
            fn from_val(v: &'v Val) -> Self {
                let Val::Msg(fs) = v else { panic!("bad val {v:?} for {}", stringify!($name)) };
                #[allow(unused_mut, unused_variables)]
                let mut it = fs.iter();
                Self { $( $f: Conv::from_val(it.next().expect("too few fields")), )* }
            }
        }
        impl HasSchema for $name {
            fn schema() -> Schema {
                Schema {
                    name: stringify!($name).to_string(),
                    shape: Shape::Struct(vec![ $(
                        field_spec(stringify!($f), $num, stringify!($pty), stringify!($($ty)*),
                            [$(<$inner as HasSchema>::schema())?].into_iter().next()),
                    )* ]),
                }
            }
        }
    };
}

subject_struct!(Scalars {
    a: [i32] = (1, int32),
    b: [i64] = (2, int64),
    c: [u32] = (3, uint32),
    d: [u64] = (4, uint64),
    e: [i32] = (5, sint32),
    f: [i64] = (6, sint64),
    g: [bool] = (7, Bool),
    h: [u32] = (8, fixed32),
    i: [u64] = (9, fixed64),
    j: [i32] = (10, sfixed32),
    k: [i64] = (11, sfixed64),
    l: [f64] = (12, double),
    m: [usize] = (13, uint64),
});

subject_struct!(FloatOnly { x: [f32] = (1, float) });
subject_struct!(Floats { x: [f32] = (1, float), y: [f64] = (2, double) });
subject_struct!(FloatBoxes { o: [Option<f32>] = (1, float), r: [Vec<f32>] = (2, float) });
subject_struct!(FloatBox { b: [Box<f32>] = (1, float) });

subject_struct!(Blobs {
    a: [Vec<u8>] = (1, bytes),
    b: [String] = (2, string),
    c: [[u8; 16]] = (3, bytes16),
    d: [[u8; 32]] = (4, bytes32),
    e: [[u8; 64]] = (5, bytes64),
    f: [PathBuf] = (6, bytes),
    g: [PathBuf] = (7, string),
});

subject_struct!(Inner { x: [u64] = (1, uint64), z: [i32] = (2, sint32), s: [String] = (3, string) });

subject_struct!(Nested {
    m: [Inner] = (1, message, Inner),
    o: [Option<Inner>] = (2, message, Inner),
    r: [Vec<Inner>] = (3, message, Inner),
    t: [u64] = (4, uint64),
});

subject_struct!(Outer { n: [Nested] = (1, message, Nested), v: [Vec<Nested>] = (2, message, Nested) });

subject_struct!(Opts {
    a: [Option<i32>] = (1, int32),
    b: [Option<i64>] = (2, sint64),
    c: [Option<u32>] = (3, fixed32),
    d: [Option<u64>] = (4, uint64),
    e: [Option<bool>] = (5, Bool),
    f: [Option<f64>] = (6, double),
    g: [Option<String>] = (7, string),
    h: [Option<Vec<u8>>] = (8, bytes),
    i: [Option<[u8; 16]>] = (9, bytes16),
    j: [Option<i64>] = (10, sfixed64),
    k: [Option<usize>] = (11, uint64),
});

subject_struct!(Reps {
    a: [Vec<i32>] = (1, int32),
    b: [Vec<i64>] = (2, sint64),
    c: [Vec<u32>] = (3, fixed32),
    d: [Vec<u64>] = (4, uint64),
    e: [Vec<bool>] = (5, Bool),
    f: [Vec<f64>] = (6, double),
    g: [Vec<String>] = (7, string),
    h: [Vec<Vec<u8>>] = (8, bytes),
    i: [Vec<i32>] = (9, sfixed32),
    j: [Vec<u32>] = (10, uint32),
});

subject_struct!(Boxes { x: [Box<u64>] = (1, uint64), y: [Box<f64>] = (2, double), z: [Box<i32>] = (3, sint32) });

subject_struct!(WideTags {
    a: [u64] = (16, uint64),
    b: [u64] = (2047, uint64),
    c: [u64] = (2048, uint64),
    d: [u64] = (18999, uint64),
    e: [u64] = (20000, uint64),
    f: [u64] = (268435455, uint64),
    g: [u64] = (536870911, uint64),
});

subject_struct!(HasEnum {
    e: [OneOf] = (1, message, OneOf),
    o: [Option<OneOf>] = (2, message, OneOf),
    r: [Vec<OneOf>] = (3, message, OneOf),
    after: [u64] = (4, uint64),
});

subject_struct!(HasResult { res: [Result<Inner, SError>] = (1, message, Inner), after: [u64] = (2, uint64) });

subject_struct!(HasError { err: [SError] = (1, message), after: [u64] = (2, uint64) });

subject_struct!(Empty {});

/////////////////////////////////////// hand-written shapes ////////////////////////////////////////

#[derive(Clone, Debug, Default, Message)]
pub struct UnitStruct;

impl<'v> Conv<'v> for UnitStruct {
    fn to_val(&self) -> Val {
        Val::Msg(vec![])
    }
    fn from_val(_: &'v Val) -> Self {
        UnitStruct
    }
}
impl HasSchema for UnitStruct {
    fn schema() -> Schema {
        Schema { name: "UnitStruct".into(), shape: Shape::Struct(vec![]) }
    }
}

#[derive(Clone, Debug, Default, Message)]
pub struct Tuple(#[prototk(1, uint64)] u64, #[prototk(2, double)] f64, #[prototk(3, sint32)] i32);

impl<'v> Conv<'v> for Tuple {
    fn to_val(&self) -> Val {
        Val::Msg(vec![self.0.to_val(), self.1.to_val(), self.2.to_val()])
    }
    fn from_val(v: &'v Val) -> Self {
        let Val::Msg(fs) = v else { panic!("bad val {v:?}") };
        Tuple(Conv::from_val(&fs[0]), Conv::from_val(&fs[1]), Conv::from_val(&fs[2]))
    }
}
impl HasSchema for Tuple {
    fn schema() -> Schema {
        Schema {
            name: "Tuple".into(),
            shape: Shape::Struct(vec![
                field_spec("0", 1, "uint64", "u64", None),
                field_spec("1", 2, "double", "f64", None),
                field_spec("2", 3, "sint32", "i32", None),
            ]),
        }
    }
}

#[derive(Clone, Debug, Default, Message)]
pub struct Borrowed<'a> {
    #[prototk(1, bytes)]
    pub a: &'a [u8],
    #[prototk(2, string)]
    pub b: &'a str,
}

impl<'v> Conv<'v> for Borrowed<'v> {
    fn to_val(&self) -> Val {
        Val::Msg(vec![self.a.to_val(), self.b.to_val()])
    }
    fn from_val(v: &'v Val) -> Self {
        let Val::Msg(fs) = v else { panic!("bad val {v:?}") };
        Borrowed { a: Conv::from_val(&fs[0]), b: Conv::from_val(&fs[1]) }
    }
}
fn borrowed_schema() -> Schema {
    Schema {
        name: "Borrowed".into(),
        shape: Shape::Struct(vec![
            field_spec("a", 1, "bytes", "&[u8]", None),
            field_spec("b", 2, "string", "&str", None),
        ]),
    }
}

/// enum with a unit variant, a variant with named fields and unnamed variants of every wire type
#[derive(Clone, Debug, Default, Message)]
pub enum OneOf {
    #[prototk(1, message)]
    #[default]
    Nop,
    #[prototk(2, message)]
    Named {
        #[prototk(1, uint64)]
        length: usize,
        #[prototk(2, sint64)]
        delta: i64,
        #[prototk(3, string)]
        s: String,
        #[prototk(4, bytes32)]
        h: [u8; 32],
    },
    #[prototk(3, message)]
    Msg(Inner),
    #[prototk(4, sint64)]
    S(i64),
    #[prototk(5, uint64)]
    U(u64),
    #[prototk(6, string)]
    Str(String),
    #[prototk(7, double)]
    D(f64),
    #[prototk(8, fixed32)]
    F(u32),
    #[prototk(9, bytes)]
    B(Vec<u8>),
    #[prototk(10, Bool)]
    T(bool),
    #[prototk(11, bytes16)]
    H([u8; 16]),
    #[prototk(12, int32)]
    I(i32),
}

impl Zero for OneOf {
    fn zero() -> Self {
        OneOf::Nop
    }
}

impl<'v> Conv<'v> for OneOf {
    fn to_val(&self) -> Val {
        match self {
            OneOf::Nop => Val::Var(0, vec![]),
            OneOf::Named { length, delta, s, h } => {
                Val::Var(1, vec![length.to_val(), delta.to_val(), s.to_val(), h.to_val()])
            }
            OneOf::Msg(x) => Val::Var(2, vec![x.to_val()]),
            OneOf::S(x) => Val::Var(3, vec![x.to_val()]),
            OneOf::U(x) => Val::Var(4, vec![x.to_val()]),
            OneOf::Str(x) => Val::Var(5, vec![x.to_val()]),
            OneOf::D(x) => Val::Var(6, vec![x.to_val()]),
            OneOf::F(x) => Val::Var(7, vec![x.to_val()]),
            OneOf::B(x) => Val::Var(8, vec![x.to_val()]),
            OneOf::T(x) => Val::Var(9, vec![x.to_val()]),
            OneOf::H(x) => Val::Var(10, vec![x.to_val()]),
            OneOf::I(x) => Val::Var(11, vec![x.to_val()]),
        }
    }
    fn from_val(v: &'v Val) -> Self {
        let Val::Var(i, p) = v else { panic!("bad val {v:?}") };
        match i {
            0 => OneOf::Nop,
            1 => OneOf::Named {
                length: Conv::from_val(&p[0]),
                delta: Conv::from_val(&p[1]),
                s: Conv::from_val(&p[2]),
                h: Conv::from_val(&p[3]),
            },
            2 => OneOf::Msg(Conv::from_val(&p[0])),
            3 => OneOf::S(Conv::from_val(&p[0])),
            4 => OneOf::U(Conv::from_val(&p[0])),
            5 => OneOf::Str(Conv::from_val(&p[0])),
            6 => OneOf::D(Conv::from_val(&p[0])),
            7 => OneOf::F(Conv::from_val(&p[0])),
            8 => OneOf::B(Conv::from_val(&p[0])),
            9 => OneOf::T(Conv::from_val(&p[0])),
            10 => OneOf::H(Conv::from_val(&p[0])),
            11 => OneOf::I(Conv::from_val(&p[0])),
            _ => panic!("bad variant {i}"),
        }
    }
}

fn unnamed(name: &str, num: u32, pty: &str, ty: &str, inner: Option<Schema>) -> VariantSpec {
    VariantSpec {
        name: name.into(),
        num,
        vk: VariantKind::Unnamed(field_spec(name, num, pty, ty, inner)),
    }
}

impl HasSchema for OneOf {
    fn schema() -> Schema {
        Schema {
            name: "OneOf".into(),
            shape: Shape::Enum(vec![
                VariantSpec { name: "Nop".into(), num: 1, vk: VariantKind::Unit },
                VariantSpec {
                    name: "Named".into(),
                    num: 2,
                    vk: VariantKind::Named(vec![
                        field_spec("length", 1, "uint64", "usize", None),
                        field_spec("delta", 2, "sint64", "i64", None),
                        field_spec("s", 3, "string", "String", None),
                        field_spec("h", 4, "bytes32", "[u8;32]", None),
                    ]),
                },
                unnamed("Msg", 3, "message", "Inner", Some(Inner::schema())),
                unnamed("S", 4, "sint64", "i64", None),
                unnamed("U", 5, "uint64", "u64", None),
                unnamed("Str", 6, "string", "String", None),
                unnamed("D", 7, "double", "f64", None),
                unnamed("F", 8, "fixed32", "u32", None),
                unnamed("B", 9, "bytes", "Vec<u8>", None),
                unnamed("T", 10, "Bool", "bool", None),
                unnamed("H", 11, "bytes16", "[u8;16]", None),
                unnamed("I", 12, "int32", "i32", None),
            ]),
        }
    }
}

/// enum whose named variants hold Option and Vec of messages and scalars
#[derive(Clone, Debug, Default, Message)]
pub enum EnumBoxes {
    #[prototk(1, message)]
    #[default]
    Nop,
    #[prototk(2, message)]
    WithOpt {
        #[prototk(1, message)]
        value: Option<Inner>,
        #[prototk(2, sint32)]
        n: Option<i32>,
    },
    #[prototk(3, message)]
    WithVec {
        #[prototk(1, message)]
        value: Vec<Inner>,
        #[prototk(2, uint64)]
        n: Vec<u64>,
    },
}

impl<'v> Conv<'v> for EnumBoxes {
    fn to_val(&self) -> Val {
        match self {
            EnumBoxes::Nop => Val::Var(0, vec![]),
            EnumBoxes::WithOpt { value, n } => Val::Var(1, vec![value.to_val(), n.to_val()]),
            EnumBoxes::WithVec { value, n } => Val::Var(2, vec![value.to_val(), n.to_val()]),
        }
    }
    fn from_val(v: &'v Val) -> Self {
        let Val::Var(i, p) = v else { panic!("bad val {v:?}") };
        match i {
            0 => EnumBoxes::Nop,
            1 => EnumBoxes::WithOpt { value: Conv::from_val(&p[0]), n: Conv::from_val(&p[1]) },
            2 => EnumBoxes::WithVec { value: Conv::from_val(&p[0]), n: Conv::from_val(&p[1]) },
            _ => panic!("bad variant {i}"),
        }
    }
}

impl HasSchema for EnumBoxes {
    fn schema() -> Schema {
        Schema {
            name: "EnumBoxes".into(),
            shape: Shape::Enum(vec![
                VariantSpec { name: "Nop".into(), num: 1, vk: VariantKind::Unit },
                VariantSpec {
                    name: "WithOpt".into(),
                    num: 2,
                    vk: VariantKind::Named(vec![
                        field_spec("value", 1, "message", "Option<Inner>", Some(Inner::schema())),
                        field_spec("n", 2, "sint32", "Option<i32>", None),
                    ]),
                },
                VariantSpec {
                    name: "WithVec".into(),
                    num: 3,
                    vk: VariantKind::Named(vec![
                        field_spec("value", 1, "message", "Vec<Inner>", Some(Inner::schema())),
                        field_spec("n", 2, "uint64", "Vec<u64>", None),
                    ]),
                },
            ]),
        }
    }
}

/// A recursive message (children in a Vec); used only by the nesting-depth probe.
#[derive(Clone, Debug, Default, Message)]
pub struct Tree {
    #[prototk(1, uint64)]
    pub v: u64,
    #[prototk(2, message)]
    pub kids: Vec<Tree>,
}

////////////////////////////////////////////// Subject /////////////////////////////////////////////

/// One type of the family behind lifetime-free function pointers.
pub struct Subject {
    pub schema: Schema,
    /// (pack_sz, stack_pack(..).to_vec()); panics propagate to the caller's `catch`
    pub pack: fn(&Val) -> (usize, Vec<u8>),
    /// Ok((value, bytes left over)) or Err(error code)
    pub unpack: fn(&[u8]) -> Result<(Val, usize), String>,
}

pub fn err_code(e: &SError) -> String {
    match prototk::error_code(e) {
        Some(c) => c.to_string(),
        None => codecmc::strip_digits(&e.to_string()),
    }
}

fn pack_t<T>(v: &Val) -> (usize, Vec<u8>)
where
    T: for<'v> Conv<'v> + Packable,
{
    let t = T::from_val(v);
    (t.pack_sz(), stack_pack(&t).to_vec())
}

fn unpack_t<T>(buf: &[u8]) -> Result<(Val, usize), String>
where
    T: for<'v> Conv<'v> + for<'a> Unpackable<'a, Error = SError>,
{
    match <T as Unpackable>::unpack(buf) {
        Ok((t, rest)) => Ok((t.to_val(), rest.len())),
        Err(e) => Err(err_code(&e)),
    }
}

fn subject<T>() -> Subject
where
    T: HasSchema + for<'v> Conv<'v> + Packable + for<'a> Unpackable<'a, Error = SError>,
{
    Subject { schema: T::schema(), pack: pack_t::<T>, unpack: unpack_t::<T> }
}

fn pack_borrowed(v: &Val) -> (usize, Vec<u8>) {
    let t = Borrowed::from_val(v);
    (t.pack_sz(), stack_pack(&t).to_vec())
}

fn unpack_borrowed(buf: &[u8]) -> Result<(Val, usize), String> {
    match <Borrowed as Unpackable>::unpack(buf) {
        Ok((t, rest)) => Ok((t.to_val(), rest.len())),
        Err(e) => Err(err_code(&e)),
    }
}

type BareResult = Result<Inner, SError>;

pub fn subjects() -> Vec<Subject> {
    vec![
        subject::<Scalars>(),
        subject::<FloatOnly>(),
        subject::<Floats>(),
        subject::<FloatBoxes>(),
        subject::<FloatBox>(),
        subject::<Blobs>(),
        Subject { schema: borrowed_schema(), pack: pack_borrowed, unpack: unpack_borrowed },
        subject::<Inner>(),
        subject::<Nested>(),
        subject::<Outer>(),
        subject::<Opts>(),
        subject::<Reps>(),
        subject::<Boxes>(),
        subject::<WideTags>(),
        subject::<Tuple>(),
        subject::<UnitStruct>(),
        subject::<Empty>(),
        subject::<OneOf>(),
        subject::<EnumBoxes>(),
        subject::<HasEnum>(),
        subject::<HasResult>(),
        subject::<HasError>(),
        Subject {
            schema: Schema {
                name: "BareResult".into(),
                shape: Shape::Result(Box::new(Inner::schema())),
            },
            pack: pack_t::<BareResult>,
            unpack: unpack_t::<BareResult>,
        },
    ]
}

pub fn unpack_tree(buf: &[u8]) -> Result<usize, String> {
    match <Tree as Unpackable>::unpack(buf) {
        Ok((t, _)) => {
            // depth of the decoded value, iteratively
            let mut depth = 0;
            let mut cur = &t;
            while let Some(k) = cur.kids.first() {
                depth += 1;
                cur = k;
            }
            // dropping a deep tree recurses too; leak it so only the decoder is measured
            std::mem::forget(t);
            Ok(depth)
        }
        Err(e) => Err(err_code(&e)),
    }
}
