//! Phase (c), first part: every string of up to `max_len` symbols over a structural alphabet,
//! unpacked into every type of the family.

use codecmc::schema::*;
use codecmc::wire::*;
use vcore::Report;

use crate::msgs::{Tally, check_hostile};
use crate::subjects::Subject;

/// (number, wire type) of the declared top-level fields / variants with one-byte tags
fn declared(schema: &Schema) -> Vec<(u32, u8)> {
    let mut v: Vec<(u32, u8)> = match &schema.shape {
        Shape::Struct(fs) => fs.iter().map(|f| (f.num, wire_type(&f.kind))).collect(),
        Shape::Enum(vars) => vars
            .iter()
            .map(|v| match &v.vk {
                VariantKind::Unnamed(f) => (v.num, wire_type(&f.kind)),
                _ => (v.num, WT_LEN),
            })
            .collect(),
        Shape::Result(_) => vec![(1, WT_LEN), (2, WT_LEN)],
    };
    v.retain(|(n, _)| *n <= 15);
    v
}

/// The structural alphabet of one type.  Symbols are byte strings (a multi-byte tag is one
/// symbol).  Quick: 12 symbols, thorough: 16.
pub fn alphabet(schema: &Schema, thorough: bool) -> Vec<Vec<u8>> {
    let mut a: Vec<Vec<u8>> = vec![];
    let push = |s: Vec<u8>, a: &mut Vec<Vec<u8>>| {
        if !a.contains(&s) {
            a.push(s);
        }
    };
    let tag = |n: u32, wt: u8| {
        let mut v = vec![];
        put_tag(&mut v, n, wt);
        v
    };
    let size = if thorough { 16 } else { 12 };
    // declared tags: first one of every wire type, then in declaration order
    let decl = declared(schema);
    let want_declared = if thorough { 4 } else { 3 };
    let mut chosen: Vec<(u32, u8)> = vec![];
    for wt in [WT_LEN, WT_VARINT, WT_I32, WT_I64] {
        if let Some(d) = decl.iter().find(|d| d.1 == wt) {
            chosen.push(*d);
        }
    }
    for d in decl.iter() {
        if chosen.len() < want_declared && !chosen.contains(d) {
            chosen.push(*d);
        }
    }
    chosen.truncate(want_declared);
    for (n, wt) in chosen {
        push(tag(n, wt), &mut a);
    }
    // zero / field number 0, small lengths and values, continuation bytes
    for b in [0x00u8, 0x01, 0x02, 0x80, 0xff] {
        push(vec![b], &mut a);
    }
    // unknown field 15 as varint, length-delimited and 32-bit; a reserved wire type
    push(tag(15, WT_VARINT), &mut a);
    push(tag(15, WT_LEN), &mut a);
    push(tag(15, WT_I32), &mut a);
    push(tag(1, 3), &mut a);
    if thorough {
        push(tag(15, WT_I64), &mut a);
        push(vec![0x7f], &mut a);
        push(tag(19000, WT_VARINT), &mut a); // reserved field number
        push(vec![0x80, 0x80, 0x80, 0x80, 0x10], &mut a); // tag above u32::MAX
    }
    // types with few declared tags get further small bytes: every type has the same size
    let mut filler = 0x03u8;
    while a.len() < size {
        push(vec![filler], &mut a);
        filler += 1;
    }
    a.truncate(size);
    a
}

/// every string `prefix ++ w`, |w| <= extra symbols
pub fn sweep(subj: &Subject, alphabet: &[Vec<u8>], prefix: &[usize], extra: usize, rep: &mut Report) {
    fn rec(subj: &Subject, alphabet: &[Vec<u8>], buf: &mut Vec<u8>, extra: usize, t: &mut Tally, rep: &mut Report) {
        check_hostile(subj, buf, "alphabet-string", t, rep);
        if extra == 0 {
            return;
        }
        for sym in alphabet {
            let n = buf.len();
            buf.extend_from_slice(sym);
            rec(subj, alphabet, buf, extra - 1, t, rep);
            buf.truncate(n);
        }
    }
    let mut buf = vec![];
    for &i in prefix {
        buf.extend_from_slice(&alphabet[i]);
    }
    let mut t = Tally::default();
    rec(subj, alphabet, &mut buf, extra, &mut t, rep);
    t.flush("alphabet_strings", rep);
}
