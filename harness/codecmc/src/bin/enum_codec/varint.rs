//! Phase (a): buffertk::v64 against the LEB128 reference.

use buffertk::{Packable, Unpackable, v64};
use codecmc::wire::{RefVarint, ref_varint_decode, varint};
use vcore::{Report, json, stable_hash};

use crate::common::*;

/// trailing bytes that keep the buffer below ten bytes for short inputs (slow path with a tail)
const TAIL1: [u8; 5] = [0x00, 0x01, 0x7f, 0x80, 0xff];
/// ten-byte tails: the buffer is then >= 10 bytes and the unrolled fast path runs
const TAIL10: [[u8; 10]; 4] = [
    [0x00; 10],
    [0xff; 10],
    [0x80; 10],
    [0x01, 0xff, 0xff, 0xff, 0xff, 0xff, 0xff, 0xff, 0xff, 0xff],
];

#[derive(Clone, Debug, PartialEq, Eq)]
pub enum Got {
    Ok { value: u64, used: usize },
    Err,
    Panic(String),
}

pub fn subject_decode(buf: &[u8]) -> Got {
    match vcore::catch(|| <v64 as Unpackable>::unpack(buf).map(|(v, rest)| (Into::<u64>::into(v), rest.len()))) {
        Ok(Ok((value, rest))) => Got::Ok { value, used: buf.len() - rest },
        Ok(Err(_)) => Got::Err,
        Err(msg) => Got::Panic(format!("{} at {}", msg, last_panic_loc())),
    }
}

/// None if the subject's answer is admissible, else what differs.
pub fn compare(want: &RefVarint, got: &Got) -> Option<&'static str> {
    match (want, got) {
        (_, Got::Panic(_)) => Some("panic"),
        (RefVarint::Err, Got::Err) => None,
        (RefVarint::Err, Got::Ok { .. }) => Some("accepted-unterminated"),
        // bits above 2^64 in the tenth byte: rejecting or truncating are both admissible
        (RefVarint::Ok { dropped: true, .. }, Got::Err) => None,
        (RefVarint::Ok { .. }, Got::Err) => Some("rejected-valid"),
        (RefVarint::Ok { value, used, .. }, Got::Ok { value: v, used: u }) => {
            if u != used {
                Some("bytes-consumed")
            } else if v != value {
                Some("value")
            } else {
                None
            }
        }
    }
}

fn path_of(len: usize) -> &'static str {
    if len < 10 { "slow" } else { "fast" }
}

/// Hot-loop bookkeeping: plain counters and "already inserted" bitmaps in front of the Report's
/// hash sets (Report::count allocates a String per call).
pub struct VStats {
    slow: u64,
    fast: u64,
    strings: u64,
    /// reduced set of tails
    pub light: bool,
    seen_class: Vec<bool>,
    seen_outcome: Vec<bool>,
}

impl Default for VStats {
    fn default() -> Self {
        VStats { slow: 0, fast: 0, strings: 0, light: false, seen_class: vec![false; 1 << 16], seen_outcome: vec![false; 1 << 10] }
    }
}

impl VStats {
    pub fn flush(&mut self, rep: &mut Report) {
        let n = self.slow + self.fast;
        rep.evaluations += n;
        rep.transitions += n;
        rep.traces_validated += n;
        rep.count("varint_slow_path_calls", self.slow);
        rep.count("varint_fast_path_calls", self.fast);
        rep.count("varint_strings", self.strings);
        self.slow = 0;
        self.fast = 0;
        self.strings = 0;
    }
}

fn tail_code(tail: &str) -> usize {
    match tail {
        "none" => 0,
        "one-byte" => 1,
        _ => 2,
    }
}

pub fn check_buffer(buf: &[u8], rep: &mut Report, st: &mut VStats, tail: &'static str) {
    let want = ref_varint_decode(buf);
    let got = subject_decode(buf);
    let path = path_of(buf.len());
    let fast = (path == "fast") as usize;
    if fast == 1 { st.fast += 1 } else { st.slow += 1 }
    // class = (path, tail, ok, used / buffer length, bit length, overflow flag)
    let (key, nontrivial) = match want {
        RefVarint::Ok { value, used, dropped } => (
            fast | tail_code(tail) << 1 | 1 << 3 | used << 4 | ((64 - value.leading_zeros()) as usize) << 8 | (dropped as usize) << 15,
            used > 1,
        ),
        RefVarint::Err => (fast | tail_code(tail) << 1 | buf.len().min(11) << 4, true),
    };
    if !st.seen_class[key] {
        st.seen_class[key] = true;
        let h = stable_hash(&("varint-class", key));
        rep.states.insert(h);
        if nontrivial {
            rep.nontrivial.insert(h);
        }
    }
    let okey = fast
        | match &got {
            Got::Ok { used, .. } => *used,
            Got::Err => 100,
            Got::Panic(_) => 200,
        } << 1;
    if !st.seen_outcome[okey] {
        st.seen_outcome[okey] = true;
        rep.outcomes.insert(stable_hash(&("varint-outcome", okey)));
    }
    if let Some(diff) = compare(&want, &got) {
        // replay before report
        if compare(&ref_varint_decode(buf), &subject_decode(buf)) != Some(diff) {
            rep.count("non_reproducible_findings", 1);
            return;
        }
        let sig = format!(
            "varint-decode path={} tail={} reference={} differs-in={}",
            path,
            tail,
            match want {
                RefVarint::Ok { dropped: true, .. } => "ok-with-bits-above-64",
                RefVarint::Ok { .. } => "ok",
                RefVarint::Err => "err",
            },
            diff
        );
        record(
            rep,
            sig,
            format!("buffer {} : reference {:?}, v64::unpack {:?}", vcore::hex(buf), want, got),
            json!({"phase": "varint-decode", "bytes": vcore::hex(buf)}),
        );
    }
}

/// All configurations of one candidate string.
fn check_string(s: &[u8], rep: &mut Report, st: &mut VStats) {
    let mut buf = [0u8; 24];
    buf[..s.len()].copy_from_slice(s);
    check_buffer(&buf[..s.len()], rep, st, "none");
    if st.light {
        // thorough tier, longest 256-ary strings: the exact buffer and one long tail only
        buf[s.len()..s.len() + 10].copy_from_slice(&TAIL10[1]);
        check_buffer(&buf[..s.len() + 10], rep, st, "ten-bytes");
        st.strings += 1;
        return;
    }
    for t in TAIL1 {
        buf[s.len()] = t;
        check_buffer(&buf[..s.len() + 1], rep, st, "one-byte");
    }
    for t in TAIL10 {
        buf[s.len()..s.len() + 10].copy_from_slice(&t);
        check_buffer(&buf[..s.len() + 10], rep, st, "ten-bytes");
    }
    st.strings += 1;
}

/// every string `prefix ++ w`, w over `alphabet`, |w| <= extra
fn sweep(prefix: &[u8], alphabet: &[u8], extra: usize, light_len: usize, rep: &mut Report) {
    let mut s: Vec<u8> = prefix.to_vec();
    fn rec(s: &mut Vec<u8>, alphabet: &[u8], extra: usize, light_len: usize, rep: &mut Report, st: &mut VStats) {
        st.light = s.len() >= light_len;
        check_string(s, rep, st);
        if extra == 0 {
            return;
        }
        for &a in alphabet {
            s.push(a);
            rec(s, alphabet, extra - 1, light_len, rep, st);
            s.pop();
        }
    }
    let mut st = VStats::default();
    rec(&mut s, alphabet, extra, light_len, rep, &mut st);
    st.flush(rep);
}

pub struct Plan {
    /// 256-ary strings of at least this length get the reduced set of tails
    pub light_len: usize,
    pub full_len: usize,
    pub sym_alphabet: Vec<u8>,
    pub sym_len: usize,
}

pub fn plan(thorough: bool) -> Plan {
    if thorough {
        Plan { light_len: 4, full_len: 4, sym_alphabet: vec![0x00, 0x01, 0x7f, 0x80, 0x81, 0xfe, 0xff], sym_len: 10 }
    } else {
        Plan { light_len: usize::MAX, full_len: 3, sym_alphabet: vec![0x00, 0x01, 0x7f, 0x80, 0xff], sym_len: 10 }
    }
}

enum Item {
    /// the empty string
    Empty,
    /// all strings over 256 values starting with these bytes
    Full(Vec<u8>),
    /// strings over the symbol alphabet of length <= 1
    SymShort,
    /// strings over the symbol alphabet starting with these two symbols
    Sym(u8, u8),
    Encode,
}

pub fn run(thorough: bool, threads: usize, mk: &(dyn Fn() -> Report + Sync)) -> Report {
    let p = plan(thorough);
    let mut items = vec![Item::Encode, Item::Empty, Item::SymShort];
    if p.full_len >= 4 {
        for a in 0..=255u8 {
            for b in (0..=255u8).step_by(16) {
                items.push(Item::Full(vec![a, b]));
            }
        }
    } else {
        for a in 0..=255u8 {
            items.push(Item::Full(vec![a]));
        }
    }
    for &a in p.sym_alphabet.iter() {
        for &b in p.sym_alphabet.iter() {
            items.push(Item::Sym(a, b));
        }
    }
    let all: Vec<u8> = (0..=255u8).collect();
    vcore::parallel(items, threads, mk, |item, rep| match item {
        Item::Empty => {
            let mut st = VStats::default();
            check_string(&[], rep, &mut st);
            st.flush(rep);
        }
        Item::Full(prefix) => {
            if prefix.len() == 1 {
                sweep(prefix, &all, p.full_len - 1, p.light_len, rep);
            } else {
                // thorough: the item is a first byte and a block of 16 second bytes
                if prefix[1] == 0 {
                    let mut st = VStats::default();
                    check_string(&prefix[..1], rep, &mut st);
                    st.flush(rep);
                }
                for b in prefix[1]..=prefix[1] + 15 {
                    sweep(&[prefix[0], b], &all, p.full_len - 2, p.light_len, rep);
                }
            }
        }
        Item::SymShort => {
            let mut st = VStats::default();
            for &a in p.sym_alphabet.iter() {
                check_string(&[a], rep, &mut st);
            }
            st.flush(rep);
        }
        Item::Sym(a, b) => sweep(&[*a, *b], &p.sym_alphabet, p.sym_len - 2, usize::MAX, rep),
        Item::Encode => encode_checks(rep),
    })
}

pub fn boundary_integers() -> Vec<u64> {
    codecmc::schema::ints_u(64)
}

pub fn check_encode(x: u64) -> Option<(String, String)> {
    let want = varint(x);
    let r = vcore::catch(|| {
        let v = v64::from(x);
        let sz = v.pack_sz();
        let mut buf = vec![0u8; sz];
        v.pack(&mut buf);
        (sz, buf)
    });
    let (sz, bytes) = match r {
        Ok(x) => x,
        Err(msg) => return Some(("panic".into(), format!("v64::from({x}).pack panicked: {msg}"))),
    };
    if sz != want.len() || bytes != want {
        return Some((
            "bytes".into(),
            format!("v64::from({x}): pack_sz {sz}, bytes {}; reference {}", vcore::hex(&bytes), vcore::hex(&want)),
        ));
    }
    let mut padded = bytes.clone();
    padded.extend_from_slice(&[0xff; 10]);
    for (buf, path) in [(&bytes, "exact"), (&padded, "padded")] {
        let got = subject_decode(buf);
        if got != (Got::Ok { value: x, used: bytes.len() }) {
            return Some((
                format!("round-trip-{path}"),
                format!("v64 {x} packed to {} decodes ({path} buffer) to {:?}", vcore::hex(&bytes), got),
            ));
        }
    }
    None
}

fn encode_checks(rep: &mut Report) {
    for x in boundary_integers() {
        rep.evaluations += 1;
        rep.transitions += 4;
        rep.traces_validated += 1;
        rep.count("varint_encode_values", 1);
        let h = stable_hash(&("varint-encode", x));
        rep.states.insert(h);
        if x >= 128 {
            rep.nontrivial.insert(h);
        }
        rep.outcomes.insert(stable_hash(&("varint-encode-len", varint(x).len())));
        if let Some((what, detail)) = check_encode(x) {
            if check_encode(x).map(|f| f.0) != Some(what.clone()) {
                rep.count("non_reproducible_findings", 1);
                continue;
            }
            record(
                rep,
                format!("varint-encode differs-in={what}"),
                detail,
                json!({"phase": "varint-encode", "value": x}),
            );
        }
    }
}
