//! Phase (b): every value of the family packs to the reference bytes and round-trips; and the
//! structure-aware part of phase (c): mutations of those valid encodings and unknown fields
//! spliced in at every field boundary.

use std::collections::HashSet;

use codecmc::schema::*;
use codecmc::wire::*;
use vcore::{Report, json, stable_hash};

use crate::common::*;
use crate::subjects::Subject;

/// mutations and insertions are applied to encodings up to this many bytes
pub const MUTATE_MAX_LEN: usize = 300;

//////////////////////////////////////////// round trip ////////////////////////////////////////////

pub struct RoundTrip {
    /// (oracle id, detail)
    pub findings: Vec<(&'static str, String)>,
    pub bytes: Option<Vec<u8>>,
    pub calls: u64,
}

fn first_diff(a: &[u8], b: &[u8]) -> usize {
    a.iter().zip(b.iter()).position(|(x, y)| x != y).unwrap_or(a.len().min(b.len()))
}

pub fn round_trip(subj: &Subject, v: &Val) -> RoundTrip {
    let mut f: Vec<(&'static str, String)> = vec![];
    let want = ref_encode(&subj.schema, v);
    let mut calls = 2;
    let (sz, bytes) = match vcore::catch(|| (subj.pack)(v)) {
        Ok(x) => x,
        Err(msg) => {
            f.push(("pack-panic", format!("packing panicked at {}: {msg}", last_panic_loc())));
            return RoundTrip { findings: f, bytes: None, calls };
        }
    };
    if sz != bytes.len() {
        f.push(("pack_sz", format!("pack_sz() = {sz} but stack_pack(..).to_vec() wrote {} bytes", bytes.len())));
    }
    if bytes != want {
        let at = first_diff(&bytes, &want);
        f.push((
            "wire-bytes",
            format!(
                "packed bytes differ from the reference encoding at offset {at}: packed {} reference {}",
                hex_short(&bytes[at.saturating_sub(2)..]),
                hex_short(&want[at.saturating_sub(2)..]),
            ),
        ));
    }
    calls += 1;
    match decode(subj, &bytes).obs {
        Obs::Ok { val, rest } => {
            if rest != 0 {
                f.push(("round-trip-leftover", format!("unpack of the packed bytes left {rest} bytes")));
            }
            if &val != v {
                f.push(("round-trip-value", format!("unpack(pack(v)) = {} but v = {}", val.show(), v.show())));
            }
        }
        Obs::Err(code) => f.push(("round-trip-error", format!("unpack of the packed bytes returned Err({code})"))),
        Obs::Panic { msg, loc } => {
            f.push(("round-trip-panic", format!("unpack of the packed bytes panicked at {loc}: {msg}")))
        }
    }
    if bytes != want {
        // the standard encoding of the value must be understood as well
        calls += 1;
        match decode(subj, &want).obs {
            Obs::Ok { val, .. } if &val == v => {}
            other => f.push((
                "standard-bytes-decode",
                format!("unpack of the standard encoding {} gives {} instead of the value", hex_short(&want), other.show()),
            )),
        }
    }
    RoundTrip { findings: f, bytes: Some(bytes), calls }
}

fn note_case(rep: &mut Report, subj: &Subject, v: &Val, nontrivial: bool) {
    let h = stable_hash(&(subj.schema.name.as_str(), v));
    rep.states.insert(h);
    if nontrivial {
        rep.nontrivial.insert(h);
    }
}

/// Phase (b) for one type.
pub fn run_round_trips(subj: &Subject, rep: &mut Report) {
    let base = default_val(&subj.schema);
    // (oracle, field label) that already failed in the per-field sweep: pair cases hitting the
    // same oracle through one of those fields are filed under the single-field signature
    let mut single_failures: Vec<(String, String)> = vec![];
    for (idx, case) in cases(&subj.schema).iter().enumerate() {
        let rt = round_trip(subj, &case.value);
        rep.evaluations += 1;
        rep.traces_validated += 1;
        rep.transitions += rt.calls;
        rep.count(if case.pair { "roundtrip_pair_cases" } else { "roundtrip_single_cases" }, 1);
        note_case(rep, subj, &case.value, case.value != base);
        if let Some(b) = &rt.bytes {
            rep.outcomes.insert(stable_hash(&("rt", subj.schema.name.as_str(), b.len(), rt.findings.len())));
        }
        if idx % 1511 == 7 {
            rep.sample(json!({
                "phase": "round-trip", "type": subj.schema.name, "varied": case.label,
                "value": case.value.show(),
                "bytes": rt.bytes.as_ref().map(|b| hex_short(b)),
            }));
        }
        if rt.findings.is_empty() {
            continue;
        }
        let again = round_trip(subj, &case.value);
        for (oracle, detail) in rt.findings.iter() {
            if !again.findings.iter().any(|(o, _)| o == oracle) {
                rep.count("non_reproducible_findings", 1);
                continue;
            }
            let mut label = case.label.clone();
            if case.any {
                if let Some(x) = single_failures.iter().find(|(o, _)| o == oracle) {
                    label = x.1.clone();
                }
            } else if case.pair {
                for part in case.label.split('+') {
                    if let Some(x) = single_failures.iter().find(|(o, l)| o == oracle && l == part) {
                        label = x.1.clone();
                        break;
                    }
                }
            } else if !single_failures.iter().any(|(o, l)| o == oracle && l == &case.label) {
                single_failures.push((oracle.to_string(), case.label.clone()));
            }
            record(
                rep,
                format!("{oracle} type={} varied={}", subj.schema.name, label),
                format!("{} (value {}; varied {})", detail, case.value.show(), case.label),
                json!({"phase": "round-trip", "type": subj.schema.name, "value": case.value.to_json()}),
            );
        }
    }
}

///////////////////////////////////////////// mutations ////////////////////////////////////////////

/// Every 1-bit flip, every byte overwritten with 00/7F/80/FF, every truncation.
pub fn mutations(valid: &[u8], mut f: impl FnMut(&[u8], &'static str)) {
    let mut buf = valid.to_vec();
    for i in 0..valid.len() {
        for bit in 0..8 {
            buf[i] = valid[i] ^ (1 << bit);
            f(&buf, "bit-flip");
        }
        for b in [0x00, 0x7f, 0x80, 0xff] {
            if b != valid[i] {
                buf[i] = b;
                f(&buf, "byte-overwrite");
            }
        }
        buf[i] = valid[i];
    }
    for n in 0..valid.len() {
        f(&valid[..n], "truncation");
    }
    // Structure-aware: every varint position found by walking the wire structure (tags, varint
    // values, length prefixes -- nested bodies included when they parse as fields) is replaced by
    // every boundary varint, so that a length prefix near u64::MAX or a tag near 2^32 is reached
    // although no single byte change produces it.
    let mut spots: Vec<(usize, usize)> = vec![];
    varint_spots(valid, 0, valid.len(), 0, &mut spots);
    spots.sort();
    spots.dedup();
    for (at, used) in spots {
        for x in boundary_u64s() {
            let mut m = valid[..at].to_vec();
            codecmc::wire::put_varint(&mut m, x);
            m.extend_from_slice(&valid[at + used..]);
            if m != valid {
                f(&m, "varint-substitution");
            }
        }
    }
}

fn boundary_u64s() -> Vec<u64> {
    let mut v = vec![0u64, 1, 2];
    for k in [7u32, 14, 21, 28, 31, 32, 35, 42, 49, 56, 63] {
        let p = 1u64 << k;
        v.extend_from_slice(&[p - 1, p, p + 1]);
    }
    for d in 0..=12u64 {
        v.push(u64::MAX - d);
    }
    v.sort();
    v.dedup();
    v
}

/// Byte ranges (offset, length) of the varints in buf[lo..hi] read as a sequence of fields.
fn varint_spots(buf: &[u8], lo: usize, hi: usize, depth: usize, out: &mut Vec<(usize, usize)>) -> bool {
    use codecmc::wire::{RefVarint, ref_varint_decode};
    let mut at = lo;
    let mut local = vec![];
    while at < hi {
        let RefVarint::Ok { value: tag, used, .. } = ref_varint_decode(&buf[at..hi]) else {
            return false;
        };
        local.push((at, used));
        at += used;
        match tag & 7 {
            0 => {
                let RefVarint::Ok { used, .. } = ref_varint_decode(&buf[at..hi]) else {
                    return false;
                };
                local.push((at, used));
                at += used;
            }
            1 => {
                if at + 8 > hi {
                    return false;
                }
                at += 8;
            }
            5 => {
                if at + 4 > hi {
                    return false;
                }
                at += 4;
            }
            2 => {
                let RefVarint::Ok { value: len, used, .. } = ref_varint_decode(&buf[at..hi]) else {
                    return false;
                };
                local.push((at, used));
                at += used;
                let len = len as usize;
                if len > hi - at {
                    return false;
                }
                if depth < 4 && len > 0 {
                    // a payload that parses as fields is (also) treated as a nested body
                    let mut inner = vec![];
                    if varint_spots(buf, at, at + len, depth + 1, &mut inner) {
                        local.extend(inner);
                    }
                }
                at += len;
            }
            _ => return false,
        }
    }
    out.extend(local);
    true
}

/// Plain counters for the hot loop (Report::count allocates); flushed once per work item.
#[derive(Default)]
pub struct Tally {
    /// outcome hashes already inserted into the Report's sets by this work item
    pub seen: HashSet<u64>,
    pub calls: u64,
    pub ok: u64,
    pub err: u64,
    pub panic: u64,
}

impl Tally {
    pub fn flush(&mut self, kind: &str, rep: &mut Report) {
        rep.evaluations += self.calls;
        rep.transitions += self.calls;
        rep.traces_validated += self.calls;
        rep.count(&format!("hostile_{kind}"), self.calls);
        rep.count("hostile_decoded_ok", self.ok);
        rep.count("hostile_decoded_err", self.err);
        rep.count("hostile_decoded_panic", self.panic);
        self.calls = 0;
        self.ok = 0;
        self.err = 0;
        self.panic = 0;
    }
}

pub fn check_hostile(subj: &Subject, input: &[u8], kind: &'static str, tally: &mut Tally, rep: &mut Report) {
    let d = decode(subj, input);
    tally.calls += 1;
    // outcomes: error code, or the decoded value hashed into 4096 buckets per type
    let name = subj.schema.name.as_str();
    let (oh, trivial) = match &d.obs {
        Obs::Ok { val, rest } => {
            tally.ok += 1;
            (stable_hash(&(name, 0u8, (*rest).min(9), stable_hash(val) & 0xfff)), false)
        }
        Obs::Err(code) => {
            tally.err += 1;
            (stable_hash(&(name, 1u8, code.as_str())), code == "buffer-too-short")
        }
        Obs::Panic { msg, .. } => {
            tally.panic += 1;
            (stable_hash(&(name, 2u8, msg.as_str())), false)
        }
    };
    if tally.seen.insert(oh) {
        rep.outcomes.insert(oh);
        rep.states.insert(oh);
        if !trivial {
            rep.nontrivial.insert(oh);
        }
    }
    note_alloc_peak(d.peak);
    if !matches!(d.obs, Obs::Panic { .. }) && d.peak <= codecmc::ALLOC_LIMIT {
        return;
    }
    for (sig, detail) in hostile_findings(subj, &d) {
        if let Some(n) = rep.violation_sigs.get_mut(&sig) {
            if *n >= 2 {
                // already documented twice with replay files; only count further hits
                *n += 1;
                continue;
            }
        }
        let again = hostile_findings(subj, &decode(subj, input));
        if !again.iter().any(|(s, _)| s == &sig) {
            rep.count("non_reproducible_findings", 1);
            continue;
        }
        let small = minimise(subj, input, &sig);
        let d2 = decode(subj, &small);
        record(
            rep,
            sig,
            format!(
                "{}; minimised input {} -> {}; found as {kind} {}",
                detail, vcore::hex(&small), d2.obs.show(), hex_short(input)
            ),
            json!({"phase": "hostile", "type": subj.schema.name, "bytes": vcore::hex(&small)}),
        );
    }
}

/// Greedy shrinking: drop a suffix, drop single bytes, lower bytes, while the same signature is
/// still produced.
pub fn minimise(subj: &Subject, input: &[u8], sig: &str) -> Vec<u8> {
    let fails = |b: &[u8]| hostile_findings(subj, &decode(subj, b)).iter().any(|(s, _)| s == sig);
    let mut cur = input.to_vec();
    loop {
        let mut progress = false;
        while !cur.is_empty() && fails(&cur[..cur.len() - 1]) {
            cur.pop();
            progress = true;
        }
        let mut i = 0;
        while i < cur.len() {
            let mut cand = cur.clone();
            cand.remove(i);
            if fails(&cand) {
                cur = cand;
                progress = true;
            } else {
                i += 1;
            }
        }
        if !progress {
            return cur;
        }
    }
}

/// Mutations of the valid encodings of one type.  `stride` thins the pair cases (1 = all).
pub fn run_mutations(subj: &Subject, pair_stride: usize, shard: usize, shards: usize, rep: &mut Report) {
    let mut seen: HashSet<Vec<u8>> = HashSet::new();
    let mut pairs = 0usize;
    let mut tally = Tally::default();
    for (idx, case) in cases(&subj.schema).into_iter().enumerate() {
        if case.pair {
            pairs += 1;
            if pairs % pair_stride != 0 {
                continue;
            }
        }
        if idx % shards != shard {
            continue;
        }
        let bytes = ref_encode(&subj.schema, &case.value);
        // also the subject's own bytes when they differ (they are what its peers would send)
        let own = vcore::catch(|| (subj.pack)(&case.value)).ok().map(|x| x.1);
        for enc in [Some(bytes), own].into_iter().flatten() {
            if enc.len() > MUTATE_MAX_LEN {
                rep.count("mutation_skipped_long_encodings", 1);
                continue;
            }
            if !seen.insert(enc.clone()) {
                continue;
            }
            rep.count("mutated_encodings", 1);
            mutations(&enc, |m, kind| check_hostile(subj, m, kind, &mut tally, rep));
        }
    }
    tally.flush("mutations", rep);
}

/////////////////////////////////////////// unknown fields /////////////////////////////////////////

/// Unknown fields of every wire type for a container that declares `declared`: field 15 (one-byte
/// tag) of each wire type, a two-byte-tag field, and a declared field number with a wire type
/// the declaration does not have.
pub fn unknown_fields(declared: &[(u32, u8)]) -> Vec<(&'static str, Vec<u8>)> {
    let mk = |num: u32, wt: u8| -> Vec<u8> {
        let mut v = vec![];
        put_tag(&mut v, num, wt);
        match wt {
            WT_VARINT => put_varint(&mut v, 300),
            WT_I64 => v.extend_from_slice(&[1, 2, 3, 4, 5, 6, 7, 8]),
            WT_LEN => put_len_delimited(&mut v, b"abc"),
            _ => v.extend_from_slice(&[9, 8, 7, 6]),
        }
        v
    };
    assert!(declared.iter().all(|(n, _)| *n != 15 && *n != 1000), "field 15/1000 must stay unknown");
    let mut out = vec![
        ("unknown-varint", mk(15, WT_VARINT)),
        ("unknown-64bit", mk(15, WT_I64)),
        ("unknown-length-delimited", mk(15, WT_LEN)),
        ("unknown-32bit", mk(15, WT_I32)),
        ("unknown-two-byte-tag", mk(1000, WT_VARINT)),
    ];
    if let Some((num, wt)) = declared.first() {
        let other = if *wt == WT_VARINT { WT_I32 } else { WT_VARINT };
        out.push(("declared-number-other-wire-type", mk(*num, other)));
    }
    out
}

pub struct Insertion {
    pub container: &'static str,
    pub unknown: &'static str,
    pub bytes: Vec<u8>,
}

pub fn boundaries(schema: &Schema, v: &Val) -> Vec<Boundary> {
    let mut probe = RefEnc::default();
    probe.body(schema, v, 0);
    probe.boundaries
}

/// The valid encoding of `v` with unknown field number `u` spliced in at boundary `k`.
pub fn insertion(schema: &Schema, v: &Val, bs: &[Boundary], k: usize, u: usize) -> Option<Insertion> {
    let b = bs.get(k)?;
    let unknowns = unknown_fields(&b.declared);
    let (name, field) = unknowns.get(u)?.clone();
    let mut enc = RefEnc { insert: Some((k, &field)), boundaries: vec![] };
    let bytes = enc.body(schema, v, 0);
    Some(Insertion { container: b.container, unknown: name, bytes })
}

/// (signature-part, detail) if decoding `ins` does not give the original value back.
pub fn check_insertion(subj: &Subject, v: &Val, ins: &Insertion) -> (Obs, Option<(String, String)>) {
    let d = decode(subj, &ins.bytes);
    let finding = match &d.obs {
        Obs::Ok { val, .. } if val == v => None,
        Obs::Ok { val, .. } => Some((
            "value-changed".to_string(),
            format!("known fields decode to {} instead of {}", val.show(), v.show()),
        )),
        Obs::Err(code) => Some(("rejected".to_string(), format!("unpack returned Err({code})"))),
        Obs::Panic { msg, loc } => Some(("panic".to_string(), format!("unpack panicked at {loc}: {msg}"))),
    };
    (d.obs, finding)
}

pub fn run_insertions(subj: &Subject, shard: usize, shards: usize, rep: &mut Report) {
    for (idx, case) in cases(&subj.schema).into_iter().enumerate() {
        if case.pair || idx % shards != shard {
            continue;
        }
        let plain = ref_encode(&subj.schema, &case.value);
        if plain.len() > MUTATE_MAX_LEN {
            rep.count("insertion_skipped_long_encodings", 1);
            continue;
        }
        // only values the subject itself round-trips are a meaningful baseline
        if !matches!(&decode(subj, &plain).obs, Obs::Ok { val, .. } if val == &case.value) {
            rep.count("insertion_skipped_no_baseline", 1);
            continue;
        }
        let bs = boundaries(&subj.schema, &case.value);
        for k in 0..bs.len() {
            let mut u = 0;
            while let Some(ins) = insertion(&subj.schema, &case.value, &bs, k, u) {
                let (obs, finding) = check_insertion(subj, &case.value, &ins);
                rep.evaluations += 1;
                rep.transitions += 1;
                rep.traces_validated += 1;
                rep.count(&format!("unknown_field_insertions_in_{}", ins.container), 1);
                let h = stable_hash(&("ins", subj.schema.name.as_str(), &ins.bytes));
                rep.states.insert(h);
                rep.nontrivial.insert(h);
                rep.outcomes.insert(stable_hash(&("ins", subj.schema.name.as_str(), ins.container, obs.class())));
                // A derived enum / Result is encoded as exactly one field whose number is the
                // discriminant: a field placed before it IS an unknown variant to this reader, and
                // refusing it (unknown-discriminant) is the only honest answer.  The property's
                // "unknown fields are skipped" is demanded where a message has fields of its own:
                // struct bodies and the bodies of named variants.
                let finding = match finding {
                    Some((what, _)) if what == "rejected" && (ins.container == "enum" || ins.container == "result") => {
                        rep.count("unknown_variant_refused_by_enum_or_result", 1);
                        None
                    }
                    f => f,
                };
                if let Some((what, detail)) = finding {
                    let again = check_insertion(subj, &case.value, &ins).1;
                    if again.as_ref().map(|x| &x.0) != Some(&what) {
                        rep.count("non_reproducible_findings", 1);
                    } else {
                        record(
                            rep,
                            format!(
                                "unknown-field-not-skipped container={} type={} result={}",
                                ins.container, subj.schema.name, what
                            ),
                            format!(
                                "{} inserted at boundary {k} (inside a {}) of the encoding of {}: {}; bytes {}",
                                ins.unknown, ins.container, case.value.show(), detail, hex_short(&ins.bytes)
                            ),
                            json!({"phase": "insert", "type": subj.schema.name,
                                   "value": case.value.to_json(), "boundary": k, "unknown": u}),
                        );
                    }
                }
                u += 1;
            }
        }
    }
}
