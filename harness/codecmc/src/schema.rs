//! Dynamic description of the derived message family: a `Schema` mirrors the `#[prototk(n, type)]`
//! attributes of one derived type, a `Val` is a value of any of those types, `RefEnc` is the
//! independent wire encoder working on (Schema, Val), and `dom_*` are the boundary-saturated
//! value domains.

use crate::wire::*;
use serde_json::{Value, json};

///////////////////////////////////////////////// Val //////////////////////////////////////////////

#[derive(Clone, Debug, PartialEq, Eq, Hash)]
pub enum Val {
    I(i64),
    U(u64),
    /// f32 by bits
    F32(u32),
    /// f64 by bits
    F64(u64),
    Bool(bool),
    Bytes(Vec<u8>),
    Str(String),
    Opt(Option<Box<Val>>),
    List(Vec<Val>),
    /// struct: one Val per declared field, in declaration order
    Msg(Vec<Val>),
    /// enum: variant index and its payload (0, 1 or n values)
    Var(usize, Vec<Val>),
    /// Result<T, SError>
    Res(bool, Box<Val>),
    /// an SError, by its textual form
    Err(String),
}

impl Val {
    pub fn to_json(&self) -> Value {
        match self {
            Val::I(x) => json!({"I": x}),
            Val::U(x) => json!({"U": x}),
            Val::F32(x) => json!({"F32": x}),
            Val::F64(x) => json!({"F64": x}),
            Val::Bool(x) => json!({"Bool": x}),
            Val::Bytes(x) => json!({"Bytes": vcore::hex(x)}),
            Val::Str(x) => json!({"Str": x}),
            Val::Opt(None) => json!({"Opt": null}),
            Val::Opt(Some(x)) => json!({"Opt": x.to_json()}),
            Val::List(xs) => json!({"List": xs.iter().map(|x| x.to_json()).collect::<Vec<_>>()}),
            Val::Msg(xs) => json!({"Msg": xs.iter().map(|x| x.to_json()).collect::<Vec<_>>()}),
            Val::Var(i, xs) => {
                json!({"Var": [i, xs.iter().map(|x| x.to_json()).collect::<Vec<_>>()]})
            }
            Val::Res(ok, x) => json!({"Res": [ok, x.to_json()]}),
            Val::Err(s) => json!({"Err": s}),
        }
    }

    pub fn from_json(v: &Value) -> Val {
        let o = v.as_object().expect("Val json is an object");
        let (k, x) = o.iter().next().expect("Val json has one key");
        let list = |x: &Value| -> Vec<Val> {
            x.as_array().unwrap().iter().map(Val::from_json).collect()
        };
        match k.as_str() {
            "I" => Val::I(x.as_i64().unwrap()),
            "U" => Val::U(x.as_u64().unwrap()),
            "F32" => Val::F32(x.as_u64().unwrap() as u32),
            "F64" => Val::F64(x.as_u64().unwrap()),
            "Bool" => Val::Bool(x.as_bool().unwrap()),
            "Bytes" => Val::Bytes(unhex(x.as_str().unwrap())),
            "Str" => Val::Str(x.as_str().unwrap().to_string()),
            "Opt" => {
                if x.is_null() {
                    Val::Opt(None)
                } else {
                    Val::Opt(Some(Box::new(Val::from_json(x))))
                }
            }
            "List" => Val::List(list(x)),
            "Msg" => Val::Msg(list(x)),
            "Var" => Val::Var(x[0].as_u64().unwrap() as usize, list(&x[1])),
            "Res" => Val::Res(x[0].as_bool().unwrap(), Box::new(Val::from_json(&x[1]))),
            "Err" => Val::Err(x.as_str().unwrap().to_string()),
            _ => panic!("unknown Val key {k}"),
        }
    }

    /// Short human form (long byte strings abbreviated).
    pub fn show(&self) -> String {
        let s = match self {
            Val::Bytes(b) if b.len() > 24 => {
                format!("Bytes({}.. x{})", vcore::hex(&b[..8]), b.len())
            }
            Val::Bytes(b) => format!("Bytes({})", vcore::hex(b)),
            Val::Str(s) if s.len() > 24 => format!("Str(len {})", s.len()),
            Val::F32(b) => format!("F32({:#x}={:?})", b, f32::from_bits(*b)),
            Val::F64(b) => format!("F64({:#x}={:?})", b, f64::from_bits(*b)),
            Val::Opt(Some(x)) => format!("Some({})", x.show()),
            Val::Opt(None) => "None".to_string(),
            Val::List(xs) => {
                format!("[{}]", xs.iter().map(|x| x.show()).collect::<Vec<_>>().join(", "))
            }
            Val::Msg(xs) => {
                format!("{{{}}}", xs.iter().map(|x| x.show()).collect::<Vec<_>>().join(", "))
            }
            Val::Var(i, xs) => format!(
                "Var#{}({})",
                i,
                xs.iter().map(|x| x.show()).collect::<Vec<_>>().join(", ")
            ),
            Val::Res(ok, x) => format!("{}({})", if *ok { "Ok" } else { "Err" }, x.show()),
            other => format!("{other:?}"),
        };
        if s.len() > 400 { format!("{}...", &s[..400]) } else { s }
    }
}

pub fn unhex(s: &str) -> Vec<u8> {
    (0..s.len() / 2)
        .map(|i| u8::from_str_radix(&s[2 * i..2 * i + 2], 16).expect("hex"))
        .collect()
}

/////////////////////////////////////////////// Schema /////////////////////////////////////////////

#[derive(Clone, Debug)]
pub enum Kind {
    Int32,
    Int64,
    Uint32,
    Uint64,
    /// `usize` declared as uint64
    Usize,
    Sint32,
    Sint64,
    Fixed32,
    Fixed64,
    Sfixed32,
    Sfixed64,
    Float,
    Double,
    Bool,
    Bytes,
    /// bytes16 / bytes32 / bytes64
    BytesN(usize),
    Str,
    /// PathBuf declared as bytes
    PathBytes,
    /// PathBuf declared as string
    PathStr,
    Message(Box<Schema>),
    /// SError declared as message
    SError,
    /// Result<T, SError> declared as message; the schema is T's
    Result(Box<Schema>),
}

#[derive(Clone, Copy, Debug, PartialEq, Eq)]
pub enum Card {
    One,
    Opt,
    Rep,
    Boxed,
}

#[derive(Clone, Debug)]
pub struct FieldSpec {
    pub name: String,
    pub num: u32,
    pub kind: Kind,
    pub card: Card,
    /// the prototk field-type identifier as written in the attribute
    pub pty: String,
}

#[derive(Clone, Debug)]
pub enum VariantKind {
    Unit,
    Unnamed(FieldSpec),
    Named(Vec<FieldSpec>),
}

#[derive(Clone, Debug)]
pub struct VariantSpec {
    pub name: String,
    pub num: u32,
    pub vk: VariantKind,
}

#[derive(Clone, Debug)]
pub enum Shape {
    Struct(Vec<FieldSpec>),
    Enum(Vec<VariantSpec>),
    /// a bare `Result<T, SError>` packed with buffertk's impl
    Result(Box<Schema>),
}

#[derive(Clone, Debug)]
pub struct Schema {
    pub name: String,
    pub shape: Shape,
}

impl FieldSpec {
    /// Human label used in violation signatures: the declared field type with its container.
    pub fn label(&self) -> String {
        let k = match &self.kind {
            Kind::Usize => "uint64-usize".to_string(),
            Kind::PathBytes => "bytes-PathBuf".to_string(),
            Kind::PathStr => "string-PathBuf".to_string(),
            Kind::Message(s) => format!("message-{}", s.name),
            Kind::SError => "message-SError".to_string(),
            Kind::Result(s) => format!("message-Result-{}", s.name),
            _ => self.pty.clone(),
        };
        match self.card {
            Card::One => k,
            Card::Opt => format!("Option-{k}"),
            Card::Rep => format!("Vec-{k}"),
            Card::Boxed => format!("Box-{k}"),
        }
    }
}

/// Build a FieldSpec from the tokens of one derived field: its number, the prototk type
/// identifier, and the Rust type (stringified).
pub fn field_spec(name: &str, num: u32, pty: &str, rust_ty: &str, inner: Option<Schema>) -> FieldSpec {
    let mut ty: String = rust_ty.chars().filter(|c| !c.is_whitespace()).collect();
    let mut card = Card::One;
    if let Some(rest) = ty.strip_prefix("Option<") {
        card = Card::Opt;
        ty = rest[..rest.len() - 1].to_string();
    } else if let Some(rest) = ty.strip_prefix("Box<") {
        card = Card::Boxed;
        ty = rest[..rest.len() - 1].to_string();
    } else if ty.starts_with("Vec<") && !(ty == "Vec<u8>" && pty == "bytes") {
        card = Card::Rep;
        ty = ty["Vec<".len()..ty.len() - 1].to_string();
    }
    let kind = match pty {
        "int32" => Kind::Int32,
        "int64" => Kind::Int64,
        "uint32" => Kind::Uint32,
        "uint64" if ty == "usize" => Kind::Usize,
        "uint64" => Kind::Uint64,
        "sint32" => Kind::Sint32,
        "sint64" => Kind::Sint64,
        "fixed32" => Kind::Fixed32,
        "fixed64" => Kind::Fixed64,
        "sfixed32" => Kind::Sfixed32,
        "sfixed64" => Kind::Sfixed64,
        "float" => Kind::Float,
        "double" => Kind::Double,
        "Bool" => Kind::Bool,
        "bytes" if ty == "PathBuf" => Kind::PathBytes,
        "bytes" => Kind::Bytes,
        "bytes16" => Kind::BytesN(16),
        "bytes32" => Kind::BytesN(32),
        "bytes64" => Kind::BytesN(64),
        "string" if ty == "PathBuf" => Kind::PathStr,
        "string" => Kind::Str,
        "message" if ty == "SError" => Kind::SError,
        "message" if ty.starts_with("Result<") => {
            Kind::Result(Box::new(inner.expect("Result field needs the Ok schema")))
        }
        "message" => Kind::Message(Box::new(inner.expect("message field needs a schema"))),
        other => panic!("unknown prototk field type {other}"),
    };
    FieldSpec { name: name.to_string(), num, kind, card, pty: pty.to_string() }
}

pub fn wire_type(kind: &Kind) -> u8 {
    match kind {
        Kind::Int32
        | Kind::Int64
        | Kind::Uint32
        | Kind::Uint64
        | Kind::Usize
        | Kind::Sint32
        | Kind::Sint64
        | Kind::Bool => WT_VARINT,
        Kind::Fixed64 | Kind::Sfixed64 | Kind::Double => WT_I64,
        Kind::Fixed32 | Kind::Sfixed32 | Kind::Float => WT_I32,
        _ => WT_LEN,
    }
}

/// The SErrors used as values (index 0 is the default).
pub fn serror_table() -> Vec<prototk::SError> {
    vec![
        prototk::success(),
        prototk::buffer_too_short(42, 24),
        prototk::unknown_discriminant(33),
        prototk::invalid_field_number(19000, "field is reserved: \"quoted\" (paren) \\ back"),
    ]
}

////////////////////////////////////////// reference encoder ///////////////////////////////////////

#[derive(Clone, Debug)]
pub struct Boundary {
    /// "struct", "enum", "variant" (inside a named enum variant) or "result"
    pub container: &'static str,
    pub schema: String,
    pub depth: usize,
    /// field numbers the container declares, with their wire types
    pub declared: Vec<(u32, u8)>,
}

/// The independent encoder.  It numbers every position between two encoded fields (and the start
/// and end of every message body) in depth-first order; `insert = Some((k, bytes))` splices `bytes`
/// at position `k` (enclosing length prefixes follow automatically because bodies are built
/// bottom-up).
#[derive(Default)]
pub struct RefEnc<'a> {
    pub insert: Option<(usize, &'a [u8])>,
    pub boundaries: Vec<Boundary>,
}

fn declared_of(fs: &[FieldSpec]) -> Vec<(u32, u8)> {
    fs.iter().map(|f| (f.num, wire_type(&f.kind))).collect()
}

impl<'a> RefEnc<'a> {
    fn boundary(&mut self, container: &'static str, schema: &str, depth: usize, declared: &[(u32, u8)], out: &mut Vec<u8>) {
        let idx = self.boundaries.len();
        self.boundaries.push(Boundary {
            container,
            schema: schema.to_string(),
            depth,
            declared: declared.to_vec(),
        });
        if let Some((k, bytes)) = self.insert {
            if k == idx {
                out.extend_from_slice(bytes);
            }
        }
    }

    /// Body of a message (no length prefix).
    pub fn body(&mut self, s: &Schema, v: &Val, depth: usize) -> Vec<u8> {
        let mut out = vec![];
        match (&s.shape, v) {
            (Shape::Struct(fs), Val::Msg(vs)) => {
                assert_eq!(fs.len(), vs.len(), "value does not fit schema {}", s.name);
                self.fields(fs, vs, "struct", &s.name, depth, &mut out);
            }
            (Shape::Enum(vars), Val::Var(i, vs)) => {
                let decl: Vec<(u32, u8)> = vars
                    .iter()
                    .map(|v| match &v.vk {
                        VariantKind::Unnamed(f) => (v.num, wire_type(&f.kind)),
                        _ => (v.num, WT_LEN),
                    })
                    .collect();
                self.boundary("enum", &s.name, depth, &decl, &mut out);
                let var = &vars[*i];
                match &var.vk {
                    VariantKind::Unit => {
                        put_tag(&mut out, var.num, WT_LEN);
                        put_varint(&mut out, 0);
                    }
                    VariantKind::Unnamed(f) => self.emit(f, &vs[0], depth, &mut out),
                    VariantKind::Named(fs) => {
                        let mut inner = vec![];
                        self.fields(fs, vs, "variant", &s.name, depth + 1, &mut inner);
                        put_tag(&mut out, var.num, WT_LEN);
                        put_len_delimited(&mut out, &inner);
                    }
                }
                self.boundary("enum", &s.name, depth, &decl, &mut out);
            }
            (Shape::Result(ok), Val::Res(is_ok, x)) => {
                out = self.result_body(ok, *is_ok, x, depth);
            }
            _ => panic!("value {v:?} does not fit schema {}", s.name),
        }
        out
    }

    fn fields(&mut self, fs: &[FieldSpec], vs: &[Val], container: &'static str, name: &str, depth: usize, out: &mut Vec<u8>) {
        let decl = declared_of(fs);
        for (f, v) in fs.iter().zip(vs.iter()) {
            match (f.card, v) {
                (Card::One, v) | (Card::Boxed, v) => {
                    self.boundary(container, name, depth, &decl, out);
                    self.emit(f, v, depth, out);
                }
                (Card::Opt, Val::Opt(None)) => {}
                (Card::Opt, Val::Opt(Some(v))) => {
                    self.boundary(container, name, depth, &decl, out);
                    self.emit(f, v, depth, out);
                }
                (Card::Rep, Val::List(vs)) => {
                    for v in vs {
                        self.boundary(container, name, depth, &decl, out);
                        self.emit(f, v, depth, out);
                    }
                }
                _ => panic!("value {v:?} does not fit field {}", f.name),
            }
        }
        self.boundary(container, name, depth, &decl, out);
    }

    fn result_body(&mut self, ok: &Schema, is_ok: bool, x: &Val, depth: usize) -> Vec<u8> {
        let decl = [(1u32, WT_LEN), (2u32, WT_LEN)];
        let mut out = vec![];
        self.boundary("result", &ok.name, depth, &decl, &mut out);
        if is_ok {
            let body = self.body(ok, x, depth + 1);
            put_tag(&mut out, 1, WT_LEN);
            put_len_delimited(&mut out, &body);
        } else {
            put_tag(&mut out, 2, WT_LEN);
            put_len_delimited(&mut out, &serror_payload(x));
        }
        self.boundary("result", &ok.name, depth, &decl, &mut out);
        out
    }

    /// One field occurrence: tag and payload.
    fn emit(&mut self, f: &FieldSpec, v: &Val, depth: usize, out: &mut Vec<u8>) {
        put_tag(out, f.num, wire_type(&f.kind));
        match (&f.kind, v) {
            (Kind::Int32, Val::I(x)) | (Kind::Int64, Val::I(x)) => {
                // negative numbers are sign-extended to 64 bits (two's complement): ten bytes
                let as_unsigned = if *x >= 0 {
                    *x as u64
                } else {
                    u64::MAX - ((-(*x + 1)) as u64)
                };
                put_varint(out, as_unsigned)
            }
            (Kind::Uint32, Val::U(x)) | (Kind::Uint64, Val::U(x)) | (Kind::Usize, Val::U(x)) => {
                put_varint(out, *x)
            }
            (Kind::Sint32, Val::I(x)) | (Kind::Sint64, Val::I(x)) => put_varint(out, zigzag(*x)),
            (Kind::Bool, Val::Bool(b)) => put_varint(out, if *b { 1 } else { 0 }),
            (Kind::Fixed32, Val::U(x)) => out.extend_from_slice(&le_bytes(*x, 4)),
            (Kind::Fixed64, Val::U(x)) => out.extend_from_slice(&le_bytes(*x, 8)),
            (Kind::Sfixed32, Val::I(x)) => {
                out.extend_from_slice(&le_bytes((*x as i128).rem_euclid(1 << 32) as u64, 4))
            }
            (Kind::Sfixed64, Val::I(x)) => {
                out.extend_from_slice(&le_bytes((*x as i128).rem_euclid(1 << 64) as u64, 8))
            }
            (Kind::Float, Val::F32(bits)) => out.extend_from_slice(&le_bytes(*bits as u64, 4)),
            (Kind::Double, Val::F64(bits)) => out.extend_from_slice(&le_bytes(*bits, 8)),
            (Kind::Bytes, Val::Bytes(b))
            | (Kind::BytesN(_), Val::Bytes(b))
            | (Kind::PathBytes, Val::Bytes(b))
            | (Kind::PathStr, Val::Bytes(b)) => put_len_delimited(out, b),
            (Kind::Str, Val::Str(s)) => put_len_delimited(out, s.as_bytes()),
            (Kind::Message(s), v) => {
                let body = self.body(s, v, depth + 1);
                put_len_delimited(out, &body);
            }
            (Kind::SError, e @ Val::Err(_)) => put_len_delimited(out, &serror_payload(e)),
            (Kind::Result(s), Val::Res(is_ok, x)) => {
                let body = self.result_body(s, *is_ok, x, depth + 1);
                put_len_delimited(out, &body);
            }
            (k, v) => panic!("value {v:?} does not fit kind {k:?}"),
        }
    }
}

/// An SError travels as a length-prefixed UTF-8 rendering of itself.
fn serror_payload(e: &Val) -> Vec<u8> {
    let Val::Err(text) = e else { panic!("not an error value: {e:?}") };
    let mut v = vec![];
    put_len_delimited(&mut v, text.as_bytes());
    v
}

fn le_bytes(mut x: u64, n: usize) -> Vec<u8> {
    let mut v = vec![];
    for _ in 0..n {
        v.push((x % 256) as u8);
        x /= 256;
    }
    v
}

pub fn ref_encode(s: &Schema, v: &Val) -> Vec<u8> {
    RefEnc::default().body(s, v, 0)
}

////////////////////////////////////////////// domains /////////////////////////////////////////////

/// {0, 1, 2^k-1, 2^k, 2^k+1 for k in 1..width, 2^width-1}
pub fn ints_u(width: u32) -> Vec<u64> {
    let max: u128 = (1u128 << width) - 1;
    let mut v: Vec<u128> = vec![0, 1, max];
    for k in 1..width {
        let p = 1u128 << k;
        v.extend([p - 1, p, p + 1]);
    }
    v.retain(|x| *x <= max);
    v.sort();
    v.dedup();
    v.into_iter().map(|x| x as u64).collect()
}

/// both signs of every power-of-two boundary below 2^(width-1), plus min and max
pub fn ints_i(width: u32) -> Vec<i64> {
    let min: i128 = -(1i128 << (width - 1));
    let max: i128 = (1i128 << (width - 1)) - 1;
    let mut v: Vec<i128> = vec![min, min + 1, max, max - 1];
    for u in ints_u(width - 1) {
        v.push(u as i128);
        v.push(-(u as i128));
        v.push(-(u as i128) - 1);
    }
    v.retain(|x| *x >= min && *x <= max);
    v.sort();
    v.dedup();
    v.into_iter().map(|x| x as i64).collect()
}

fn reduced_u(width: u32) -> Vec<u64> {
    let max = ((1u128 << width) - 1) as u64;
    let mut v = vec![0, 1, 127, 128, 16384, max];
    if width == 64 {
        v.push(1 << 32);
    }
    v
}

fn reduced_i(width: u32) -> Vec<i64> {
    let min = (-(1i128 << (width - 1))) as i64;
    let max = ((1i128 << (width - 1)) - 1) as i64;
    vec![0, 1, -1, 63, 64, -64, -65, min, max]
}

fn floats32(reduced: bool) -> Vec<u32> {
    if reduced {
        return vec![0, 0x8000_0000, 1.5f32.to_bits(), 0x7f80_0000, 0x7fc0_0001];
    }
    vec![
        0,
        0x8000_0000,
        1.0f32.to_bits(),
        (-1.0f32).to_bits(),
        1,
        0x007f_ffff,
        f32::MIN_POSITIVE.to_bits(),
        f32::MAX.to_bits(),
        f32::MIN.to_bits(),
        f32::EPSILON.to_bits(),
        std::f32::consts::PI.to_bits(),
        0x7f80_0000,
        0xff80_0000,
        0x7fc0_0000,
        0xffc0_0000,
        0x7f80_0001,
        0x7fff_ffff,
        0xffff_ffff,
        0x8080_8080,
    ]
}

fn floats64(reduced: bool) -> Vec<u64> {
    if reduced {
        return vec![0, 1 << 63, 1.5f64.to_bits(), 0x7ff0_0000_0000_0000, 0x7ff8_0000_0000_0001];
    }
    vec![
        0,
        1 << 63,
        1.0f64.to_bits(),
        (-1.0f64).to_bits(),
        1,
        0x000f_ffff_ffff_ffff,
        f64::MIN_POSITIVE.to_bits(),
        f64::MAX.to_bits(),
        f64::MIN.to_bits(),
        f64::EPSILON.to_bits(),
        std::f64::consts::PI.to_bits(),
        0x7ff0_0000_0000_0000,
        0xfff0_0000_0000_0000,
        0x7ff8_0000_0000_0000,
        0xfff8_0000_0000_0000,
        0x7ff0_0000_0000_0001,
        0x7fff_ffff_ffff_ffff,
        u64::MAX,
        0x8080_8080_8080_8080,
    ]
}

fn byte_strings(reduced: bool) -> Vec<Vec<u8>> {
    if reduced {
        return vec![vec![], vec![0], vec![0xff, 0x00], vec![0x61; 128]];
    }
    vec![
        vec![],
        vec![0],
        vec![0xff],
        vec![0x80],
        vec![0x61],
        vec![0, 0xff],
        vec![0x08, 0x01],
        vec![0xff, 0xff],
        vec![0x0a, 0x7f],
        vec![0xab; 127],
        vec![0xab; 128],
        vec![0xab; 129],
        vec![0xcd; 16383],
        vec![0xcd; 16384],
    ]
}

fn strings(reduced: bool) -> Vec<String> {
    if reduced {
        return vec!["".into(), "a".into(), "\u{e9}\u{1F600}".into(), "x".repeat(128)];
    }
    vec![
        "".into(),
        "a".into(),
        "\0".into(),
        "\u{7f}".into(),
        "\u{80}".into(),
        "\u{e9}".into(),
        "\u{20ac}".into(),
        "\u{1F600}".into(),
        "\u{fffd}".into(),
        "\u{10ffff}".into(),
        "a\u{e9}\u{20ac}\u{1F600}".into(),
        "y".repeat(127),
        "y".repeat(128),
        "\u{e9}".repeat(8192),
    ]
    .into_iter()
    // every length around the points where a length prefix grows by a byte, so that some
    // ENCLOSING body (a nested message, a named variant, a Result payload) is exactly 2^7 or 2^14
    // bytes long whatever its fixed overhead of up to a dozen bytes is
    .chain((118..=130usize).map(|n| "z".repeat(n)))
    .chain((16370..=16390usize).map(|n| "z".repeat(n)))
    .collect()
}

fn fixed_bytes(n: usize, reduced: bool) -> Vec<Vec<u8>> {
    let asc: Vec<u8> = (0..n).map(|i| i as u8).collect();
    let mut first80 = vec![0u8; n];
    first80[0] = 0x80;
    let mut last01 = vec![0u8; n];
    last01[n - 1] = 1;
    if reduced {
        vec![vec![0; n], asc, vec![0xff; n]]
    } else {
        vec![vec![0; n], asc, vec![0xff; n], first80, last01, vec![0x80; n]]
    }
}

pub fn default_kind(kind: &Kind) -> Val {
    match kind {
        Kind::Int32 | Kind::Int64 | Kind::Sint32 | Kind::Sint64 | Kind::Sfixed32 | Kind::Sfixed64 => {
            Val::I(0)
        }
        Kind::Uint32 | Kind::Uint64 | Kind::Usize | Kind::Fixed32 | Kind::Fixed64 => Val::U(0),
        Kind::Float => Val::F32(0),
        Kind::Double => Val::F64(0),
        Kind::Bool => Val::Bool(false),
        Kind::Bytes | Kind::PathBytes | Kind::PathStr => Val::Bytes(vec![]),
        Kind::BytesN(n) => Val::Bytes(vec![0; *n]),
        Kind::Str => Val::Str(String::new()),
        Kind::Message(s) => default_val(s),
        Kind::SError => Val::Err(serror_table()[0].to_string()),
        Kind::Result(_) => Val::Res(false, Box::new(Val::Err(serror_table()[0].to_string()))),
    }
}

pub fn default_field(f: &FieldSpec) -> Val {
    match f.card {
        Card::One | Card::Boxed => default_kind(&f.kind),
        Card::Opt => Val::Opt(None),
        Card::Rep => Val::List(vec![]),
    }
}

pub fn default_val(s: &Schema) -> Val {
    match &s.shape {
        Shape::Struct(fs) => Val::Msg(fs.iter().map(default_field).collect()),
        Shape::Enum(vars) => Val::Var(0, variant_default(&vars[0])),
        Shape::Result(_) => Val::Res(false, Box::new(Val::Err(serror_table()[0].to_string()))),
    }
}

fn variant_default(v: &VariantSpec) -> Vec<Val> {
    match &v.vk {
        VariantKind::Unit => vec![],
        VariantKind::Unnamed(f) => vec![default_field(f)],
        VariantKind::Named(fs) => fs.iter().map(default_field).collect(),
    }
}

pub fn dom_kind(kind: &Kind, reduced: bool) -> Vec<Val> {
    let iv = |w: u32| -> Vec<Val> {
        (if reduced { reduced_i(w) } else { ints_i(w) }).into_iter().map(Val::I).collect()
    };
    let uv = |w: u32| -> Vec<Val> {
        (if reduced { reduced_u(w) } else { ints_u(w) }).into_iter().map(Val::U).collect()
    };
    match kind {
        Kind::Int32 | Kind::Sint32 | Kind::Sfixed32 => iv(32),
        Kind::Int64 | Kind::Sint64 | Kind::Sfixed64 => iv(64),
        Kind::Uint32 | Kind::Fixed32 => uv(32),
        Kind::Uint64 | Kind::Fixed64 | Kind::Usize => uv(64),
        Kind::Float => floats32(reduced).into_iter().map(Val::F32).collect(),
        Kind::Double => floats64(reduced).into_iter().map(Val::F64).collect(),
        Kind::Bool => vec![Val::Bool(false), Val::Bool(true)],
        Kind::Bytes => byte_strings(reduced).into_iter().map(Val::Bytes).collect(),
        Kind::BytesN(n) => fixed_bytes(*n, reduced).into_iter().map(Val::Bytes).collect(),
        Kind::Str => strings(reduced).into_iter().map(Val::Str).collect(),
        Kind::PathBytes => [&b""[..], b"/", b"a/b", b"a//b/", b"\xff/\x80"]
            .iter()
            .map(|b| Val::Bytes(b.to_vec()))
            .collect(),
        Kind::PathStr => ["", "/", "a/b", "a//b/", "\u{e9}/\u{1F600}"]
            .iter()
            .map(|s| Val::Bytes(s.as_bytes().to_vec()))
            .collect(),
        Kind::Message(s) => dom_schema(s, reduced, true),
        Kind::SError => {
            let t = serror_table();
            let n = if reduced { 2 } else { t.len() };
            t[..n].iter().map(|e| Val::Err(e.to_string())).collect()
        }
        Kind::Result(s) => dom_result(s, reduced),
    }
}

fn dom_result(s: &Schema, reduced: bool) -> Vec<Val> {
    let mut v: Vec<Val> = dom_schema(s, reduced, true)
        .into_iter()
        .map(|x| Val::Res(true, Box::new(x)))
        .collect();
    for e in dom_kind(&Kind::SError, reduced) {
        v.push(Val::Res(false, Box::new(e)));
    }
    v
}

pub fn dom_field(f: &FieldSpec, reduced: bool) -> Vec<Val> {
    let base = dom_kind(&f.kind, reduced);
    match f.card {
        Card::One | Card::Boxed => base,
        Card::Opt => {
            let mut v = vec![Val::Opt(None)];
            v.extend(base.into_iter().map(|x| Val::Opt(Some(Box::new(x)))));
            v
        }
        Card::Rep => {
            let mut v = vec![Val::List(vec![])];
            if reduced {
                if base.len() > 1 {
                    v.push(Val::List(vec![base[1].clone()]));
                }
                v.push(Val::List(base.iter().take(3).cloned().collect()));
            } else {
                for x in base.iter() {
                    v.push(Val::List(vec![x.clone()]));
                }
                for w in base.windows(2) {
                    v.push(Val::List(vec![w[1].clone(), w[0].clone()]));
                }
                let red = dom_kind(&f.kind, true);
                v.push(Val::List(red.clone()));
                v.push(Val::List(red.iter().chain(red.iter()).cloned().collect()));
            }
            v
        }
    }
}

/// Values of a message type.  `nested` = used as a field of another message (smaller).
/// Not nested and not reduced: the per-field sweep with full domains.
pub fn dom_schema(s: &Schema, reduced: bool, nested: bool) -> Vec<Val> {
    let full_fields = !reduced && !nested;
    match &s.shape {
        Shape::Struct(fs) => dom_fields(fs, reduced, full_fields).into_iter().map(Val::Msg).collect(),
        Shape::Enum(vars) => {
            let mut out = vec![];
            for (i, var) in vars.iter().enumerate() {
                match &var.vk {
                    VariantKind::Unit => out.push(Val::Var(i, vec![])),
                    VariantKind::Unnamed(f) => {
                        let d = dom_field(f, !full_fields);
                        if reduced {
                            out.push(Val::Var(i, vec![d[d.len().min(2) - 1].clone()]));
                        } else {
                            out.extend(d.into_iter().map(|x| Val::Var(i, vec![x])));
                        }
                    }
                    VariantKind::Named(fs) => {
                        out.extend(
                            dom_fields(fs, reduced, full_fields).into_iter().map(|x| Val::Var(i, x)),
                        );
                    }
                }
            }
            out
        }
        Shape::Result(ok) => dom_result(ok, reduced && nested),
    }
}

/// Field vectors: the default, every single field through its domain with the rest default, and
/// (not reduced) one vector with every field at its first non-default value.  Reduced: default and
/// the all-set vector only.
fn dom_fields(fs: &[FieldSpec], reduced: bool, full: bool) -> Vec<Vec<Val>> {
    let base: Vec<Val> = fs.iter().map(default_field).collect();
    let mut out = vec![base.clone()];
    let mut all_set = base.clone();
    for (i, f) in fs.iter().enumerate() {
        let d = dom_field(f, !full);
        if let Some(x) = d.iter().find(|x| **x != base[i]) {
            all_set[i] = x.clone();
        }
        if !reduced {
            for x in d {
                if x != base[i] {
                    let mut v = base.clone();
                    v[i] = x;
                    out.push(v);
                }
            }
        }
    }
    if !fs.is_empty() {
        out.push(all_set);
    }
    out
}

/// A labelled case of the round-trip sweep.
pub struct Case {
    /// which declared field types were varied (violation signatures are built from this)
    pub label: String,
    pub value: Val,
    pub pair: bool,
    /// the case varies no particular field (all default / all set): a failure is filed under
    /// the first single-field failure of the same oracle, if there is one
    pub any: bool,
}

/// Per-field sweep (full domains, other fields default) followed by all pairs of fields at the
/// reduced domains, for the top-level fields of `s` (for an enum: its variants, and the fields of
/// its named variants).
/// Sizes of ENCLOSING bodies: for every message-typed field (plain, optional or repeated) of a
/// struct whose nested struct has a string or bytes field, that inner field sweeps every length
/// around 2^7 and 2^14 (the points where the nested body's own length prefix grows by a byte),
/// everything else at its default.  The full domains of nested fields are otherwise reduced.
fn nested_size_sweep(fs: &[FieldSpec], wrap: &dyn Fn(Vec<Val>) -> Val, prefix: &str, out: &mut Vec<Case>) {
    let base: Vec<Val> = fs.iter().map(default_field).collect();
    for (i, f) in fs.iter().enumerate() {
        let Kind::Message(inner) = &f.kind else { continue };
        let Shape::Struct(ifs) = &inner.shape else { continue };
        let Some(j) = ifs.iter().position(|g| matches!(g.kind, Kind::Str | Kind::Bytes) && matches!(g.card, Card::One)) else { continue };
        let lens = (100..=135usize).chain(16350..=16395usize);
        for len in lens {
            let mut iv: Vec<Val> = ifs.iter().map(default_field).collect();
            iv[j] = match ifs[j].kind {
                Kind::Str => Val::Str("z".repeat(len)),
                _ => Val::Bytes(vec![0x5a; len]),
            };
            let nested = Val::Msg(iv);
            let x = match f.card {
                Card::One | Card::Boxed => nested,
                Card::Opt => Val::Opt(Some(Box::new(nested))),
                Card::Rep => Val::List(vec![nested]),
            };
            let mut v = base.clone();
            v[i] = x;
            out.push(Case { label: format!("{prefix}{}", f.label()), value: wrap(v), pair: false, any: false });
        }
    }
}

pub fn cases(s: &Schema) -> Vec<Case> {
    let mut out = vec![];
    let sweep = |fs: &[FieldSpec], wrap: &dyn Fn(Vec<Val>) -> Val, prefix: &str, out: &mut Vec<Case>| {
        let base: Vec<Val> = fs.iter().map(default_field).collect();
        for (i, f) in fs.iter().enumerate() {
            for x in dom_field(f, false) {
                let mut v = base.clone();
                v[i] = x;
                out.push(Case { label: format!("{prefix}{}", f.label()), value: wrap(v), pair: false, any: false });
            }
        }
        out.push(Case { label: format!("{prefix}all-default"), value: wrap(base.clone()), pair: false, any: true });
        let red: Vec<Vec<Val>> = fs.iter().map(|f| dom_field(f, true)).collect();
        for i in 0..fs.len() {
            for j in i + 1..fs.len() {
                for x in red[i].iter() {
                    for y in red[j].iter() {
                        let mut v = base.clone();
                        v[i] = x.clone();
                        v[j] = y.clone();
                        out.push(Case {
                            label: format!("{prefix}{}+{prefix}{}", fs[i].label(), fs[j].label()),
                            value: wrap(v),
                            pair: true,
                            any: false,
                        });
                    }
                }
            }
        }
        // every field at its k-th reduced value at once
        let maxk = red.iter().map(|d| d.len()).max().unwrap_or(0);
        for k in 0..maxk {
            let v: Vec<Val> = red.iter().map(|d| d[k % d.len()].clone()).collect();
            out.push(Case { label: format!("{prefix}all-fields"), value: wrap(v), pair: true, any: true });
        }
    };
    match &s.shape {
        Shape::Struct(fs) => {
            sweep(fs, &Val::Msg, "", &mut out);
            nested_size_sweep(fs, &Val::Msg, "", &mut out);
        }
        Shape::Enum(vars) => {
            for (i, var) in vars.iter().enumerate() {
                match &var.vk {
                    VariantKind::Unit => out.push(Case {
                        label: format!("variant-{}-unit", var.name),
                        value: Val::Var(i, vec![]),
                        pair: false,
                        any: false,
                    }),
                    VariantKind::Unnamed(f) => {
                        for x in dom_field(f, false) {
                            out.push(Case {
                                label: format!("variant-{}-{}", var.name, f.label()),
                                value: Val::Var(i, vec![x]),
                                pair: false,
                                any: false,
                            });
                        }
                    }
                    VariantKind::Named(fs) => {
                        sweep(fs, &|v| Val::Var(i, v), &format!("variant-{}-", var.name), &mut out);
                        nested_size_sweep(fs, &|v| Val::Var(i, v), &format!("variant-{}-", var.name), &mut out);
                    }
                }
            }
        }
        Shape::Result(ok) => {
            for v in dom_result(ok, false) {
                let label = match &v {
                    Val::Res(true, _) => "result-ok",
                    _ => "result-err",
                };
                out.push(Case { label: label.to_string(), value: v, pair: false, any: false });
            }
        }
    }
    out
}
