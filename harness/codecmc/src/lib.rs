// shared helpers for the codecmc harness binaries
