// shared helpers for the codecmc harness binaries
pub mod schema;
pub mod wire;

use std::alloc::{GlobalAlloc, Layout, System};
use std::cell::Cell;

use vcore::{Report, Value, Violation, json};

////////////////////////////////////////// counting allocator //////////////////////////////////////

/// A single allocation request above this size while decoding input of a few hundred bytes is
/// reported as a violation (C15: decoding hostile input must not attempt a huge allocation).
pub const ALLOC_LIMIT: usize = 64 << 20;

thread_local! {
    /// largest single allocation request made by this thread since the last `alloc_reset`
    static PEAK_REQUEST: Cell<usize> = const { Cell::new(0) };
}

/// Forwards to the system allocator and remembers, per thread, the largest single request.  An
/// impossible request makes the system allocator return null and the process abort; the sweep
/// therefore runs in a child process and the supervisor turns the abort into a violation.
pub struct CountingAlloc;

fn note(size: usize) {
    let _ = PEAK_REQUEST.try_with(|p| {
        if size > p.get() {
            p.set(size);
        }
    });
}

unsafe impl GlobalAlloc for CountingAlloc {
    unsafe fn alloc(&self, layout: Layout) -> *mut u8 {
        note(layout.size());
        unsafe { System.alloc(layout) }
    }
    unsafe fn alloc_zeroed(&self, layout: Layout) -> *mut u8 {
        note(layout.size());
        unsafe { System.alloc_zeroed(layout) }
    }
    unsafe fn dealloc(&self, ptr: *mut u8, layout: Layout) {
        unsafe { System.dealloc(ptr, layout) }
    }
    unsafe fn realloc(&self, ptr: *mut u8, layout: Layout, new_size: usize) -> *mut u8 {
        note(new_size);
        unsafe { System.realloc(ptr, layout, new_size) }
    }
}

pub fn alloc_reset() {
    PEAK_REQUEST.with(|p| p.set(0));
}

pub fn alloc_peak() -> usize {
    PEAK_REQUEST.with(|p| p.get())
}

//////////////////////////////////////// report through a pipe /////////////////////////////////////

/// Everything of a Report that must survive the child -> supervisor hop.
pub fn dump_report(r: &Report) -> Value {
    let set = |s: &std::collections::HashSet<u64>| -> Vec<u64> {
        let mut v: Vec<u64> = s.iter().copied().collect();
        v.sort();
        v
    };
    json!({
        "evaluations": r.evaluations,
        "transitions": r.transitions,
        "traces_validated": r.traces_validated,
        "pruned_noops": r.pruned_noops,
        "states": set(&r.states),
        "nontrivial": set(&r.nontrivial),
        "outcomes": set(&r.outcomes),
        "exhaustive": r.exhaustive,
        "cap_hit": r.cap_hit,
        "samples": r.samples,
        "violations": r.violations.iter().map(|v| json!({
            "property": v.property, "signature": v.signature, "detail": v.detail, "case": v.case,
        })).collect::<Vec<_>>(),
        "violation_sigs": r.violation_sigs,
        "counters": r.counters,
        "notes": r.notes,
    })
}

pub fn load_report(job: &str, property: &str, v: &Value) -> Report {
    let mut r = Report::new(job, property);
    r.evaluations = v["evaluations"].as_u64().unwrap();
    r.transitions = v["transitions"].as_u64().unwrap();
    r.traces_validated = v["traces_validated"].as_u64().unwrap();
    r.pruned_noops = v["pruned_noops"].as_u64().unwrap();
    for (name, set) in [
        ("states", &mut r.states),
        ("nontrivial", &mut r.nontrivial),
        ("outcomes", &mut r.outcomes),
    ] {
        for x in v[name].as_array().unwrap() {
            set.insert(x.as_u64().unwrap());
        }
    }
    r.exhaustive = v["exhaustive"].as_bool().unwrap();
    r.cap_hit = v["cap_hit"].as_str().map(|s| s.to_string());
    r.samples = v["samples"].as_array().unwrap().clone();
    for x in v["violations"].as_array().unwrap() {
        r.violations.push(Violation {
            property: x["property"].as_str().unwrap().to_string(),
            signature: x["signature"].as_str().unwrap().to_string(),
            detail: x["detail"].as_str().unwrap().to_string(),
            case: x["case"].clone(),
        });
    }
    for (k, n) in v["violation_sigs"].as_object().unwrap() {
        r.violation_sigs.insert(k.clone(), n.as_u64().unwrap());
    }
    for (k, n) in v["counters"].as_object().unwrap() {
        r.counters.insert(k.clone(), n.as_u64().unwrap());
    }
    for (k, n) in v["notes"].as_object().unwrap() {
        r.notes.insert(k.clone(), n.clone());
    }
    r
}

/// Replace every run of decimal digits by `#` so that messages differing only in values collapse.
pub fn strip_digits(s: &str) -> String {
    let mut out = String::new();
    let mut in_digits = false;
    for c in s.chars() {
        if c.is_ascii_digit() {
            if !in_digits {
                out.push('#');
            }
            in_digits = true;
        } else {
            in_digits = false;
            out.push(if c == '\n' { ' ' } else { c });
        }
    }
    out
}
