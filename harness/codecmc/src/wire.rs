//! Independent reference for the protocol-buffers wire format.  Written from the public encoding
//! document, shares no code with buffertk/prototk, and is deliberately boring: arithmetic
//! definitions (no bit tricks), `Vec<u8>` output, one function per concept.

/// LEB128 / protobuf base-128 varint, least significant group first.
pub fn put_varint(out: &mut Vec<u8>, mut x: u64) {
    loop {
        let group = (x % 128) as u8;
        x /= 128;
        if x == 0 {
            out.push(group);
            return;
        }
        out.push(group + 128);
    }
}

pub fn varint(x: u64) -> Vec<u8> {
    let mut v = vec![];
    put_varint(&mut v, x);
    v
}

/// ZigZag by its arithmetic definition: n >= 0 -> 2n, n < 0 -> -2n - 1.
pub fn zigzag(x: i64) -> u64 {
    if x >= 0 {
        (x as u64) * 2
    } else {
        // -(x+1) is in 0..=i64::MAX, so nothing overflows
        ((-(x + 1)) as u64) * 2 + 1
    }
}

pub const WT_VARINT: u8 = 0;
pub const WT_I64: u8 = 1;
pub const WT_LEN: u8 = 2;
pub const WT_I32: u8 = 5;

pub fn put_tag(out: &mut Vec<u8>, field: u32, wire_type: u8) {
    put_varint(out, (field as u64) * 8 + wire_type as u64);
}

pub fn put_len_delimited(out: &mut Vec<u8>, payload: &[u8]) {
    put_varint(out, payload.len() as u64);
    out.extend_from_slice(payload);
}

/// What the reference says about decoding one varint from the front of `buf`.
#[derive(Clone, Copy, Debug, PartialEq, Eq, Hash)]
pub enum RefVarint {
    /// `value` is the encoded number modulo 2^64; `used` bytes were consumed; `dropped` says that
    /// the tenth byte carried bits above bit 63 (decoders may drop them or reject the input).
    Ok { value: u64, used: usize, dropped: bool },
    /// no terminating byte within the first ten bytes / within the buffer
    Err,
}

pub fn ref_varint_decode(buf: &[u8]) -> RefVarint {
    let mut acc: u128 = 0;
    let mut weight: u128 = 1;
    for (i, b) in buf.iter().enumerate() {
        if i >= 10 {
            break;
        }
        acc += ((*b % 128) as u128) * weight;
        weight *= 128;
        if *b < 128 {
            return RefVarint::Ok {
                value: (acc % (1u128 << 64)) as u64,
                used: i + 1,
                dropped: acc >= (1u128 << 64),
            };
        }
    }
    RefVarint::Err
}

#[cfg(test)]
mod tests {
    use super::*;
    #[test]
    fn varint_vectors() {
        assert_eq!(varint(0), vec![0]);
        assert_eq!(varint(127), vec![127]);
        assert_eq!(varint(128), vec![128, 1]);
        assert_eq!(varint(300), vec![0xac, 0x02]);
        assert_eq!(varint(u64::MAX).len(), 10);
        assert_eq!(zigzag(0), 0);
        assert_eq!(zigzag(-1), 1);
        assert_eq!(zigzag(1), 2);
        assert_eq!(zigzag(-2), 3);
        assert_eq!(zigzag(i64::MIN), u64::MAX);
        assert_eq!(zigzag(i64::MAX), u64::MAX - 1);
        assert_eq!(
            ref_varint_decode(&[0xac, 0x02, 0xff]),
            RefVarint::Ok { value: 300, used: 2, dropped: false }
        );
        assert_eq!(ref_varint_decode(&[0x80]), RefVarint::Err);
        assert_eq!(ref_varint_decode(&[]), RefVarint::Err);
    }
}
